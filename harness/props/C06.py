"""C06 - reception anomalies raise the documented error and never poison the receiver."""
import random
from core import *
from gen import *
from runner import Part, run_sharded
from streams import encode_stream
import lc
import k1_fuzz
from core import ms_to_ns

THEOREMS = 'IsoTp.Props.C06'
RULE = ('(anomaly) clean streams of 2..20 frames with ONE anomaly injected at every frame position, 13 kinds: wrong sequence number, '
        'Consecutive Frame when idle, Flow Control when idle, Single Frame interruption, First Frame interruption, First Frame longer '
        'than max_frame_size, undecodable frame, missing escape sequence, invalid First Frame RX_DL, changing RX_DL (to a smaller and to a larger CAN frame), wrong sequence number in a frame of another RX_DL (the sequence error wins), gap beyond '
        'rx_consecutive_frame_timeout; oracle: the documented error class is reported at that frame, the interrupted message is not '
        'delivered in whole or in part, a new SF/FF wins, a too long FF is answered by exactly one Flow Control Overflow; '
        '(recovery) random garbage histories (frames, partial messages, gaps beyond the timeouts, stop_receiving() at random points) '
        'followed by a clean message: delivered intact with correct flow control. All replayed on the extracted model. '
        'non-trivial = distinct cases; the anomaly x position product is enumerated exhaustively per stream')
ASSUME = []

KINDS = ['wrong_seq', 'cf_idle', 'fc_idle', 'sf_interrupt', 'ff_interrupt', 'ff_too_long', 'undecodable', 'missing_escape',
         'bad_ff_rxdl', 'changing_rxdl', 'changing_rxdl_up', 'wrong_seq_rxdl', 'timeout', 'on_deadline']
EXPECT = {'wrong_seq': 'WrongSequenceNumberError', 'cf_idle': 'UnexpectedConsecutiveFrameError', 'fc_idle': 'UnexpectedFlowControlError',
          'sf_interrupt': 'ReceptionInterruptedWithSingleFrameError', 'ff_interrupt': 'ReceptionInterruptedWithFirstFrameError',
          'ff_too_long': 'FrameTooLongError', 'undecodable': 'InvalidCanDataError', 'missing_escape': 'MissingEscapeSequenceError',
          'bad_ff_rxdl': 'InvalidCanFdFirstFrameRXDL', 'changing_rxdl': 'ChangingInvalidRXDLError', 'changing_rxdl_up': 'ChangingInvalidRXDLError', 'wrong_seq_rxdl': 'WrongSequenceNumberError', 'timeout': 'ConsecutiveFrameTimeoutError', 'on_deadline': None}


def anomaly_case(rng, kind, pos, inst, frames, payload, tx_dl):
    """ops + expectations for a stream with [kind] injected before frame index pos (1 <= pos < len(frames) = in reception)"""
    rid, ext, pfx = reach(inst)
    p = inst['params']
    ops = []
    R = lambda d: [0, 'rx', rid, int(ext), hx(d)]
    step = lambda: (ops.append([0, 'proc', 1, 1]), ops.append([0, 'recv']))
    in_rx = kind not in ('cf_idle', 'fc_idle')
    upto = pos if in_rx else 0
    for f in frames[:upto]:
        ops.append(R(f)); step()
    mark = len(ops)
    new_payload = None
    delivered_expected = []
    if kind == 'wrong_seq':
        sn = (pos + 1) & 0xF       # expected is pos, send pos+1
        ops.append(R(pfx + bytes([0x20 | sn]) + frames[pos][len(pfx) + 1:]))
    elif kind == 'cf_idle':
        ops.append(R(pfx + bytes([0x21, 1, 2, 3])))
    elif kind == 'fc_idle':
        ops.append(R(pfx + bytes([0x30, 0, 0])))
    elif kind == 'sf_interrupt':
        new_payload = bytes([0xA1, 0xA2, 0xA3])
        ops.append(R(pfx + bytes([3]) + new_payload))
        delivered_expected = [hx(new_payload)]
    elif kind == 'ff_interrupt':
        new_payload = bytes(rng.getrandbits(8) for _ in range(10))
        ops.append(R(pfx + bytes([0x10, 10]) + new_payload[:6 - len(pfx)]))
    elif kind == 'ff_too_long':
        L = p['max_frame_size'] + 1
        hdr = bytes([0x10 | (L >> 8), L & 0xFF]) if L <= 4095 else bytes([0x10, 0]) + L.to_bytes(4, 'big')
        ops.append(R((pfx + hdr + bytes(8))[:8]))
    elif kind == 'undecodable':
        ops.append(R(pfx + rng.choice([bytes([0x40, 1]), bytes([0x30, 0]), bytes([0x00]), bytes([0x10])])))
    elif kind == 'missing_escape':
        ops.append(R(pfx + bytes([0x03, 1, 2, 3]) + bytes(9)))
    elif kind == 'bad_ff_rxdl':
        ops.append(R(pfx + bytes([0x10, 20]) + bytes(8 - len(pfx))))      # CAN_DL 10: not a legal RX_DL
    elif kind == 'changing_rxdl':
        # a consecutive frame shorter than RX_DL that does not complete the message
        ops.append(R(pfx + bytes([0x20 | (pos & 0xF)]) + bytes(2)) if tx_dl > 8 else R(pfx + bytes([0x20 | (pos & 0xF)])))
    elif kind == 'changing_rxdl_up':
        # the expected consecutive frame in a CAN frame of the next larger size, which still cannot hold the rest of the message
        big = {8: 12, 12: 16, 16: 20, 20: 24, 24: 32, 32: 48, 48: 64}[tx_dl]
        ops.append(R(pfx + bytes([0x20 | (pos & 0xF)]) + bytes(rng.getrandbits(8) for _ in range(big - len(pfx) - 1))))
    elif kind == 'wrong_seq_rxdl':
        # two anomalies in one frame: the wrong sequence number in a CAN frame of another size - the sequence error wins, the reception ends
        sn = (pos + 1) & 0xF
        ops.append(R(pfx + bytes([0x20 | sn]) + bytes(2)) if tx_dl > 8 else R(pfx + bytes([0x20 | sn]) + bytes(11 - len(pfx))))
    elif kind == 'timeout':
        ops.append([0, 'tick', p['rx_consecutive_frame_timeout'] * 10**6 + rng.choice([1, 1000, 10**6])])
    elif kind == 'on_deadline':
        # not an anomaly: the next Consecutive Frame is processed exactly rx_consecutive_frame_timeout after the previous one - the
        # deadline is missed only when MORE than the timeout has elapsed; the reception goes on and the message is delivered
        ops.append([0, 'tick', ms_to_ns(p['rx_consecutive_frame_timeout'])])
    step()
    mark2 = len(ops)
    if kind == 'on_deadline':
        for f in frames[pos:]:
            ops.append(R(f)); step()
        delivered_expected = [hx(payload)]
    return ops, mark, mark2, delivered_expected, new_payload


def gen_anomaly_cases(rng, quick):
    a, _ = rand_inst_pair(rng)
    n = rng.choice([8, 9, 20, 30, 60, rng.randint(8, 120)])
    tx_dl = rng.choice([8, 8, 12, 64, 16, 48])
    p = {'blocksize': rng.choice([0, 1, 2, 5]), 'max_frame_size': rng.choice([max(n, 30), 200, 4095]), 'stmin': 0,
         'rx_consecutive_frame_timeout': rng.choice([2, 100, 1000])}
    inst = dict(a, params=p)
    rid, ext, pfx = reach(inst)
    if n + len(pfx) <= 7 or (tx_dl > 8 and n <= tx_dl - 2 - len(pfx)):
        n = tx_dl * 3
        p['max_frame_size'] = max(p['max_frame_size'], n)
    payload = bytes(rng.getrandbits(8) for _ in range(n))
    frames = encode_stream(payload, tx_dl, pfx, 'min')
    for kind in KINDS:
        if kind == 'changing_rxdl' and tx_dl == 8 and len(pfx) + 1 >= 2:
            pass
        positions = range(1, len(frames)) if kind not in ('cf_idle', 'fc_idle') else [0]
        if kind == 'changing_rxdl':
            if tx_dl == 8:
                continue
            ffc = tx_dl - 2 - len(pfx)
            cfc = tx_dl - 1 - len(pfx)
            # only where more than 8 bytes are still to be received (otherwise a short frame legally completes the message)
            positions = [q for q in positions if n - (ffc + (q - 1) * cfc) > 8]
        if kind == 'wrong_seq_rxdl':
            ffc = tx_dl - 2 - len(pfx)
            cfc = tx_dl - 1 - len(pfx)
            positions = [q for q in positions if n - (ffc + (q - 1) * cfc) > 12]
        if kind == 'changing_rxdl_up':
            if tx_dl == 64:
                continue
            big = {8: 12, 12: 16, 16: 20, 20: 24, 24: 32, 32: 48, 48: 64}[tx_dl]
            ffc = tx_dl - 2 - len(pfx)
            cfc = tx_dl - 1 - len(pfx)
            positions = [q for q in positions if n - (ffc + (q - 1) * cfc) > big]
        for pos in positions:
            ops, mark, mark2, dexp, newp = anomaly_case(rng, kind, pos, inst, frames, payload, tx_dl)
            # then a clean message must be received intact
            clean = bytes(rng.getrandbits(8) for _ in range(rng.choice([3, 30])))
            cops = []
            if kind == 'ff_interrupt':
                # the new message wins: finish it
                rest = encode_stream(newp, 8, pfx, 'min')[1:]
                for f in rest:
                    cops += [[0, 'rx', rid, int(ext), hx(f)], [0, 'proc', 1, 1], [0, 'recv']]
                dexp = [hx(newp)]
            for f in encode_stream(clean, 8, pfx, 'min'):
                cops += [[0, 'rx', rid, int(ext), hx(f)], [0, 'proc', 1, 1], [0, 'recv']]
            yield {'insts': [inst], 'nops': len(ops + cops), 'ops': ops + cops, 'kind': kind, 'pos': pos, 'mark': mark, 'mark2': mark2,
                   'payload': hx(payload), 'expect_delivered': dexp + [hx(clean)], 'nframes': len(frames), 'tx_dl': tx_dl}


def oracle_anomaly(case, lines, insts):
    if 'kind' not in case or case.get('nops') != len(case['ops']):
        return []       # shrinking candidate
    fails = []
    kind = case['kind']
    at = [e for l in lines[case['mark']:case['mark2']] for e in split_line(l)[0]]
    errs_at = [e[4:] for e in at if e.startswith('err:')]
    exp = EXPECT[kind]
    ok_special = False
    if exp is None:
        allerrs = [e for l in lines for e in split_line(l)[0] if e.startswith('err:')]
        if allerrs:
            fails.append(('C06:error-without-anomaly', 'a Consecutive Frame processed exactly on the deadline (frame %d): %s' % (case['pos'], allerrs[:3])))
    elif exp not in errs_at and not ok_special:
        fails.append(('C06:wrong-error-class:' + kind, 'anomaly %s at frame %d reported %s, expected %s' % (kind, case['pos'], errs_at, exp)))
    if kind == 'ff_too_long':
        ov = [e for e in at if e.startswith('tx:') and unhx(e.split(':')[6])[(1 if case['insts'][0]['txa']['mode'].startswith(('Extended', 'Mixed')) else 0)] == 0x32]
        if len(ov) != 1:
            fails.append(('C06:overflow-answer', 'too long First Frame answered by %d Overflow flow controls' % len(ov)))
    delivered = [e[5:] for l in lines for e in split_line(l)[0] if e.startswith('recv:') and e != 'recv:none']
    want = case['expect_delivered']
    if kind in ('changing_rxdl', 'changing_rxdl_up', 'missing_escape', 'fc_idle', 'cf_idle') :
        # these are ignored frames: the interrupted message may still be pending, nothing of it may be delivered early
        pass
    if case['payload'] in delivered and kind != 'on_deadline':
        fails.append(('C06:aborted-message-delivered', 'the interrupted message was delivered'))
    for d in delivered:
        if d not in want:
            fails.append(('C06:partial-or-foreign-delivery', 'delivered %s... not among the expected payloads' % d[:24]))
    if delivered[-1:] != want[-1:] and not (kind in ('changing_rxdl', 'changing_rxdl_up', 'missing_escape') or ok_special):
        fails.append(('C06:receiver-poisoned', 'the clean message after the anomaly was not delivered intact (got %d payloads)' % len(delivered)))
    if [d for d in delivered if d in want] != [w for w in want if w in delivered] :
        fails.append(('C06:order', 'deliveries out of order'))
    return fails


def gen_recovery(rng):
    base = k1_fuzz.gen_case(rng, nops=rng.randint(8, 50))
    inst = base['insts'][0]
    for k in ('listen_mode', 'rate_limit_enable', 'default_target_address_type'):
        inst['params'].pop(k, None)
    ops = [op for op in base['ops'] if op[1] in ('rx', 'proc', 'tick', 'recv', 'stop_receiving')]
    ops = [op if op[1] != 'proc' else [0, 'proc', 1, 1] for op in ops]
    # drain whatever is still in the inbox / rx queue, let pending timers expire or not, at random
    # (one process() call stops reading at each frame that asks for an immediate transmit pass: as many calls as frames fed)
    ops += [[0, 'proc', 1, 1]] * (4 + sum(1 for op in ops if op[1] == 'rx'))
    if rng.random() < 0.5:
        ops += [[0, 'tick', inst['params'].get('rx_consecutive_frame_timeout', 1000) * 10**6 + 5], [0, 'proc', 1, 1]]
    ops += [[0, 'recv']] * (8 + sum(1 for op in ops if op[1] == 'rx'))
    mark = len(ops)
    rid, ext, pfx = reach(inst)
    n = rng.choice([1, 7, 8, 30, 100])
    inst['params']['max_frame_size'] = max(inst['params'].get('max_frame_size', 4095), n)
    clean = bytes(rng.getrandbits(8) for _ in range(n))
    frames = encode_stream(clean, rng.choice([8, 16, 64]), pfx, rng.choice(['min', 'full']))
    for f in frames:
        ops += [[0, 'rx', rid, int(ext), hx(f)], [0, 'proc', 1, 1]]
    ops += [[0, 'proc', 1, 1], [0, 'recv'], [0, 'recv']]
    return {'insts': [inst], 'ops': ops, 'rmark': mark, 'clean': hx(clean), 'nclean': len(frames), 'nops': len(ops)}


def oracle_recovery(case, lines, insts):
    if 'rmark' not in case or len(case['ops']) != case['nops']:
        return []
    fails = []
    tail = lines[case['rmark']:]
    delivered = [e[5:] for l in tail for e in split_line(l)[0] if e.startswith('recv:') and e != 'recv:none']
    errs = [e for l in tail for e in split_line(l)[0] if e.startswith('err:') or e == 'crash']
    # the first frame of the clean message may legitimately interrupt a reception the garbage left in progress
    was_active = case['rmark'] > 0 and 'rx=1' in lines[case['rmark'] - 1]
    if was_active and errs and errs[0] in ('err:ReceptionInterruptedWithSingleFrameError', 'err:ReceptionInterruptedWithFirstFrameError'):
        errs = errs[1:]
    if delivered != [case['clean']]:
        fails.append(('C06:receiver-poisoned', 'after the garbage history the clean message gave %d deliveries' % len(delivered)))
    if errs:
        fails.append(('C06:receiver-poisoned', 'errors while receiving the clean message: %s' % errs[:3]))
    bs = case['insts'][0]['params'].get('blocksize', 8)
    ntx = sum(1 for l in tail for e in split_line(l)[0] if e.startswith('tx:'))
    ncf = case['nclean'] - 1
    exp = 0 if case['nclean'] == 1 else 1 + (((ncf - 1) // bs) if bs else 0)
    if ntx != exp:
        fails.append(('C06:flow-control-after-recovery', '%d flow controls for the clean message, expected %d' % (ntx, exp)))
    return fails


def run_shard(campaign, shard, nshards, seed, tier):
    if campaign == 'api':
        import apiuse
        return apiuse.run_api('C06', shard, nshards, seed, tier)
    part = Part()
    rng = random.Random('%s/%s/%s' % (seed, campaign, shard))
    quick = tier != 'thorough'
    if campaign == 'anomaly':
        nstreams = (24 if quick else 600) // nshards + 1
        for _ in range(nstreams):
            for case in gen_anomaly_cases(rng, quick):
                part.hist('anomaly', case['kind'])
                part.hist('position', min(case['pos'], 20))
                part.distinct((case['kind'], case['pos'], case['payload'][:16], case['insts'][0]['params']['blocksize']))
                lc.run_case(part, campaign, case, oracle=oracle_anomaly, theorem=THEOREMS)
                part.sample({'kind': case['kind'], 'pos': case['pos'], 'inst': case['insts'][0], 'ops': case['ops'][:3]})
    else:
        n = (500 if quick else 30000) // nshards + 1
        for _ in range(n):
            case = gen_recovery(rng)
            part.distinct(case)
            lc.run_case(part, campaign, case, oracle=oracle_recovery, theorem=THEOREMS)
            part.sample({'inst': case['insts'][0], 'ops': case['ops'][:5]})
    return part.result()


def run(ctx):
    run_sharded(ctx, 'C06', 'anomaly')
    run_sharded(ctx, 'C06', 'recovery')
    ctx.exhaustive['11 anomaly kinds x every frame position of each generated stream'] = True
    run_sharded(ctx, 'C06', 'api', nshards=2)
    import apiuse
    return RULE + apiuse.rule_text('C06'), ASSUME
