"""C07 - timeouts fire exactly when the deadline is missed, and only then (virtual clock)."""
import random
from core import *
from gen import *
from runner import Part, run_sharded
from streams import encode_stream
import lc
import coqtables

THEOREMS = 'IsoTp.Props.C07'
RULE = ('virtual clock; timeouts in {1,2,7,200,1000,1001,9999,10000} ms; (rx) streams with ONE inter-frame gap T-d or T+d for d in '
        '{1 ns, 1 us, 1 ms, T/3} (never exactly T) at every frame position, 0-3 idle process() calls placed at random offsets inside the '
        'gap, blocksize {0,1,2,8}: error iff gap > T, exactly one ConsecutiveFrameTimeoutError, nothing delivered; otherwise delivered '
        'intact, no error; (tx) Flow Control withheld for T-d / T+d after the First Frame, after a block end and after an accepted Wait '
        'frame (wftmax>0), idle passes inside: exactly one FlowControlTimeoutError and a failed request iff the gap > T; (idle) receptions '
        'and transmissions ended by completion, interruption, overflow, wrong sequence number, invalid frame, stop_receiving / '
        'stop_sending followed by silence of 3T with idle passes: no timeout error. Plus the exhaustive ms->ns conversion table 0..20000 ms '
        'evaluated inside Coq (PrimFloat, vm_compute) against the Python expression the harness uses. All cases replayed on the model.'
        ' (tx, after_max_waits) the whole wftmax budget of Wait frames is used up in time, then the deadline passes: exactly one FlowControlTimeoutError whatever arrives afterwards. (blocking_rx) rxfn advances the virtual clock before handing over a Consecutive Frame (blocking read): the deadline is judged at hand-over; the model sees tick-then-process.'
        ' In the rx campaign the frame before the gap, when it asks for a Flow Control, is also processed by separate receive-only and transmit-only calls with time in between: the deadline runs from the emission of the Flow Control; and the First Frame is read by a receive-only call followed only by receive-only calls during the gap: no Flow Control has been sent, the deadline runs from the First Frame. In the tx campaign a third of the Flow Controls arrive full duplex with split calls: the Flow Control and a First Frame of the peer are read by two receive-only calls before the next transmitting call.')
ASSUME = ['deadlines are measured at processing instants of the virtual clock (the latency inside one process() call is runtime)']

TIMEOUTS = [1, 2, 7, 200, 1000, 1001, 9999, 10000]


def deltas(T):
    return [1, 1000, 10**6 if T > 10**6 else 1, T // 3]


def gap_ops(rng, total, nidle, do_tx=1):
    """split [total] ns into nidle+1 ticks with idle process() calls in between"""
    cuts = sorted(rng.randint(0, total) for _ in range(nidle))
    ops = []
    prev = 0
    for cpoint in cuts:
        ops.append([0, 'tick', cpoint - prev])
        ops.append([0, 'proc', 1, do_tx])
        prev = cpoint
    ops.append([0, 'tick', total - prev])
    return ops


def gen_rx_case(rng):
    a, _ = rand_inst_pair(rng)
    Tms = rng.choice(TIMEOUTS)
    T = ms_to_ns(Tms)
    p = {'rx_consecutive_frame_timeout': Tms, 'blocksize': rng.choice([0, 1, 2, 3, 8]), 'stmin': rng.choice([0, 0, 5, 0x7F]), 'max_frame_size': 4095}   # the separation time the layer asks for has no bearing on its own deadline
    if rng.random() < 0.3:
        p['listen_mode'] = True        # a listener abandons a reception after the same deadline
    inst = dict(a, params=p)
    rid, ext, pfx = reach(inst)
    n = rng.choice([20, 40, 100])
    payload = bytes(rng.getrandbits(8) for _ in range(n))
    frames = encode_stream(payload, 8, pfx)
    pos = rng.randrange(1, len(frames))
    d = rng.choice(deltas(T))
    late = rng.random() < 0.5
    if not late and rng.random() < 0.15:
        d = 0       # exactly on the deadline: not yet missed (the timer expires when MORE than the timeout has elapsed)
    gap = T + d if late else max(0, T - d)
    ops = []
    bs = p['blocksize']
    # the frame before the gap asks for a Flow Control (First Frame or end of a block): the receive pass and the transmit pass may
    # be separate calls with time in between; the deadline then runs from the emission of the Flow Control (the second call)
    fc_point = (pos == 1) or (bs and (pos - 1) % bs == 0)
    split = fc_point and not p.get('listen_mode') and rng.random() < 0.5
    # the First Frame is read by a receive-only pass and only receive-only passes follow during the gap: no Flow Control has been
    # sent yet, the deadline runs from the First Frame itself
    starved = split and pos == 1 and rng.random() < 0.4
    for i, f in enumerate(frames):
        if starved and i == 0:
            ops += [[0, 'rx', rid, int(ext), hx(f)], [0, 'proc', 1, 0]] + gap_ops(rng, gap, rng.randint(0, 3), do_tx=0) + [[0, 'proc', 1, 0], [0, 'proc', 0, 1], [0, 'recv']]
            continue
        if i == pos and not starved:
            remaining = n - (6 - len(pfx)) - (pos - 1) * (7 - len(pfx))
            if late and remaining > 12 and rng.random() < 0.3:
                # in the middle of the gap a frame the reception ignores (the expected Consecutive Frame in a 12-byte CAN frame that
                # cannot hold the rest): it does not count as "the next Consecutive Frame", the deadline still runs from the last accepted one
                half = gap // 2
                ops += gap_ops(rng, half, rng.randint(0, 1))
                ops += [[0, 'rx', rid, int(ext), hx(pfx + bytes([0x20 | (pos & 0xF)]) + bytes(11 - len(pfx)))], [0, 'proc', 1, 1]]
                ops += gap_ops(rng, gap - half, rng.randint(0, 1))
            else:
                ops += gap_ops(rng, gap, rng.randint(0, 3))
        if split and i == pos - 1:
            ops += [[0, 'rx', rid, int(ext), hx(f)], [0, 'proc', 1, 0], [0, 'tick', rng.choice([T // 2, max(0, T - 1), T // 3])], [0, 'proc', 0, 1], [0, 'recv']]
        else:
            ops += [[0, 'rx', rid, int(ext), hx(f)], [0, 'proc', 1, 1], [0, 'recv']]
    ops += [[0, 'proc', 1, 1], [0, 'recv']]
    # then silence
    ops += [[0, 'tick', 3 * T + 7], [0, 'proc', 1, 1], [0, 'tick', T + 1], [0, 'proc', 1, 1], [0, 'recv']]
    return {'insts': [inst], 'ops': ops, 'nops': len(ops), 'late': late, 'payload': hx(payload), 'kind': 'rx', 'T_ms': Tms, 'gap_ns': gap, 'pos': pos}


def oracle_rx(case, lines, insts):
    if case.get('nops') != len(case['ops']):
        return []
    fails = []
    errs = [e[4:] for l in lines for e in split_line(l)[0] if e.startswith('err:')]
    delivered = [e[5:] for l in lines for e in split_line(l)[0] if e.startswith('recv:') and e != 'recv:none']
    nto = errs.count('ConsecutiveFrameTimeoutError')
    if case['late']:
        if nto != 1:
            fails.append(('C07:missed-consecutive-frame-timeout', 'gap %d ns > T=%d ms at frame %d: %d timeout errors (%s)' % (case['gap_ns'], case['T_ms'], case['pos'], nto, errs[:4])))
        if delivered:
            fails.append(('C07:delivered-after-timeout', 'a message was delivered although the deadline was missed'))
    else:
        if nto:
            fails.append(('C07:timeout-before-deadline', 'gap %d ns <= T=%d ms at frame %d but %d timeout errors' % (case['gap_ns'], case['T_ms'], case['pos'], nto)))
        elif errs or delivered != [case['payload']]:
            fails.append(('C07:frame-before-deadline-rejected', 'errors %s, deliveries %d' % (errs[:3], len(delivered))))
    return fails


def gen_tx_case(rng):
    a, _ = rand_inst_pair(rng)
    Tms = rng.choice(TIMEOUTS)
    T = ms_to_ns(Tms)
    wft = rng.choice([0, 0, 2, 5])
    p = {'rx_flowcontrol_timeout': Tms, 'wftmax': wft, 'stmin': 0}
    inst = dict(a, params=p)
    rid, ext, pfx = reach(inst)
    where = rng.choice(['after_ff', 'after_block', 'after_wait', 'after_max_waits', 'after_standby'] if wft else ['after_ff', 'after_block', 'after_standby'])
    if where == 'after_standby':
        # the rate limiter holds the First Frame back: the deadline runs from its emission, not from its construction
        p.update(rate_limit_enable=True, rate_limit_max_bitrate=64 * 8, rate_limit_window_size=0.125)
    d = rng.choice(deltas(T))
    late = rng.random() < 0.5
    if not late and rng.random() < 0.15:
        d = 0       # exactly on the deadline: not yet missed
    gap = T + d if late else max(0, T - d)
    fc = lambda st, bs: [0, 'rx', rid, int(ext), hx(pfx + bytes([0x30 | st, bs, 0]))]
    ops = [[0, 'send', None, hx(bytes(range(60)))], [0, 'proc', 1, 1]]
    if where == 'after_standby':
        hold = rng.choice([T // 2, T - 1, T + 5, 3 * T]) + 125 * 10**6 + 1
        ops = [[0, 'send', None, hx(bytes([1, 2, 3]))], [0, 'proc', 1, 1], [0, 'send', None, hx(bytes(range(60)))], [0, 'proc', 1, 1],
               [0, 'tick', hold], [0, 'proc', 1, 1]]
    if where == 'after_block':
        ops += [fc(0, 2), [0, 'proc', 1, 1], [0, 'proc', 1, 1]]
    elif where == 'after_wait':
        ops += [[0, 'tick', T // 2], fc(1, 0), [0, 'proc', 1, 1]]
    elif where == 'after_max_waits':
        # the whole Wait budget is used up in time; what comes after the last deadline is a timeout, whatever arrives then
        for _ in range(wft):
            ops += [[0, 'tick', rng.choice([T // 2, T // 3, max(0, T - 1)])], fc(1, 0), [0, 'proc', 1, 1]]
    if where in ('after_ff', 'after_block') and rng.random() < 0.25:
        # full duplex: while the layer waits for its Flow Control it receives the start of a message of the peer, up to the end of one of
        # its own receive blocks - the deadline of its own wait is not affected
        p['blocksize'] = 2
        ops += [[0, 'rx', rid, int(ext), hx(pfx + bytes([0x10, 40]) + bytes(range(6 - len(pfx))))], [0, 'proc', 1, 1],
                [0, 'rx', rid, int(ext), hx(pfx + bytes([0x21]) + bytes(7 - len(pfx)))], [0, 'proc', 1, 1],
                [0, 'rx', rid, int(ext), hx(pfx + bytes([0x22]) + bytes(7 - len(pfx)))], [0, 'proc', 1, 1]]
    ops += gap_ops(rng, gap, 0 if (where == 'after_max_waits' and rng.random() < 0.6) else rng.randint(0, 3))
    late_fc = rng.choice(['cts', 'wait', 'none']) if wft else rng.choice(['cts', 'none'])
    if where == 'after_max_waits' and rng.random() < 0.6:
        late_fc = 'wait'
    duplex = late_fc != 'none' and where != 'after_standby' and rng.random() < 0.3
    if duplex:
        # full duplex with split passes: the Flow Control for the layer's message and a First Frame of the peer (which makes the layer
        # owe a Flow Control of its own) are read by two receive-only calls, in either order, before the next transmitting call
        two = [[fc(0, 0) if late_fc == 'cts' else fc(1, 0), [0, 'proc', 1, 0]],
               [[0, 'rx', rid, int(ext), hx(pfx + bytes([0x10, 20]) + bytes(range(6 - len(pfx))))], [0, 'proc', 1, 0]]]
        rng.shuffle(two)
        ops += two[0] + two[1]
    elif late_fc == 'cts':
        ops.append(fc(0, 0))
    elif late_fc == 'wait':
        ops.append(fc(1, 0))
    ops += [[0, 'proc', 1, 1], [0, 'proc', 1, 1]]
    if where == 'after_standby' and late_fc == 'cts' and not late:
        # the accepted ContinueToSend is followed by rate-limited Consecutive Frames: let the limiter window slide
        ops += [[0, 'tick', 126 * 10**6], [0, 'proc', 1, 1], [0, 'proc', 1, 1]] * 3
    mark = len(ops)
    ops += [[0, 'tick', 3 * T + 11], [0, 'proc', 1, 1], [0, 'tick', T + 1], [0, 'proc', 1, 1]]
    return {'insts': [inst], 'ops': ops, 'nops': len(ops), 'late': late, 'kind': 'tx', 'T_ms': Tms, 'gap_ns': gap, 'where': where,
            'late_fc': late_fc, 'mark': mark, 'duplex': duplex}


def oracle_tx(case, lines, insts):
    if case.get('nops') != len(case['ops']):
        return []
    fails = []
    head = lines[:case['mark']]
    errs = [e[4:] for l in head for e in split_line(l)[0] if e.startswith('err:')]
    done = [e for l in head for e in split_line(l)[0] if e.startswith('done:')]
    nto = errs.count('FlowControlTimeoutError')
    if case['where'] == 'after_standby':
        done = [d for d in done if d != 'done:0:1']      # request 0 is the single frame that used up the budget
        done = ['done:0:' + d.split(':')[2] for d in done]
    if case['late']:
        if nto != 1 or done != ['done:0:0']:
            fails.append(('C07:missed-flow-control-timeout', '%s: gap %d ns > T=%d ms, then %s: %d timeout errors, completions %s, errors %s' % (
                case['where'], case['gap_ns'], case['T_ms'], case['late_fc'], nto, done, errs[:4])))
    else:
        if nto:
            fails.append(('C07:timeout-before-deadline', '%s: gap %d ns <= T=%d ms but FlowControlTimeoutError reported' % (case['where'], case['gap_ns'], case['T_ms'])))
        elif case['late_fc'] == 'cts' and case['where'] == 'after_standby':
            # rate limited (one frame per window): accepted = the sender left WAIT_FC and a Consecutive Frame followed
            if not any(' tx=C ' in l for l in head) and done != ['done:0:1']:
                fails.append(('C07:flow-control-before-deadline-rejected', 'ContinueToSend processed before the deadline was not followed by Consecutive Frames, completions %s errors %s' % (done, errs[:3])))
        elif case['late_fc'] == 'cts' and done != ['done:0:1']:
            fails.append(('C07:flow-control-before-deadline-rejected', 'ContinueToSend processed before the deadline, completions %s errors %s' % (done, errs[:3])))
    allerrs = [e[4:] for l in lines for e in split_line(l)[0] if e.startswith('err:')]
    if allerrs.count('FlowControlTimeoutError') > 1:
        fails.append(('C07:timeout-reported-twice', 'FlowControlTimeoutError reported %d times' % allerrs.count('FlowControlTimeoutError')))
    return fails


def gen_idle_case(rng):
    a, _ = rand_inst_pair(rng)
    Tms = rng.choice([1, 7, 200, 1000])
    T = ms_to_ns(Tms)
    p = {'rx_consecutive_frame_timeout': Tms, 'rx_flowcontrol_timeout': Tms, 'blocksize': rng.choice([0, 2]), 'max_frame_size': 100, 'wftmax': rng.choice([0, 3])}
    inst = dict(a, params=p)
    rid, ext, pfx = reach(inst)
    R = lambda d: [0, 'rx', rid, int(ext), hx(pfx + bytes(d))]
    ff = R([0x10, 30, 1, 2, 3, 4, 5, 6][:8 - len(pfx)])
    cf1 = R([0x21, 7, 8, 9, 10, 11, 12, 13][:8 - len(pfx)])
    ends = {
        'complete': [R([0x10, 9, 1, 2, 3, 4, 5, 6][:8 - len(pfx)]), [0, 'proc', 1, 1], R([0x21, 7, 8, 9, 10, 11, 12, 13][:8 - len(pfx)])],
        'sf_interrupt': [ff, [0, 'proc', 1, 1], R([0x02, 1, 2])],
        'ff_interrupt_too_long': [ff, [0, 'proc', 1, 1], R([0x1F, 0xFF, 1, 2, 3, 4, 5, 6][:8 - len(pfx)])],
        'wrong_seq': [ff, [0, 'proc', 1, 1], R([0x23, 1, 2, 3, 4, 5, 6, 7][:8 - len(pfx)])],
        'invalid': [ff, [0, 'proc', 1, 1], cf1, [0, 'proc', 1, 1], R([0x55])],
        'stop_receiving': [ff, [0, 'proc', 1, 1], cf1, [0, 'proc', 1, 1], [0, 'stop_receiving']],
        'too_long_idle': [R([0x1F, 0xFF, 1, 2, 3, 4, 5, 6][:8 - len(pfx)])],
        'tx_overflow': [[0, 'send', None, hx(bytes(30))], [0, 'proc', 1, 1], R([0x32, 0, 0])],
        'tx_complete': [[0, 'send', None, hx(bytes(12))], [0, 'proc', 1, 1], R([0x30, 0, 0])],
        'tx_stop': [[0, 'send', None, hx(bytes(30))], [0, 'proc', 1, 1], R([0x30, 1, 0]), [0, 'proc', 1, 1], [0, 'stop_sending']],
        'tx_sf': [[0, 'send', None, hx(bytes(3))]],
        'reset': [ff, [0, 'send', None, hx(bytes(30))], [0, 'proc', 1, 1], [0, 'reset']],
    }
    kind = rng.choice(sorted(ends))
    ops = list(ends[kind]) + [[0, 'proc', 1, 1]]
    mark = len(ops)
    for _ in range(rng.randint(1, 4)):
        ops += [[0, 'tick', rng.choice([T - 1, T + 1, 3 * T, T // 2 + 1])], [0, 'proc', 1, 1]]
    ops += [[0, 'tick', 3 * T + 1], [0, 'proc', 1, 1], [0, 'proc', 0, 1]]
    return {'insts': [inst], 'ops': ops, 'nops': len(ops), 'kind': 'idle', 'end': kind, 'mark': mark}


def oracle_idle(case, lines, insts):
    if case.get('nops') != len(case['ops']):
        return []
    tail = lines[case['mark']:]
    errs = [e[4:] for l in tail for e in split_line(l)[0] if e.startswith('err:')]
    bad = [e for e in errs if e in ('ConsecutiveFrameTimeoutError', 'FlowControlTimeoutError')]
    if bad:
        return [('C07:timeout-while-idle', 'after "%s" the silence produced %s' % (case['end'], bad))]
    return []


def blocking_rx_run(rng):
    """rxfn blocks (virtual time passes inside the read) and returns a Consecutive Frame that arrives [gap] after the previous frame:
    the deadline is judged when the frame is handed over, not when the read started.  Same run on the model as [tick gap; proc]."""
    import isotp
    from vclock import VClock
    a, _ = rand_inst_pair(rng)
    Tms = rng.choice(TIMEOUTS)
    T = ms_to_ns(Tms)
    p = {'rx_consecutive_frame_timeout': Tms, 'blocksize': rng.choice([0, 2]), 'stmin': 0}
    inst = dict(a, params=p)
    rid, ext, pfx = reach(inst)
    d = rng.choice(deltas(T))
    late = rng.random() < 0.5
    gap = T + d if late else max(0, T - d)
    pay = bytes(rng.getrandbits(8) for _ in range(10))
    ff = pfx + bytes([0x10, 10]) + pay[:6 - len(pfx)]
    cfs = []
    off, sn = 6 - len(pfx), 1
    while off < 10:
        cfs.append(pfx + bytes([0x20 | sn]) + pay[off:off + 7 - len(pfx)])
        off += 7 - len(pfx); sn += 1
    which = rng.randrange(len(cfs))          # the frame that comes late (or just in time)
    clock = VClock(10**9)
    script = []
    errs, sent = [], []

    def rxfn(timeout):
        if not script:
            return None
        delay, data = script.pop(0)
        clock.tick(delay)              # the read blocks until the frame is there
        return isotp.CanMessage(arbitration_id=rid, data=data, extended_id=bool(ext))
    clock.install()
    try:
        layer = isotp.TransportLayerLogic(rxfn=rxfn, txfn=sent.append, address=make_layer_address(inst), error_handler=lambda e: errs.append(type(e).__name__), params=dict(p))
        ops = [[0, 'rx', rid, int(ext), hx(ff)], [0, 'proc', 1, 1]]
        script.append((0, ff)); layer.process()
        for i, cf in enumerate(cfs):
            g = gap if i == which else 0
            script.append((g, cf)); layer.process(rx_timeout=1.0)
            ops += [[0, 'tick', g], [0, 'rx', rid, int(ext), hx(cf)], [0, 'proc', 1, 1]]
        got = layer.recv()
    finally:
        clock.uninstall()
    return {'insts': [inst], 'ops': ops + [[0, 'recv']], 'late': late, 'gap_ns': gap, 'T_ms': Tms, 'errors': errs, 'delivered': None if got is None else hx(got), 'payload': hx(pay)}


def run_shard(campaign, shard, nshards, seed, tier):
    if campaign == 'api':
        import apiuse
        return apiuse.run_api('C07', shard, nshards, seed, tier)
    part = Part()
    rng = random.Random('%s/%s/%s' % (seed, campaign, shard))
    quick = tier != 'thorough'
    if campaign == 'blocking_rx':
        for _ in range((300 if quick else 10000) // nshards + 1):
            res = blocking_rx_run(rng)
            part.d['evaluations'] += 1
            part.distinct({k: res[k] for k in ('insts', 'gap_ns', 'late')})
            part.hist('side_of_deadline', 'blocking-read/' + ('after' if res['late'] else 'before'))
            nto = res['errors'].count('ConsecutiveFrameTimeoutError')
            case = {'insts': res['insts'], 'ops': res['ops']}
            if res['late'] and (nto != 1 or res['delivered'] is not None):
                part.violation('oracle', campaign, 'C07:missed-consecutive-frame-timeout', 'a Consecutive Frame handed over by a blocking read %d ns after the previous frame (T=%d ms): %d timeout errors, delivered=%s, errors %s' % (
                    res['gap_ns'], res['T_ms'], nto, res['delivered'], res['errors'][:4]), case, {'blocking_read': True})
                continue
            if not res['late'] and (nto or res['delivered'] != res['payload']):
                part.violation('oracle', campaign, 'C07:timeout-before-deadline', 'gap %d ns <= T=%d ms inside a blocking read: errors %s delivered=%s' % (
                    res['gap_ns'], res['T_ms'], res['errors'][:4], res['delivered']), case, {'blocking_read': True})
                continue
            # the model sees the same history as [tick gap; frame; process()]
            ml = lc.model().run_case(case)
            part.d['traces_validated'] += 1
            merrs = [e[4:] for l in ml for e in split_line(l)[0] if e.startswith('err:')]
            mdel = [e[5:] for l in ml for e in split_line(l)[0] if e.startswith('recv:') and e != 'recv:none']
            if merrs != res['errors'] or (mdel[0] if mdel else None) != res['delivered']:
                part.violation('correspondence', campaign, 'corr:blocking_rx', 'model (tick; process) and implementation (blocking read) differ: errors %s vs %s, delivered %s vs %s' % (
                    merrs, res['errors'], mdel, res['delivered']), case, {'theorem_or_correspondence': THEOREMS, 'blocking_read': True})
        return part.result()
    gens = {'rx': (gen_rx_case, oracle_rx, 600, 30000), 'tx': (gen_tx_case, oracle_tx, 600, 30000), 'idle': (gen_idle_case, oracle_idle, 400, 12000)}
    g, o, nq, nt = gens[campaign]
    for _ in range((nq if quick else nt) // nshards + 1):
        case = g(rng)
        part.distinct(case)
        part.hist('timeout_ms', case['insts'][0]['params'].get('rx_consecutive_frame_timeout' if campaign != 'tx' else 'rx_flowcontrol_timeout'))
        if 'late' in case:
            part.hist('side_of_deadline', 'after' if case['late'] else 'before')
        if 'end' in case:
            part.hist('ended_by', case['end'])
        if 'where' in case:
            part.hist('tx_where', case['where'] + '/' + case['late_fc'])
        lc.run_case(part, campaign, case, oracle=o, theorem=THEOREMS)
        part.sample({k: case[k] for k in case if k not in ('ops',)} | {'ops': case['ops'][:6]})
    return part.result()


def run(ctx):
    for c in ('rx', 'tx', 'idle', 'blocking_rx'):
        run_sharded(ctx, 'C07', c)
    res = coqtables.check_to_ns_table(ctx)
    ctx.exhaustive['ms -> ns timer conversion, all integers 0..20000 ms (Coq PrimFloat vs harness expression)'] = res
    run_sharded(ctx, 'C07', 'api', nshards=2)
    import apiuse
    return RULE + apiuse.rule_text('C07'), ASSUME
