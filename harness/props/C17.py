"""C17 - generator payloads are streamed lazily and size mismatches are caught."""
import random
from core import *
from gen import *
from runner import Part, run_sharded
from peers import PeerRun
import lc
from C02 import setup_spec

THEOREMS = 'IsoTp.Props.C17'
RULE = ('send((generator, size)) with an instrumented generator that counts pulls: (declared size, actual length) pairs around every '
        'frame boundary (equal, shorter by 1..k, longer, empty, huge declared size with an endless generator) x link sizes x prefix x peer '
        'block size / stmin. After EVERY process() call: pulls <= bytes already emitted + one frame and pulls <= size. Oracle: generator '
        'long enough -> the wire carries exactly the extracted Coq reference segmentation of the first `size` values and nothing beyond '
        'them is pulled; generator short -> BadGeneratorError exactly once, request failed, never completed as a shorter or padded '
        'message (the bytes on the wire are a strict prefix announcing the declared size). Replayed on the extracted model.'
        ' (blocking) blocking_send=True with send(send_timeout=0): nothing is pulled inside send(), afterwards the pulls follow the emitted bytes.'
        ' A third of the short transfers run under a rate limiter of two frames per window (frames held back, never lost; same laziness bound).'
        ' (shared) one generator object feeds two or three successive requests: each transfer carries the next [size] values, the generator is not closed and still yields the following value afterwards.')
ASSUME = ['user generators yield ints 0..255 and do not raise']


def run_one(rng, inst, size, have, fill, bs, limited=False):
    """returns (PeerRun, pulls after each op, payload bytes emitted after each op)"""
    pr = PeerRun([inst], links={0: 0})
    rid, ext, pfx = reach(inst)
    tplen = 1 if inst['txa']['mode'].startswith(('Extended', 'Mixed')) else 0
    trace = []
    pr.op(0, 'sendgen', None, size, hx(bytes((i * 5 + 1) & 0xFF for i in range(have))), fill)
    seen = 0
    cf_since = 0
    emitted_payload = 0
    short = fill is None and have < size      # the error comes at the very end: run to completion
    for step in range(4000 if short else 400):
        pr.proc(0)
        new = pr.wire[0][seen:]
        seen = len(pr.wire[0])
        need = False
        for fr in new:
            d = unhx(fr[2])[tplen:]
            t = d[0] >> 4
            if t == 0:
                emitted_payload += (d[0] & 0xF) or d[1]
            elif t == 1:
                hdr = 2 if (((d[0] & 0xF) << 8) | d[1]) else 6
                emitted_payload += len(d) - hdr
                need = True
                cf_since = 0
            elif t == 2:
                emitted_payload += len(d) - 1      # upper bound (padding counted): only used as an allowance
                cf_since += 1
                if bs and cf_since >= bs:
                    need = True
                    cf_since = 0
        pulls = pr.impl[0].pulls[0][0] if pr.impl[0].pulls else 0
        trace.append((pulls, emitted_payload))
        if not pr.impl[0].layer.transmitting() or (seen > 60 and not short):
            break
        if need:
            pr.op(0, 'rx', rid, int(ext), hx(pfx + bytes([0x30, bs, 0])))
        elif not new:
            pr.tick_all(63 * 10**6 if limited else 1000000)
    pr.close()
    return pr, trace


def blocking_lazy_run(rng):
    """blocking_send=True: send((generator, size), send_timeout=0) returns at once with BlockingSendTimeout and the request stays
    queued; nothing may have been pulled yet, and afterwards the pull count follows the emitted bytes exactly as without blocking."""
    import isotp
    tx_dl = rng.choice([8, 12, 64])
    mode = rng.choice(['Normal_11bits', 'Extended_29bits'])
    a = rand_address(rng, mode)
    plen = 1 if mode != 'Normal_11bits' else 0
    params = {'tx_data_length': tx_dl, 'stmin': 0, 'blocking_send': True}
    if tx_dl > 8:
        params['can_fd'] = True
    inst = {'txa': a, 'rxa': None, 'params': params}
    rid, ext, pfx = reach(inst)
    size = rng.choice([tx_dl * 3, 200, 1000])
    pulled = [0]

    def g():
        for i in range(size):
            pulled[0] += 1
            yield i & 0xFF
    sent, inbox = [], []
    layer = isotp.TransportLayerLogic(rxfn=lambda: inbox.pop(0) if inbox else None, txfn=sent.append, address=make_layer_address(inst), params=dict(params))
    fails = []
    try:
        layer.send((g(), size), send_timeout=0)
        out = 'returned'
    except isotp.BlockingSendTimeout:
        out = 'timeout'
    except Exception as e:
        out = 'other:' + type(e).__name__
    if out != 'timeout':
        fails.append(('C17:blocking-send-outcome', 'send(send_timeout=0) with nobody processing: %s' % out))
    if pulled[0] != 0:
        fails.append(('C17:pulled-ahead-of-emission', 'blocking_send: %d values pulled inside send() before any frame was built (size %d)' % (pulled[0], size)))
    trace = []
    for step in range(400):
        layer.process()
        emitted = 0
        for m_ in sent:
            d = bytes(m_.data)[plen:]
            t = d[0] >> 4
            emitted += (len(d) - (2 if d[1] or d[0] & 0xF else 6)) if t == 1 else (len(d) - 1 if t == 2 else 0)
        trace.append((pulled[0], emitted))
        if pulled[0] > emitted + (tx_dl - 1 - plen) and not fails:
            fails.append(('C17:pulled-ahead-of-emission', 'blocking_send: %d values pulled, %d payload bytes emitted (frame capacity %d)' % (pulled[0], emitted, tx_dl - 1 - plen)))
        if not layer.transmitting():
            break
        if step % 3 == 0:
            inbox.append(isotp.CanMessage(arbitration_id=rid, data=pfx + bytes([0x30, rng.choice([1, 2]), 0]), extended_id=bool(ext)))
    return fails, {'inst': inst, 'size': size, 'trace': trace[:8]}


def shared_generator_run(rng):
    """values beyond the declared size are never consumed: one generator object feeds two or three successive requests; each transfer
    carries the next [size] values, and afterwards the generator still yields the value that follows."""
    import isotp
    tx_dl = rng.choice([8, 12, 64])
    mode = rng.choice(['Normal_11bits', 'Extended_29bits'])
    a = rand_address(rng, mode)
    plen = 1 if mode != 'Normal_11bits' else 0
    params = {'tx_data_length': tx_dl, 'stmin': 0}
    if tx_dl > 8:
        params['can_fd'] = True
    inst = {'txa': a, 'rxa': None, 'params': params}
    rid, ext, pfx = reach(inst)
    sizes = [rng.choice([1, 5, tx_dl - 2 - plen, tx_dl * 2, 100]) for _ in range(rng.choice([2, 3]))]
    closed = [False]

    def g():
        i = 0
        try:
            while True:
                yield i & 0xFF
                i += 1
        finally:
            closed[0] = True
    gen = g()
    sent, inbox, done = [], [], []
    layer = isotp.TransportLayerLogic(rxfn=lambda: inbox.pop(0) if inbox else None, txfn=sent.append, address=make_layer_address(inst), params=dict(params),
                                      error_handler=lambda e: done.append('err:' + type(e).__name__))
    fails = []
    start = 0
    for size in sizes:
        del sent[:]
        layer.send((gen, size))
        for step in range(600):
            layer.process()
            if not layer.transmitting():
                break
            inbox.append(isotp.CanMessage(arbitration_id=rid, data=pfx + bytes([0x30, 0, 0]), extended_id=bool(ext)))
        data = b''
        for m_ in sent:
            d = bytes(m_.data)[plen:]
            t = d[0] >> 4
            if t == 0:
                data += d[1:1 + (d[0] & 0xF)] if d[0] & 0xF else d[2:2 + d[1]]
            elif t == 1:
                data += d[2:] if (d[1] or d[0] & 0xF) else d[6:]
            elif t == 2:
                data += d[1:]
        want = bytes((start + j) & 0xFF for j in range(size))
        if data[:size] != want or done:
            fails.append(('C17:values-beyond-size-consumed', 'request of %d values from a shared generator (values %d.. expected): emitted %s..., errors %s' % (
                size, start, data[:8].hex(), done[:2])))
            break
        start += size
    if not fails:
        if closed[0]:
            fails.append(('C17:values-beyond-size-consumed', 'the generator was closed by the layer after its request completed'))
        else:
            nxt = next(gen, None)
            if nxt != (start & 0xFF):
                fails.append(('C17:values-beyond-size-consumed', 'after the transfers the generator yields %r, expected %d' % (nxt, start & 0xFF)))
    return fails, {'inst': inst, 'sizes': sizes}


def run_shard(campaign, shard, nshards, seed, tier):
    if campaign == 'api':
        import apiuse
        return apiuse.run_api('C17', shard, nshards, seed, tier)
    if campaign == 'shared':
        part = Part()
        rng = random.Random('%s/%s/%s' % (seed, campaign, shard))
        for _ in range((40 if tier != 'thorough' else 2000) // nshards + 1):
            fails, info = shared_generator_run(rng)
            part.d['evaluations'] += 1
            part.distinct(info)
            part.hist('shared_sizes', str(info['sizes']))
            if fails:
                part.violation('oracle', campaign, fails[0][0], fails[0][1], {'scenario': 'shared generator', 'info': info})
            part.sample(info)
        return part.result()
    if campaign == 'blocking':
        part = Part()
        rng = random.Random('%s/%s/%s' % (seed, campaign, shard))
        for _ in range((40 if tier != 'thorough' else 2000) // nshards + 1):
            fails, info = blocking_lazy_run(rng)
            part.d['evaluations'] += 1
            part.distinct(info)
            part.hist('blocking_size', info['size'])
            if fails:
                part.violation('oracle', campaign, fails[0][0], fails[0][1], {'scenario': 'blocking_send generator', 'info': info})
            part.sample(info)
        return part.result()
    part = Part()
    rng = random.Random('%s/%s/%s' % (seed, campaign, shard))
    quick = tier != 'thorough'
    m = lc.model()
    combos = [(tx_dl, mode) for tx_dl in (8, 12, 64) for mode in ('Normal_11bits', 'Extended_29bits')]
    k = 0
    for tx_dl, mode in combos:
        a = rand_address(rng, mode)
        plen = 1 if mode != 'Normal_11bits' else 0
        params = {'tx_data_length': tx_dl, 'stmin': 0}
        if tx_dl > 8:
            params['can_fd'] = True
        inst = {'txa': a, 'rxa': None, 'params': params}
        setup_spec(m, inst)
        sf_cap = (7 - plen) if tx_dl == 8 else (tx_dl - 2 - plen)
        ff, cf = tx_dl - 2 - plen, tx_dl - 1 - plen
        sizes = sorted({0, 1, sf_cap, sf_cap + 1, ff + 1, ff + cf, ff + cf + 1, ff + 3 * cf - 1, ff + 3 * cf, 4095, 4096} | ({rng.randint(1, 400) for _ in range(3)} if not quick else set()))
        for size in sizes:
            for delta in (0, -1, -2, -cf, -size, +1, +5, 'inf'):
                k += 1
                if k % nshards != shard:
                    continue
                if delta == 'inf':
                    have, fill = 3, 0x77
                else:
                    have, fill = max(0, size + delta), None
                if size > 1000 and delta not in (0, -1, 'inf', -size):        # -size: the generator ends inside the First Frame (12-bit and 32-bit length forms)
                    continue
                bs = rng.choice([0, 1, 4])
                # a third of the short transfers run under a rate limiter of two frames per window: frames are held back, never lost
                limited = size <= ff + 3 * cf + 1 and rng.random() < 0.35
                if limited:
                    inst_l = {'txa': a, 'rxa': None, 'params': dict(params, rate_limit_enable=True, rate_limit_max_bitrate=tx_dl * 128, rate_limit_window_size=0.125,
                                                                     rx_flowcontrol_timeout=10**6)}
                    pr, trace = run_one(rng, inst_l, size, have, fill, bs, limited=True)
                else:
                    pr, trace = run_one(rng, inst, size, have, fill, bs)
                part.hist('rate_limited', str(limited))
                part.d['evaluations'] += 1
                part.distinct((tx_dl, mode, size, delta, bs))
                part.hist('size_vs_generator', 'equal' if delta == 0 else ('endless' if delta == 'inf' else ('short' if delta < 0 else 'long')))
                fails = []
                actual = have if fill is None else 10**9
                for i, (pulls, emitted) in enumerate(trace):
                    if pulls > emitted + tx_dl or pulls > size:
                        fails.append(('C17:not-lazy', 'after process() call %d: %d values pulled, %d payload bytes emitted, declared size %d' % (i, pulls, emitted, size)))
                        break
                evs = [e for l in pr.lines for e in split_line(l)[0]]
                errs = [e for e in evs if e.startswith('err:')]
                done = [e for e in evs if e.startswith('done:')]
                frames = [e[3:] for e in evs if e.startswith('tx:')]
                if size > 0xFFFFFFFF:
                    pass
                elif actual >= size:
                    vals = bytes(((i * 5 + 1) & 0xFF) if i < have else 0x77 for i in range(size))
                    ref = m.query('seg - ' + hx(vals)).split() if size else []
                    limit = 61 if len(ref) > 61 else len(ref)
                    if frames[:limit] != ref[:limit] or (len(ref) <= 60 and (errs or done != ['done:0:1'])):
                        fails.append(('C17:wire-differs-from-first-size-values', 'size %d generator %s: %d frames (reference %d), errors %s, completions %s' % (size, actual, len(frames), len(ref), errs, done)))
                else:
                    if errs.count('err:BadGeneratorError') != 1 or done != ['done:0:0']:
                        fails.append(('C17:short-generator-not-reported', 'size %d, generator yields %d: errors %s completions %s' % (size, actual, errs, done)))
                    tplen = plen
                    carried = 0
                    for f in frames:
                        d = unhx(f.split(':')[5])[tplen:]
                        t = d[0] >> 4
                        if t == 0:
                            fails.append(('C17:short-generator-completed-as-shorter-message', 'a Single Frame was emitted for a short generator'))
                        elif t == 1:
                            L = (((d[0] & 0xF) << 8) | d[1]) or int.from_bytes(d[2:6], 'big')
                            if L != size:
                                fails.append(('C17:announced-length-differs', 'First Frame announces %d, declared size %d' % (L, size)))
                if fails:
                    part.violation('oracle', campaign, fails[0][0], fails[0][1], pr.case if len(pr.case['ops']) < 300 else {'insts': pr.case['insts'], 'size': size, 'have': have})
                    continue
                ml = m.run_case(pr.case)
                part.d['traces_validated'] += 1
                d = first_diff(pr.lines, ml)
                if d is not None:
                    part.violation('correspondence', campaign, 'corr:generator', 'model differs at op %d' % d, pr.case,
                                   {'impl_line': pr.lines[d], 'model_line': ml[d], 'theorem_or_correspondence': THEOREMS})
                part.sample({'tx_dl': tx_dl, 'mode': mode, 'size': size, 'generator_len': actual, 'bs': bs, 'pulls_trace': trace[:6]})
    return part.result()


def run(ctx):
    run_sharded(ctx, 'C17', 'generator')
    run_sharded(ctx, 'C17', 'blocking')
    run_sharded(ctx, 'C17', 'shared', nshards=4)
    run_sharded(ctx, 'C17', 'api', nshards=2)
    import apiuse
    return RULE + apiuse.rule_text('C17'), ASSUME
