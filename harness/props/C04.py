"""C04 - sender obeys flow control from any peer and always terminates."""
import random
import itertools
from core import *
from gen import *
from runner import Part, run_sharded
import lc
from C02 import setup_spec

THEOREMS = 'IsoTp.Props.C04'
RULE = ('operation histories over the alphabet {FC ContinueToSend bs=0 / bs=1 / bs=2+stmin 1 ms, FC Wait, FC Overflow, FC with reserved STmin, '
        'garbage, a First Frame of the peer read by process(rx only), process(), process(tx only), tick 0.4 ms, tick of exactly N_Bs, tick beyond N_Bs} applied from six starting states (idle, waiting for the first '
        'Flow Control, mid-block with unlimited grant, mid-block of a granted block of 3 with STmin 5 ms, rate-limiter SF standby, rate-limiter FF standby): EXHAUSTIVE for all histories of length <= 3 (quick) / '
        '<= 4 (thorough, plus sampled length 5-7), with wftmax in {0,1,3} and a second queued message; plus long random histories. Oracle: '
        'no Consecutive Frame before the first ContinueToSend; never more Consecutive Frames than the largest block size granted since the '
        'sender last waited; data frames of each request are a prefix of the extracted Coq reference segmentation; Overflow / too many '
        'Waits / N_Bs expiry -> documented error, request failed, nothing further for it; wftmax=0 Wait -> UnsupportedWaitFrameError only; '
        'a ContinueToSend read in time is obeyed (no FlowControlTimeoutError with no data frame in between); MaximumWaitFrameReachedError only after more than wftmax Wait frames since the First Frame; '
        'after the history, with time passing, transmitting() becomes False and the next queued message is sent normally. '
        'All replayed on the extracted model.')
ASSUME = ['termination is checked as: transmitting() is False after 14 further deadlines of idle passes (a ranking argument, not a numeric bound)']

TBS_MS = 50


def start_states(inst, pfx, rid, ext):
    fc = lambda st, bs, stm=0: [0, 'rx', rid, int(ext), hx(pfx + bytes([0x30 | st, bs, stm]))]
    big = hx(bytes((i * 3) & 0xFF for i in range(40)))
    return {
        'idle': [],
        'wait_fc': [[0, 'send', None, big], [0, 'proc', 1, 1]],
        'mid_block': [[0, 'send', None, big], [0, 'proc', 1, 1], fc(0, 0, 5), [0, 'proc', 1, 1]],
        # a granted block of 3 spanning several process() passes (STmin 5 ms), one Consecutive Frame already out
        'mid_block3': [[0, 'send', None, big], [0, 'proc', 1, 1], fc(0, 3, 5), [0, 'proc', 1, 1], [0, 'tick', 5100000], [0, 'proc', 1, 1]],
    }


def letters(pfx, rid, ext, tbs_ns):
    fc = lambda st, bs, stm=0: [0, 'rx', rid, int(ext), hx(pfx + bytes([0x30 | st, bs, stm]))]
    return {
        'cts0': [fc(0, 0), [0, 'proc', 1, 1]], 'cts1': [fc(0, 1), [0, 'proc', 1, 1]], 'cts2s': [fc(0, 2, 1), [0, 'proc', 1, 1]],
        'wait': [fc(1, 0), [0, 'proc', 1, 1]], 'ovf': [fc(2, 0), [0, 'proc', 1, 1]], 'rsv': [fc(0, 0, 0x80), [0, 'proc', 1, 1]],
        'garb': [[0, 'rx', rid, int(ext), hx(pfx + bytes([0x3F]))], [0, 'proc', 1, 1]],
        'proc': [[0, 'proc', 1, 1]], 'ptx': [[0, 'proc', 0, 1]],
        't_small': [[0, 'tick', 400000]], 't_big': [[0, 'tick', tbs_ns + 7]], 't_exact': [[0, 'tick', tbs_ns]],
        'cts3s': [fc(0, 3, 5), [0, 'proc', 1, 1]], 't_st': [[0, 'tick', 5100000], [0, 'proc', 1, 1]],
        '2cts': [fc(0, 0), fc(0, 1), [0, 'proc', 1, 1]],
        'wait3': [fc(1, 0), [0, 'proc', 1, 1], fc(1, 0), [0, 'proc', 1, 1], fc(1, 0), [0, 'proc', 1, 1]],
        # full duplex: the peer starts a message of its own and the First Frame is read by a receive-only call - the layer's own Flow
        # Control is still to be sent when the next letters arrive
        'ffrx': [[0, 'rx', rid, int(ext), hx(pfx + bytes([0x10, 20]) + bytes(range(6 - len(pfx))))], [0, 'proc', 1, 0]],
    }


def build(inst, start, seq, L, second):
    rid, ext, pfx = reach(inst)
    tbs = ms_to_ns(inst['params']['rx_flowcontrol_timeout'])
    ops = list(start)
    if second:
        ops.append([0, 'send', None, hx(bytes(range(100, 112)))])
    for x in seq:
        ops += L[x]
    mark = len(ops)
    # let everything terminate: idle passes with time passing, a cooperative receiver for whatever follows
    fc = [0, 'rx', rid, int(ext), hx(pfx + bytes([0x30, 0, 0]))]
    for _ in range(6):
        ops += [[0, 'tick', 5100000], [0, 'proc', 1, 1]]
    for _ in range(14):
        ops += [[0, 'tick', tbs + 13], [0, 'proc', 1, 1], [0, 'proc', 1, 1]]
    if inst['params'].get('rate_limit_enable'):
        # one frame per limiter window: a transfer granted before the closing phase legitimately needs one window per frame
        for _ in range(16):
            ops += [[0, 'tick', 126 * 10**6], [0, 'proc', 1, 1], [0, 'proc', 1, 1]]
    return {'insts': [inst], 'ops': ops, 'nops': len(ops), 'mark': mark, 'seq': list(seq)}


def oracle(case, lines, insts):
    if case.get('nops') != len(case['ops']):
        return []
    fails = []
    inst = case['insts'][0]
    p = inst['params']
    rid, ext, pfx = reach(inst)
    tplen = 1 if inst['txa']['mode'].startswith(('Extended', 'Mixed')) else 0
    refs = case.get('refs', {})
    payloads = [op[3] for op in case['ops'] if op[1] == 'send']
    nreq = len(payloads)
    msg_frames = []
    cts_fed = []           # block sizes of every valid ContinueToSend fed so far
    total_cf = 0
    # Frames are consumed from the reception source in order; ProcessStats.received says how many were read by each process() call.
    # Budget of Consecutive Frames: every valid ContinueToSend consumed adds its block size (0 = no limit), a new First Frame
    # resets it (grants never carry over to the next message); a Wait, Overflow or undecodable frame adds nothing.  This is a
    # sound upper bound (a ContinueToSend received mid-block replaces the rest of the old grant, it does not add to it).
    fed = []               # ('cts', bs) | ('other',) in feeding order
    consumed = 0
    budget = 0
    INF = float('inf')
    now = 0
    last_data_t = None      # virtual time of the call that emitted the latest First / Consecutive Frame
    obeyed_due = None       # (call index, time) of a full call that consumed only valid ContinueToSend frames before the deadline, nothing emitted since
    tbs_ns = ms_to_ns(p['rx_flowcontrol_timeout'])
    for opi, (op, l) in enumerate(zip(case['ops'], lines)):
        evs, st = split_line(l)
        if op[1] == 'tick':
            now += int(op[2])
        if op[1] == 'rx':
            d = unhx(op[4])[len(pfx):]
            mine = int(op[2]) == rid and int(op[3]) == int(ext) and unhx(op[4])[:len(pfx)] == pfx
            if mine and len(d) >= 3 and d[0] == 0x30 and (d[2] <= 0x7F or 0xF1 <= d[2] <= 0xF9):
                cts_fed.append(d[1])
                fed.append(('cts', d[1]))
            else:
                fed.append(('other',))
            continue
        granted_now = 0        # what the ContinueToSend frames consumed during THIS call grant (they may be read after a First Frame
        for e in evs:          # emitted by the same call: process() loops between reception and transmission)
            if e.startswith('stats:'):
                r = int(e[6:].split(',')[0])
                for item in fed[consumed:consumed + r]:
                    if item[0] == 'cts':
                        granted_now = INF if item[1] == 0 else granted_now + item[1]
                consumed += r
        budget += granted_now
        # a ContinueToSend processed in time is obeyed: a full call that reads nothing but valid ContinueToSend frames before the deadline
        # of the wait in progress (which runs from the emission of the latest data frame at the earliest) ends the wait - a
        # FlowControlTimeoutError with no data frame emitted and nothing but ContinueToSend frames read since that call contradicts it
        emitted_data = any(e.startswith('tx:') and len(unhx(e.split(':')[6])) > tplen and (unhx(e.split(':')[6])[tplen] >> 4) in (0, 1, 2) for e in evs)
        if any(e == 'err:FlowControlTimeoutError' for e in evs) and obeyed_due is not None and not emitted_data:
            fails.append(('C04:abandoned-although-permitted', 'FlowControlTimeoutError at op %d although the call at op %d (virtual time %d ns, deadline not before %d ns) '
                          'read a ContinueToSend and nothing else; no data frame was emitted in between' % (opi, obeyed_due[0], obeyed_due[1], obeyed_due[2])))
            obeyed_due = None
        if emitted_data:
            obeyed_due = None
        elif op[1] == 'proc':
            r_now = sum(int(e[6:].split(',')[0]) for e in evs if e.startswith('stats:'))
            items = fed[consumed - r_now:consumed]
            if any(it[0] != 'cts' for it in items):
                obeyed_due = None       # a Wait frame may send the sender back to waiting, other frames may end the transmission
            elif r_now and int(op[2]) == 1 and int(op[3]) == 1 and last_data_t is not None and now <= last_data_t + tbs_ns and 'trans=1' in l:
                obeyed_due = obeyed_due or (opi, now, last_data_t + tbs_ns)
        if emitted_data:
            last_data_t = now
        for e in evs:
            if not e.startswith('tx:'):
                continue
            d = unhx(e.split(':')[6])
            t = d[tplen] >> 4 if len(d) > tplen else -1
            if t in (0, 1):
                msg_frames.append([e[3:]])
                budget = granted_now
            elif t == 2:
                if not msg_frames:
                    fails.append(('C04:consecutive-frame-without-first-frame', e))
                    continue
                msg_frames[-1].append(e[3:])
                total_cf += 1
                budget -= 1
                if budget < 0:
                    fails.append(('C04:block-size-exceeded', 'a Consecutive Frame left although the ContinueToSend frames consumed since the First Frame '
                                  'grant no more (frame %d of the message; ContinueToSend block sizes fed so far %s)' % (len(msg_frames[-1]) - 1, cts_fed[-6:])))
                    budget = INF        # report once per case
                with_cf = sum(1 for m_ in msg_frames if len(m_) > 1)
                if with_cf > len(cts_fed):
                    fails.append(('C04:consecutive-frame-before-continue-to-send', '%d messages got Consecutive Frames with only %d ContinueToSend received' % (with_cf, len(cts_fed))))
    # each emitted message is a prefix of the reference segmentation of a request, requests taken in order (an aborted request may
    # have emitted nothing)
    nxt = 0
    for fr in msg_frames:
        k = nxt
        while k < len(payloads) and not (refs.get(payloads[k]) is None or fr == refs[payloads[k]][:len(fr)]):
            k += 1
        if k >= len(payloads):
            fails.append(('C04:not-a-prefix-of-reference-segmentation', 'emitted %s matches no pending request' % fr[:3]))
            break
        nxt = k + 1
    last = lines[-1]
    if 'trans=1' in last:
        fails.append(('C04:transmitter-wedged', 'transmitting() still True after 14 further deadlines of idle passes (and 16 limiter windows when rate limited): %s' % split_line(last)[1]))
    done = [e for l in lines for e in split_line(l)[0] if e.startswith('done:')]
    ids = [d.split(':')[1] for d in done]
    if len(ids) != len(set(ids)):
        fails.append(('C04:request-completed-twice', str(done)))
    if 'trans=1' not in last and len(set(ids)) != nreq:
        fails.append(('C04:request-never-completed', 'completions %s for %d requests' % (done, nreq)))
    import fcrules
    fails += fcrules.wait_budget_fails(case, lines, 'C04:aborted-within-wait-budget')
    errs = [e[4:] for l in lines for e in split_line(l)[0] if e.startswith('err:')]
    if p.get('wftmax', 0) == 0 and 'MaximumWaitFrameReachedError' in errs:
        fails.append(('C04:wrong-abort-class', 'MaximumWaitFrameReachedError with wftmax=0'))
    if p.get('wftmax', 0) > 0 and 'UnsupportedWaitFrameError' in errs:
        fails.append(('C04:wrong-abort-class', 'UnsupportedWaitFrameError with wftmax>0'))
    # a message aborted with an error emits nothing further: frames of message i stop at its failure
    return fails


def run_shard(campaign, shard, nshards, seed, tier):
    if campaign == 'api':
        import apiuse
        return apiuse.run_api('C04', shard, nshards, seed, tier)
    part = Part()
    rng = random.Random('%s/%s/%s' % (seed, campaign, shard))
    quick = tier != 'thorough'
    m = lc.model()
    idx = 0
    for wft in ((0, 2) if quick else (0, 1, 3)):
        for mode in (('Normal_11bits', 'Mixed_11bits')[wft % 2:wft % 2 + 1] if quick else ('Normal_11bits', 'Mixed_11bits')):
            a = rand_address(random.Random(mode + str(wft)), mode)
            for lim in (False, True):
                params = {'wftmax': wft, 'rx_flowcontrol_timeout': TBS_MS, 'stmin': 0}
                if lim:
                    params.update(rate_limit_enable=True, rate_limit_max_bitrate=64 * 8, rate_limit_window_size=0.125)   # one 8-byte frame per window
                inst = {'txa': a, 'rxa': None, 'params': params}
                rid, ext, pfx = reach(inst)
                setup_spec(m, inst)
                L = letters(pfx, rid, ext, ms_to_ns(TBS_MS))
                starts = start_states(inst, pfx, rid, ext)
                if lim:
                    sf = hx(bytes([1, 2, 3]))
                    big = hx(bytes((i * 3) & 0xFF for i in range(40)))
                    starts = {'sf_standby': [[0, 'send', None, sf], [0, 'proc', 1, 1], [0, 'send', None, sf], [0, 'proc', 1, 1]],
                              'ff_standby': [[0, 'send', None, sf], [0, 'proc', 1, 1], [0, 'send', None, big], [0, 'proc', 1, 1]]}
                names = sorted(L)
                maxlen = 2 if quick else 3
                seqs = [s for n in range(maxlen + 1) for s in itertools.product(names, repeat=n)]
                r3 = random.Random('%s/%s/%s/%s/x' % (seed, wft, mode, lim))
                seqs += [tuple(r3.choice(names) for _ in range(r3.choice([3, 4]))) for _ in range(60 if quick else 3000)]
                if campaign == 'random':
                    r2 = random.Random('%s/%s/%s/%s' % (seed, wft, mode, lim))
                    seqs = [tuple(r2.choice(names) for _ in range(r2.randint(5, 14))) for _ in range(25 if quick else 3000)]
                refs = {}
                for sname, start in sorted(starts.items()):
                    for second in (False, True):
                        for sq in seqs:
                            idx += 1
                            if idx % nshards != shard:
                                continue
                            case = build(inst, start, sq, L, second)
                            for op in case['ops']:
                                if op[1] == 'send' and op[3] not in refs:
                                    refs[op[3]] = m.query('seg - ' + op[3]).split()
                            case['refs'] = refs
                            part.hist('start', sname)
                            part.hist('len', len(sq))
                            part.distinct((wft, mode, lim, sname, second, sq))
                            lc.run_case(part, campaign, case, oracle=oracle, theorem=THEOREMS)
                part.sample({'inst': inst, 'starts': sorted(starts), 'alphabet': names, 'example': case['ops'][:8] if seqs else None})
    return part.result()


def run(ctx):
    run_sharded(ctx, 'C04', 'exhaustive')
    run_sharded(ctx, 'C04', 'random')
    ctx.exhaustive['all flow-control histories up to length %s over the 17-letter alphabet from each starting state' % ('2' if ctx.quick else '3')] = True
    run_sharded(ctx, 'C04', 'api', nshards=2)
    import apiuse
    return RULE + apiuse.rule_text('C04'), ASSUME
