"""C15 - rate limiter bounds bursts and never stalls a transfer."""
import random
from fractions import Fraction
from core import *
from gen import *
from runner import Part, run_sharded
import lc
from C02 import setup_spec

THEOREMS = 'IsoTp.Props.C15'
RULE = ('sender on the virtual clock with the rate limiter on: (bitrate, window) pairs from the float-exact family (dyadic windows, integer '
        'budgets) down to exactly one frame per window; queues of single frames, long multi-frame messages and mixes; padding / min-length '
        '/ link sizes that make the sent frame larger than the checked size; schedules of process() calls with steps from a seventh of the '
        '5 ms slot to three windows; cooperative receiver (block size 0 or small). Oracle: for every interval starting at an emission and '
        'no longer than window - 5 ms, the data-field bits of SF/FF/CF frames never exceed bitrate x window + one frame; every message is '
        'emitted completely, unchanged (== extracted Coq reference segmentation) and in order; with the limiter disabled (same budget '
        'parameters) nothing is ever held back. All runs replayed on the extracted model.'
        " (trickle) a long message paced by the peer's STmin under the budget for a good part of a window, then a queue that can burst: what was sent during the trickle still counts until it is a full window old."
        ' A quarter of the queues are driven with transmit-only passes (process(do_rx=False)); a full pass is made only to read a Flow Control.'
        ' (aborts) in 30 % of the queues the receiver answers some Flow Control requests with Overflow: the message is abandoned, the next queued one follows, and what the abandoned one put on the bus still counts against the window (the completeness clause is not applied to these runs).'
        ' (reconfigure) bitrate and / or window changed with params.set() + load_params() on a live layer: once the old history has left the window, bursts obey the new budget.')
ASSUME = ['the model computes the budget in exact rationals; only (bitrate, window) pairs whose float operations are exact are generated (checked by the harness)']

SLOT = 5 * 10**6


def gen_case(rng, enabled=True):
    """Interactive: the scripted receiver answers every First Frame / block end at once (so that no N_Bs deadline is ever
    missed by the peer), the clock moves between process() calls. Returns the recorded case (with impl lines)."""
    from peers import PeerRun
    a, _ = rand_inst_pair(rng)
    tx_dl = rng.choice([8, 8, 16, 64])
    window = rng.choice([1.0, 0.5, 0.25, 0.125, 0.0625, 2.0])
    frame_bits = tx_dl * 8
    bits = rng.choice([frame_bits, frame_bits, frame_bits + 8, 2 * frame_bits, 3 * frame_bits + 16, 10 * frame_bits, 4096])
    # trickle: a long message paced by the peer's STmin (frames 3 ms apart, well under the budget) for a good part of a window, then
    # a queue that can burst: what was sent during the trickle still counts until it is a full window old
    trickle = enabled and rng.random() < 0.25
    if trickle:
        tx_dl, window = 8, rng.choice([1.0, 0.5])
        frame_bits = 64
        bits = rng.choice([64 * 64, 48 * 64])
    bitrate = int(Fraction(bits) / Fraction(window))
    while bitrate * window < frame_bits:
        bitrate += 1
    assert limiter_exact(bitrate, window), (bitrate, window)
    p = {'tx_data_length': tx_dl, 'rate_limit_enable': enabled, 'rate_limit_max_bitrate': bitrate, 'rate_limit_window_size': window,
         'stmin': 0, 'rx_flowcontrol_timeout': rng.choice([1000, 200, 1000, 5000])}
    if tx_dl > 8:
        p['can_fd'] = True
    if rng.random() < 0.4:
        p['tx_padding'] = 0xAA
    if rng.random() < 0.3:
        p['tx_data_min_length'] = rng.choice([m for m in (4, 8, 16, 64) if m <= tx_dl])
    inst = dict(a, params=p)
    rid, ext, pfx = reach(inst)
    plen = len(pfx)
    tplen = 1 if inst['txa']['mode'].startswith(('Extended', 'Mixed')) else 0
    W = int(window * 10**9)
    pr = PeerRun([inst], links={0: 0})
    payloads = []
    for mi in range(rng.randint(1, 5) if not trickle else rng.randint(5, 8)):
        n = max(1, rng.choice([1, 3, 6 - plen, 7 - plen, tx_dl - 2 - plen, tx_dl * 2, tx_dl * 5, 100]))
        if trickle:
            n = rng.choice([250, 300]) if mi == 0 else rng.choice([100, 150, 5])
        pay = bytes(rng.getrandbits(8) for _ in range(n))
        payloads.append(hx(pay))
        pr.send(0, hx(pay))
    bs = rng.choice([0, 0, 1, 3])
    # aborts: the receiver answers some Flow Control requests with Overflow - the message is abandoned, the next queued one follows;
    # what the abandoned message put on the bus still counts against the window
    aborts = enabled and not trickle and len(payloads) >= 2 and rng.random() < 0.3
    steps = [SLOT // 7, SLOT - 1, SLOT + 1, W // 3, W - SLOT, W + 1, 3 * W]
    def waiting(line):
        st = split_line(line)[1]
        return 'tx=-' in st and 'trans=1' in st
    # transmit-only driving: an application that reads the bus elsewhere calls process(do_rx=False) - the window slides all the same
    txonly = enabled and not trickle and rng.random() < 0.25
    for it in range(3000):
        line = pr.proc(0, 0, 1) if txonly else pr.proc(0)
        guard = 0
        while waiting(line) and guard < 1000:
            # the sender waits for a flow control: the receiver answers at once (no deadline is ever missed by the peer)
            guard += 1
            if aborts and rng.random() < 0.35:
                pr.op(0, 'rx', rid, int(ext), hx(pfx + bytes([0x32, 0, 0])))
            else:
                pr.op(0, 'rx', rid, int(ext), hx(pfx + bytes([0x30, bs, 3 if (trickle and not pr.done[0]) else 0])))
            line = pr.proc(0)
        if not pr.impl[0].layer.transmitting():
            break
        if trickle and not pr.done[0]:
            pr.tick_all(3 * 10**6 + 1)
        else:
            pr.tick_all(rng.choice(steps) if enabled else rng.choice([0, 1, 1000]))
    pr.close()
    case = pr.case
    case.update({'trickle': trickle, 'aborts': aborts, 'txonly': txonly, 'nops': len(case['ops']), 'payloads': payloads, 'W': W, 'B': bitrate * window, 'tx_dl': tx_dl, 'enabled': enabled,
                 'impl_lines': pr.lines})
    return case


def oracle(case, lines, insts):
    if case.get('nops') != len(case['ops']):
        return []
    fails = []
    inst = case['insts'][0]
    tplen = 1 if inst['txa']['mode'].startswith(('Extended', 'Mixed')) else 0
    now = 0
    emis = []      # (instant, bits)
    frames = []
    for op, l in zip(case['ops'], lines):
        evs, st = split_line(l)
        if op[1] == 'tick':
            now += int(op[2])
        for e in evs:
            if e.startswith('tx:'):
                d = unhx(e.split(':')[6])
                if d[tplen] >> 4 != 3:
                    emis.append((now, 8 * len(d)))
                    frames.append(e[3:])
            if e == 'crash':
                fails.append(('C15:exception-escaped', op[1]))
    refs = case.get('refs')
    if refs is not None and not case.get('aborts'):
        want = [f for pay in case['payloads'] for f in refs[pay]]
        if frames != want:
            k = next((i for i in range(min(len(frames), len(want))) if frames[i] != want[i]), min(len(frames), len(want)))
            fails.append(('C15:throttling-changed-the-frames', 'emitted %d data frames, reference %d; first difference at %d' % (len(frames), len(want), k)))
    if case['enabled']:
        W, B = case['W'], case['B']
        bound = B + 8 * case['tx_dl']
        span = W - SLOT
        j = 0
        tot = 0
        # sliding window over every interval [t_i, t_i + span]
        for i in range(len(emis)):
            s = emis[i][0]
            bits = 0
            for (t, b) in emis[i:]:
                if t - s > span:
                    break
                bits += b
            if bits > bound:
                fails.append(('C15:burst-exceeds-budget', '%d bits in an interval of %d ns starting at %d; budget %s + one frame (%d)' % (bits, span, s, B, bound)))
                break
    else:
        # limiter off: nothing is ever held back - after the first process() calls with a cooperative receiver everything is out
        first_tx = [i for i, (op, l) in enumerate(zip(case['ops'], lines)) if 'tx=T' in l]
        if first_tx:
            fails.append(('C15:held-while-disabled', 'is_tx_throttled() observed with rate_limit_enable=False at op %d' % first_tx[0]))
    if 'trans=1' in lines[-1]:
        fails.append(('C15:transfer-stalled', 'still transmitting after 3000 scheduler steps: %s' % split_line(lines[-1])[1]))
    return fails


def reconfigure_run(rng):
    """the budget (bitrate and / or window) is changed on a live layer with params.set() + load_params(); after the old history has
    left the window, bursts obey the NEW budget"""
    from core import ImplInst
    a, _ = rand_inst_pair(rng)
    w1 = rng.choice([0.25, 0.5])
    frames1 = rng.choice([16, 32])
    p1 = {'rate_limit_enable': True, 'rate_limit_max_bitrate': int(frames1 * 64 / w1), 'rate_limit_window_size': w1, 'stmin': 0}
    change = rng.choice(['bitrate', 'window', 'both'])
    w2 = w1 if change == 'bitrate' else w1 / 2
    frames2 = 2 if change != 'window' else None
    br2 = int(frames2 * 64 / w2) if frames2 else p1['rate_limit_max_bitrate']
    inst = dict(a, params=p1)
    im = ImplInst(inst)
    emis = []
    now = [0]

    def proc():
        line = im.run_op([0, 'proc', 1, 1])
        for e in split_line(line)[0]:
            if e.startswith('tx:'):
                emis.append((now[0], 8 * len(unhx(e.split(':')[6]))))

    def tick(d):
        im.run_op([0, 'tick', d]); now[0] += d
    try:
        for _ in range(10):
            im.run_op([0, 'send', None, hx(bytes([1, 2, 3]))])
        proc()
        if br2 != p1['rate_limit_max_bitrate']:
            im.layer.params.set('rate_limit_max_bitrate', br2)
        if w2 != w1:
            im.layer.params.set('rate_limit_window_size', w2)
        im.layer.load_params()
        tick(int(3 * w1 * 1e9)); proc()            # the old history leaves the window
        t_change = now[0]
        for _ in range(60):
            im.run_op([0, 'send', None, hx(bytes([4, 5, 6, 7]))])
        for _ in range(40):
            proc(); tick(rng.choice([1000000, 7000000, int(w2 * 1e9 / 3)]))
    finally:
        import time as _t
        from core import _REAL
        _t.perf_counter_ns, _t.perf_counter = _REAL
    W2 = int(w2 * 1e9)
    B2 = br2 * w2
    late = [(t, b) for t, b in emis if t >= t_change]
    fails = []
    for i in range(len(late)):
        s0 = late[i][0]
        bits = sum(b for t, b in late[i:] if t - s0 <= W2 - SLOT)
        if bits > B2 + 64:
            fails.append(('C15:burst-exceeds-budget', 'after the budget was changed to %s bits per %s s: %d bits in an interval of %d ns (old budget %s bits per %s s)' % (
                B2, w2, bits, W2 - SLOT, p1['rate_limit_max_bitrate'] * w1, w1)))
            break
    if not late:
        fails.append(('C15:transfer-stalled', 'nothing was sent after the budget change'))
    return fails, {'inst': inst, 'change': change, 'emitted_after': len(late)}


def run_shard(campaign, shard, nshards, seed, tier):
    if campaign == 'api':
        import apiuse
        return apiuse.run_api('C15', shard, nshards, seed, tier)
    if campaign == 'reconfigure':
        part = Part()
        rng = random.Random('%s/%s/%s' % (seed, campaign, shard))
        for _ in range((24 if tier != 'thorough' else 1000) // nshards + 1):
            fails, info = reconfigure_run(rng)
            part.d['evaluations'] += 1
            part.distinct(info)
            part.hist('reconfigure', info['change'])
            if fails:
                part.violation('oracle', campaign, fails[0][0], fails[0][1], {'scenario': 'reconfigure', 'info': info})
            part.sample(info)
        return part.result()
    part = Part()
    rng = random.Random('%s/%s/%s' % (seed, campaign, shard))
    quick = tier != 'thorough'
    m = lc.model()
    n = ((260 if campaign == 'throttle' else 80) if quick else (10000 if campaign == 'throttle' else 2000)) // nshards + 1
    for _ in range(n):
        case = gen_case(rng, enabled=(campaign == 'throttle'))
        setup_spec(m, case['insts'][0])
        case['refs'] = {pay: m.query('seg - ' + pay).split() for pay in case['payloads']}
        part.distinct({k: case[k] for k in ('insts', 'payloads')})
        p = case['insts'][0]['params']
        part.hist('budget_frames', round(case['B'] / (8 * case['tx_dl']), 2))
        part.hist('window_s', p['rate_limit_window_size'])
        part.hist('trickle', str(case.get('trickle')))
        lc.run_case(part, campaign, case, oracle=oracle, theorem=THEOREMS)
        part.sample({'params': p, 'payload_lens': [len(x) // 2 for x in case['payloads']], 'ops': case['ops'][:6]})
    return part.result()


def run(ctx):
    run_sharded(ctx, 'C15', 'throttle')
    run_sharded(ctx, 'C15', 'disabled')
    run_sharded(ctx, 'C15', 'reconfigure')
    run_sharded(ctx, 'C15', 'api', nshards=2)
    import apiuse
    return RULE + apiuse.rule_text('C15'), ASSUME
