"""C03 - receiver reassembles every well-formed stream and issues correct flow control (campaign K3)."""
import random
from core import *
from gen import *
from runner import Part, run_sharded
from streams import encode_stream, FD_SIZES
import lc
from C02 import setup_spec

THEOREMS = 'IsoTp.Props.C03'
RULE = ('streams from an independent encoder (harness/streams.py): payloads 1..10^5 bytes, sender TX_DL in {8,..,64}, last frame '
        'minimal / padded to 8 / padded to next FD size / full, SF escape iff CAN_DL>8, 12-bit vs 32-bit FF_DL, with/without prefix; '
        'receiver configs random (mode, blocksize 0..255, stmin, own padding, max_frame_size >= |p|), frames batched 1..all per '
        'process() call. Oracle: recv() yields the payload exactly once and only after the last frame; the emitted frames are exactly one '
        'Flow Control (reference frame from the extracted Coq Spec: ContinueToSend, configured blocksize/stmin, padding, id, prefix) '
        'after the First Frame and after every blocksize-th Consecutive Frame that does not complete the message; no error. '
        'Every case is replayed on the extracted model. non-trivial = distinct cases')
ASSUME = ['frames of one message are processed within rx_consecutive_frame_timeout of each other (gaps of 0 or 0.45 x the timeout)']


def gen_case(rng, tier):
    a, _ = rand_inst_pair(rng)
    p = rand_params(rng)
    for k in ('listen_mode', 'rate_limit_enable', 'rate_limit_max_bitrate', 'rate_limit_window_size'):
        p.pop(k, None)
    big = rng.random() < (0.02 if tier != 'thorough' else 0.01)
    n = rng.choice([1, 5, 6, 7, 8, 9, 10, 11, 12, 62, 63, 64, 100, 4094, 4095, 4096, 4097]) if rng.random() < 0.5 else rng.randint(1, (100000 if tier == 'thorough' else 30000) if big else 600)
    p['max_frame_size'] = rng.choice([n, n + 1, max(n, 4095), 10**6])
    inst = dict(a, params=p)
    rid, ext, pfx = reach(inst)
    payload = bytes(rng.getrandbits(8) for _ in range(n))
    tx_dl = rng.choice(FD_SIZES)
    frames = encode_stream(payload, tx_dl, pfx, rng.choice(['min', 'pad8', 'padfd', 'full']), pad=rng.choice([0xCC, 0x00, 0x55]),
                           force_escape_ff=(n > 4095))
    ops = []
    i = 0
    batch = rng.choice([1, 1, 2, 3, 7, len(frames)])
    # a slow but timely sender: every gap stays below rx_consecutive_frame_timeout, the whole message takes much longer
    slow = len(frames) > 3 and len(frames) < 400 and rng.random() < 0.3
    gap = int(p.get('rx_consecutive_frame_timeout', 1000) * 10**6 * 0.45)
    if slow:
        batch = 1
    while i < len(frames):
        k = batch if batch else 1
        if slow and i > 0:
            ops.append([0, 'tick', gap])
        for f in frames[i:i + k]:
            ops.append([0, 'rx', rid, int(ext), hx(f)])
        i += k
        ops.append([0, 'proc', 1, 1])
        ops.append([0, 'recv'])
    ops.append([0, 'proc', 1, 1])
    ops.append([0, 'recv'])
    return {'insts': [inst], 'ops': ops, 'payload': hx(payload), 'nframes': len(frames), 'sender_tx_dl': tx_dl}


def make_oracle(fcref):
    def oracle(case, lines, insts):
        if 'payload' not in case:
            return []
        fails = []
        bs = case['insts'][0]['params'].get('blocksize', 8)
        nrx = sum(1 for op in case['ops'] if op[1] == 'rx')
        if nrx != case['nframes']:
            return []          # shrinking candidate: not the full stream any more
        seen = 0
        delivered = []
        txs = []
        for op, l in zip(case['ops'], lines):
            evs = split_line(l)[0]
            if op[1] == 'rx':
                seen += 1
            for e in evs:
                if e.startswith('recv:') and e != 'recv:none':
                    delivered.append((seen, e[5:]))
                elif e.startswith('tx:'):
                    txs.append(e[3:])
                elif e.startswith('err:') or e == 'crash':
                    fails.append(('C03:error-on-wellformed-stream', e))
        if [d[1] for d in delivered] != [case['payload']]:
            fails.append(('C03:delivery-differs', 'delivered %d payloads (%s bytes)' % (len(delivered), [len(d[1]) // 2 for d in delivered][:3])))
        elif delivered[0][0] < case['nframes']:
            fails.append(('C03:delivered-early', 'delivered after %d of %d frames' % (delivered[0][0], case['nframes'])))
        ncf = case['nframes'] - 1
        exp_fc = 0 if case['nframes'] == 1 else 1 + (((ncf - 1) // bs) if bs else 0)
        if txs != [fcref] * exp_fc:
            fails.append(('C03:flow-control-differs', 'emitted %d frames %s, expected %d x %s' % (len(txs), txs[:2], exp_fc, fcref)))
        return fails
    return oracle


def run_shard(campaign, shard, nshards, seed, tier):
    part = Part()
    rng = random.Random('%s/%s/%s' % (seed, campaign, shard))
    quick = tier != 'thorough'
    n = (1200 if quick else 60000) // nshards + 1
    m = lc.model()
    for _ in range(n):
        case = gen_case(rng, tier)
        setup_spec(m, case['insts'][0])
        fcref = m.query('fc 0')
        part.distinct(case)
        part.hist('sender_tx_dl', case['sender_tx_dl'])
        part.hist('nframes', min(case['nframes'], 100) // 5 * 5)
        part.hist('blocksize', case['insts'][0]['params'].get('blocksize', 8))
        lc.run_case(part, campaign, case, oracle=make_oracle(fcref), theorem=THEOREMS)
        part.sample({'inst': case['insts'][0], 'payload_len': len(case['payload']) // 2, 'nframes': case['nframes'], 'first_ops': case['ops'][:4]})
    return part.result()


def run(ctx):
    run_sharded(ctx, 'C03', 'streams', nshards=16)
    return RULE, ASSUME
