"""C03 - receiver reassembles every well-formed stream and issues correct flow control (campaign K3)."""
import random
from core import *
from gen import *
from runner import Part, run_sharded
from streams import encode_stream, FD_SIZES
import lc
from C02 import setup_spec

THEOREMS = 'IsoTp.Props.C03'
RULE = ('streams from an independent encoder (harness/streams.py): payloads 1..10^5 bytes, sender TX_DL in {8,..,64}, last frame '
        'minimal / padded to 8 / padded to next FD size / full, SF escape iff CAN_DL>8, 12-bit vs 32-bit FF_DL, with/without prefix; '
        'receiver configs random (mode, blocksize 0..255, stmin, own padding, max_frame_size >= |p|), frames batched 1..all per '
        'process() call. Oracle: recv() yields the payload exactly once and only after the last frame; the emitted frames are exactly one '
        'Flow Control (reference frame from the extracted Coq Spec: ContinueToSend, configured blocksize/stmin, padding, id, prefix) '
        'after the First Frame and after every blocksize-th Consecutive Frame that does not complete the message; no error. '
        'Every case is replayed on the extracted model. non-trivial = distinct cases'
        " 30 % of the multi-frame cases run full duplex: the receiver transmits a multi-frame message of its own meanwhile (queued before or during the reception, paced by the peer's STmin); only its Flow Control frames are counted. A quarter of the others alternate receive-only and transmit-only process() calls over each batch, some with stop_sending() called in between (nothing is being sent: the reception is untouched)."
        ' (reparam) tx_padding / tx_data_min_length changed with params.set() between two receptions: the Flow Control of the second is the reference frame of the new parameters.')
ASSUME = ['frames of one message are processed within rx_consecutive_frame_timeout of each other (gaps of 0 or 0.45 x the timeout)']


def gen_case(rng, tier):
    a, _ = rand_inst_pair(rng)
    p = rand_params(rng)
    for k in ('listen_mode', 'rate_limit_enable', 'rate_limit_max_bitrate', 'rate_limit_window_size'):
        p.pop(k, None)
    big = rng.random() < (0.02 if tier != 'thorough' else 0.01)
    n = rng.choice([1, 5, 6, 7, 8, 9, 10, 11, 12, 62, 63, 64, 100, 4094, 4095, 4096, 4097]) if rng.random() < 0.5 else rng.randint(1, (100000 if tier == 'thorough' else 30000) if big else 600)
    p['max_frame_size'] = rng.choice([n, n + 1, max(n, 4095), 10**6])
    inst = dict(a, params=p)
    rid, ext, pfx = reach(inst)
    payload = bytes(rng.getrandbits(8) for _ in range(n))
    tx_dl = rng.choice(FD_SIZES)
    frames = encode_stream(payload, tx_dl, pfx, rng.choice(['min', 'pad8', 'padfd', 'full']), pad=rng.choice([0xCC, 0x00, 0x55]),
                           force_escape_ff=(n > 4095))
    ops = []
    i = 0
    batch = rng.choice([1, 1, 2, 3, 7, len(frames)])
    # a slow but timely sender: every gap stays below rx_consecutive_frame_timeout, the whole message takes much longer
    slow = len(frames) > 3 and len(frames) < 400 and rng.random() < 0.3
    gap = int(p.get('rx_consecutive_frame_timeout', 1000) * 10**6 * 0.45)
    if slow:
        batch = 1
    # full duplex: the receiver transmits messages of its own meanwhile (queued before or during the reception; its own Consecutive
    # Frames paced by the peer's STmin so that they leave in the passes in which a Flow Control is due)
    duplex = (not slow) and len(frames) > 1 and len(frames) < 300 and rng.random() < 0.3
    own_at = rng.randint(0, len(frames) - 1) if duplex else None
    # reception and transmission in separate calls: a receive-only pass stops at every frame that asks for a Flow Control, the
    # transmit-only pass that follows emits it, the next receive-only pass reads on
    splitp = (not slow) and (not duplex) and len(frames) < 200 and rng.random() < 0.25
    stopper = splitp and rng.random() < 0.4
    own_fc_at = None
    own_len = p.get('tx_data_length', 8) + rng.choice([1, 20, 100])      # always a multi-frame message of its own
    own_st = rng.choice([0, 1, 1, 2])
    if duplex:
        p.pop('default_target_address_type', None)
        p['rx_flowcontrol_timeout'] = 1000
        p['rx_consecutive_frame_timeout'] = 1000
    while i < len(frames):
        k = batch if batch else 1
        if slow and i > 0:
            ops.append([0, 'tick', gap])
        if duplex and own_at is not None and i >= own_at:
            ops.append([0, 'send', None, hx(bytes(rng.getrandbits(8) for _ in range(own_len)))])
            own_at = None
            own_fc_at = i + rng.choice([1, 2, 3]) * k      # after the pass that emits the own First Frame
        if duplex and own_fc_at is not None and i >= own_fc_at and own_at is None:
            ops.append([0, 'rx', rid, int(ext), hx(pfx + bytes([0x30, 0, own_st]))])
            own_fc_at = None
        for f in frames[i:i + k]:
            ops.append([0, 'rx', rid, int(ext), hx(f)])
        i += k
        if splitp:
            for _ in range(k + 1):
                ops.append([0, 'proc', 1, 0])
                if stopper and rng.random() < 0.4:
                    ops.append([0, 'stop_sending'])     # the user aborts transmissions (there is none): the reception and its Flow Control are untouched
                ops.append([0, 'proc', 0, 1])
        else:
            ops.append([0, 'proc', 1, 1])
        if duplex:
            ops.append([0, 'tick', rng.choice([10**6, 10**6, 2 * 10**6, 0])])
        ops.append([0, 'recv'])
    ops.append([0, 'proc', 1, 1])
    ops.append([0, 'recv'])
    if duplex:
        if own_fc_at is not None:
            ops.append([0, 'rx', rid, int(ext), hx(pfx + bytes([0x30, 0, own_st]))])
        for _ in range(own_len // 6 + 3):
            ops.append([0, 'proc', 1, 1]); ops.append([0, 'tick', 2 * 10**6])
    tplen = 1 if inst['txa']['mode'].startswith(('Extended', 'Mixed')) else 0
    return {'insts': [inst], 'ops': ops, 'payload': hx(payload), 'nframes': len(frames), 'sender_tx_dl': tx_dl, 'duplex': duplex, 'tplen': tplen, 'split_passes': splitp}


def _is_fc_in(op, case):
    """an incoming Flow Control (for the layer's own transmission in a full-duplex case), not a frame of the stream"""
    if not case.get('duplex'):
        return False
    d = unhx(op[4])
    _, _, pfx = reach(case['insts'][0])
    return len(d) > len(pfx) and d[len(pfx)] >> 4 == 3


def make_oracle(fcref):
    def oracle(case, lines, insts):
        if 'payload' not in case:
            return []
        fails = []
        bs = case['insts'][0]['params'].get('blocksize', 8)
        tpl = case.get('tplen', 0)
        nrx = sum(1 for op in case['ops'] if op[1] == 'rx' and not _is_fc_in(op, case))
        if nrx != case['nframes']:
            return []          # shrinking candidate: not the full stream any more
        seen = 0
        delivered = []
        txs = []
        for op, l in zip(case['ops'], lines):
            evs = split_line(l)[0]
            if op[1] == 'rx':
                seen += 1
            for e in evs:
                if e.startswith('recv:') and e != 'recv:none':
                    delivered.append((seen, e[5:]))
                elif e.startswith('tx:'):
                    d = unhx(e.split(':')[6])
                    if not case.get('duplex') or (len(d) > tpl and d[tpl] >> 4 == 3):
                        txs.append(e[3:])      # in a full-duplex case only the Flow Control frames belong to this reception
                elif e.startswith('err:') or e == 'crash':
                    fails.append(('C03:error-on-wellformed-stream', e))
        if [d[1] for d in delivered] != [case['payload']]:
            fails.append(('C03:delivery-differs', 'delivered %d payloads (%s bytes)' % (len(delivered), [len(d[1]) // 2 for d in delivered][:3])))
        elif delivered[0][0] < case['nframes']:
            fails.append(('C03:delivered-early', 'delivered after %d of %d frames' % (delivered[0][0], case['nframes'])))
        ncf = case['nframes'] - 1
        exp_fc = 0 if case['nframes'] == 1 else 1 + (((ncf - 1) // bs) if bs else 0)
        if txs != [fcref] * exp_fc:
            fails.append(('C03:flow-control-differs', 'emitted %d frames %s, expected %d x %s' % (len(txs), txs[:2], exp_fc, fcref)))
        return fails
    return oracle


def reparam_run(rng, m):
    """A layer receives a segmented message, its padding / minimum length parameters are changed with params.set() while it is idle,
    it receives another: the Flow Control of the second reception is the reference frame of the NEW parameters."""
    from core import ImplInst
    a, _ = rand_inst_pair(rng)
    p1 = {'blocksize': rng.choice([0, 1, 2]), 'stmin': rng.choice([0, 5])}
    if rng.random() < 0.5:
        p1['tx_padding'] = rng.choice([0x00, 0xAA])
    changes = rng.choice([{'tx_padding': 0x55}, {'tx_padding': None}, {'tx_data_min_length': 8}, {'tx_data_min_length': 6}, {'tx_padding': 0xCC, 'tx_data_min_length': 5}])
    inst1 = dict(a, params=p1)
    p2 = dict(p1); p2.update(changes)
    p2 = {k: v for k, v in p2.items() if v is not None}
    inst2 = dict(a, params=p2)
    rid, ext, pfx = reach(inst1)
    im = ImplInst(inst1)
    fcs = []
    try:
        for phase in (1, 2):
            payload = bytes(rng.getrandbits(8) for _ in range(rng.choice([10, 20, 30])))
            for f in encode_stream(payload, 8, pfx, 'min'):
                im.run_op([0, 'rx', rid, int(ext), hx(f)])
                line = im.run_op([0, 'proc', 1, 1])
                for e in split_line(line)[0]:
                    if e.startswith('tx:'):
                        fcs.append((phase, e[3:]))
            if phase == 1:
                for k_, v in changes.items():
                    im.layer.params.set(k_, v)
    finally:
        import time as _t
        from core import _REAL
        _t.perf_counter_ns, _t.perf_counter = _REAL
    setup_spec(m, inst2)
    ref2 = m.query('fc 0')
    got2 = [f for ph, f in fcs if ph == 2]
    fails = []
    if not got2 or any(f != ref2 for f in got2):
        fails.append(('C03:flow-control-differs', 'after params.set(%s) the Flow Control of the next reception is %s, reference for the new parameters %s' % (changes, got2[:2], ref2)))
    return fails, {'inst': inst1, 'changes': {k: v for k, v in changes.items()}, 'fcs': len(fcs)}


def run_shard(campaign, shard, nshards, seed, tier):
    if campaign == 'api':
        import apiuse
        return apiuse.run_api('C03', shard, nshards, seed, tier)
    if campaign == 'reparam':
        part = Part()
        rng = random.Random('%s/%s/%s' % (seed, campaign, shard))
        m = lc.model()
        for _ in range((60 if tier != 'thorough' else 3000) // nshards + 1):
            fails, info = reparam_run(rng, m)
            part.d['evaluations'] += 1
            part.distinct(info)
            part.hist('reparam', str(sorted(info['changes'])))
            if fails:
                part.violation('oracle', campaign, fails[0][0], fails[0][1], {'scenario': 'reparam', 'info': info})
            part.sample(info)
        return part.result()
    part = Part()
    rng = random.Random('%s/%s/%s' % (seed, campaign, shard))
    quick = tier != 'thorough'
    n = (1200 if quick else 60000) // nshards + 1
    m = lc.model()
    for _ in range(n):
        case = gen_case(rng, tier)
        setup_spec(m, case['insts'][0])
        fcref = m.query('fc 0')
        part.distinct(case)
        part.hist('sender_tx_dl', case['sender_tx_dl'])
        part.hist('nframes', min(case['nframes'], 100) // 5 * 5)
        part.hist('blocksize', case['insts'][0]['params'].get('blocksize', 8))
        part.hist('duplex', str(bool(case.get('duplex'))))
        part.hist('split_passes', str(bool(case.get('split_passes'))))
        lc.run_case(part, campaign, case, oracle=make_oracle(fcref), theorem=THEOREMS)
        part.sample({'inst': case['insts'][0], 'payload_len': len(case['payload']) // 2, 'nframes': case['nframes'], 'first_ops': case['ops'][:4]})
    return part.result()


def run(ctx):
    run_sharded(ctx, 'C03', 'streams', nshards=16)
    run_sharded(ctx, 'C03', 'reparam')
    run_sharded(ctx, 'C03', 'api', nshards=2)
    import apiuse
    return RULE + apiuse.rule_text('C03'), ASSUME
