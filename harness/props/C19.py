"""C19 - socket option setters write the exact kernel ABI and keep unspecified fields (campaign K6)."""
import random
import itertools
import struct
from core import *
from gen import *
from runner import Part, run_sharded
import lc
import fake_kernel
import vclock  # noqa: F401,E402  (clock trampolines go in before the library binds anything)
import isotp

THEOREMS = 'IsoTp.Props.C19'
RULE = ('sequences of set_opts / set_fc_opts / set_ll_opts calls on an isotp.socket whose underlying socket is a fake kernel socket '
        '(byte store only): each argument independently None / 0 / maximum / maximum+1 / -1 / 1.5 / an integral float / "x"; all single calls with one or '
        'two non-None arguments exhaustively, random 3-call (quick) / 4-call (thorough) sequences. The raw setsockopt log is compared '
        'byte for byte with the calls of the extracted Coq wrapper model; the bytes are interpreted by the extracted Coq kernel Spec '
        '(uapi layouts) and the kernel-visible state is compared with the reference "None means unchanged, given values stored, implied '
        'flag set"; invalid argument <-> ValueError and no setsockopt; get_* return what the kernel holds.')
ASSUME = ['little-endian struct layout (struct.pack("=...") on this platform); the Linux kernel is represented by Spec/Kernel.v']

VALS32 = [None, 0, 0xFFFFFFFF, 0x100000000, -1, 1.5, 'x', 0x84, 50000, 2.0]
VALS8 = [None, 0, 0xFF, 0x100, -1, 1.5, 'x', 0x55, 8.0]      # 8.0 / 2.0: a float with an integral value is not an integer either
FLAG = {'ext_address': 0x002, 'txpad': 0x004, 'rxpad': 0x008, 'rx_ext_address': 0x200, 'tx_stmin': 0x080}
GEN_KEYS = ['optflag', 'frame_txtime', 'ext_address', 'txpad', 'rxpad', 'rx_ext_address', 'tx_stmin']
MAXV = {'optflag': 0xFFFFFFFF, 'frame_txtime': 0xFFFFFFFF, 'ext_address': 0xFF, 'txpad': 0xFF, 'rxpad': 0xFF, 'rx_ext_address': 0xFF, 'tx_stmin': 0xFFFFFFFF}


def tok(v):
    if v is None:
        return '-'
    if isinstance(v, int) and not isinstance(v, bool):
        return str(v)
    return 'x'


def valid(v, hi):
    return v is None or (isinstance(v, int) and 0 <= v <= hi)


def ref_state(st, kind, kw):
    """reference: None means unchanged; a given value is stored and its flag set. Returns new state or None (ValueError)."""
    st = dict(st)
    if kind == 'opts':
        for k in GEN_KEYS:
            if not valid(kw.get(k), MAXV[k]):
                return None
        flags = kw['optflag'] if kw.get('optflag') is not None else st['flags']
        for k, f in FLAG.items():
            if kw.get(k) is not None:
                flags |= f
        st['flags'] = flags
        for k, field in (('frame_txtime', 'txtime'), ('ext_address', 'ext'), ('txpad', 'txpad'), ('rxpad', 'rxpad'), ('rx_ext_address', 'rxext'), ('tx_stmin', 'txstmin')):
            if kw.get(k) is not None:
                st[field] = kw[k]
    elif kind == 'fc':
        for k in ('bs', 'stmin', 'wftmax'):
            if not valid(kw.get(k), 0xFF):
                return None
        for k, field in (('bs', 'bs'), ('stmin', 'stmin'), ('wftmax', 'wft')):
            if kw.get(k) is not None:
                st[field] = kw[k]
    else:
        for k in ('mtu', 'tx_dl', 'tx_flags'):
            if not valid(kw.get(k), 0xFF):
                return None
        for k, field in (('mtu', 'mtu'), ('tx_dl', 'txdl'), ('tx_flags', 'llflags')):
            if kw.get(k) is not None:
                st[field] = kw[k]
    return st


INIT = dict(flags=0, txtime=50000, ext=0, txpad=0xCC, rxpad=0xCC, rxext=0, bs=0, stmin=0, wft=0, mtu=16, txdl=8, llflags=0, txstmin=0)


def parse_state(line):
    d = {}
    for kv in line.split():
        k, v = kv.split('=')
        if k != 'bound':
            d[k] = int(v)
    return d


def run_sequence(part, m, seq, campaign):
    """seq: list of (kind, kwargs). Executes on the implementation + fake kernel, on the model, and on the reference."""
    undo = fake_kernel.install()
    try:
        s = isotp.socket()
        fk = fake_kernel.CREATED[-1]       # the kernel socket the wrapper has just created
        m.p.stdin.write('S reset\nK reset\n'); m.p.stdin.flush(); m.p.stdout.readline(); m.p.stdout.readline()
        ref = dict(INIT)
        for kind, kw in seq:
            part.d['evaluations'] += 1
            n0 = len(fk.log)
            try:
                # every third call passes its arguments by position, in the documented order (None for the ones not given)
                positional = (len(seq) + sum(len(k_) for k_ in kw)) % 3 == 0
                order = GEN_KEYS if kind == 'opts' else (('bs', 'stmin', 'wftmax') if kind == 'fc' else ('mtu', 'tx_dl', 'tx_flags'))
                args = [kw.get(k_) for k_ in order] if positional else []
                kwargs = {} if positional else kw
                if kind == 'opts':
                    s.set_opts(*args, **kwargs)
                elif kind == 'fc':
                    s.set_fc_opts(*args, **kwargs)
                else:
                    s.set_ll_opts(*args, **kwargs)
                outcome = 'ok'
            except ValueError:
                outcome = 'valueerror'
            except Exception as e:
                outcome = 'other:' + type(e).__name__
            sets = [c for c in fk.log[n0:] if c[0] == 'setsockopt']
            impl_calls = ' '.join('set:%d:%d:%s' % (c[1], c[2], c[3].hex() if c[3] else '-') for c in sets)
            # model
            if kind == 'opts':
                q = 'setopts ' + ' '.join(tok(kw.get(k)) for k in GEN_KEYS)
            elif kind == 'fc':
                q = 'setfc ' + ' '.join(tok(kw.get(k)) for k in ('bs', 'stmin', 'wftmax'))
            else:
                q = 'setll ' + ' '.join(tok(kw.get(k)) for k in ('mtu', 'tx_dl', 'tx_flags'))
            m.p.stdin.write('S ' + q + '\n'); m.p.stdin.flush()
            mo = m.p.stdout.readline().strip()
            impl_line = (outcome + (' ' + impl_calls if impl_calls else '')).strip()
            part.hist('outcome', kind + '/' + outcome)
            case = {'sequence': [(k_, {a: (v if not isinstance(v, float) else 'float') for a, v in kw_.items()}) for k_, kw_ in seq], 'at': (kind, {a: str(v) for a, v in kw.items()})}
            # kernel side: interpret the raw bytes with the Coq Spec
            kst = None
            for c in sets:
                m.p.stdin.write('K set %d %d %s\n' % (c[1], c[2], c[3].hex())); m.p.stdin.flush()
                kst = parse_state(m.p.stdout.readline())
            if kst is None:
                m.p.stdin.write('K state\n'); m.p.stdin.flush(); kst = parse_state(m.p.stdout.readline())
            exp = ref_state(ref, kind, kw)
            if exp is None:
                if outcome != 'valueerror' or sets:
                    part.violation('oracle', campaign, 'C19:invalid-argument-not-refused-cleanly',
                                   'invalid argument: outcome %s, %d setsockopt issued' % (outcome, len(sets)), case)
                    return
            else:
                if outcome != 'ok':
                    part.violation('oracle', campaign, 'C19:valid-call-refused', 'outcome %s for valid arguments' % outcome, case)
                    return
                ref = exp
                if {k: kst[k] for k in ref} != ref:
                    diff = {k: (kst[k], ref[k]) for k in ref if kst[k] != ref[k]}
                    part.violation('oracle', campaign, 'C19:none-argument-changed-kernel-state' if any(True for _ in diff) else 'C19:kernel-state',
                                   'kernel-visible state differs from the reference (kernel, expected): %s' % diff, case)
                    return
                for c in sets:
                    if c[1] != 106 or c[2] not in (1, 2, 3, 5) or len(c[3]) != {1: 12, 2: 3, 3: 4, 5: 3}[c[2]]:
                        part.violation('oracle', campaign, 'C19:abi', 'setsockopt(level=%d, opt=%d, %d bytes)' % (c[1], c[2], len(c[3])), case)
                        return
                # getters return what was written
                g, f, l = s.get_opts(), s.get_fc_opts(), s.get_ll_opts()
                got = dict(flags=g.optflag, txtime=g.frame_txtime, ext=g.ext_address, txpad=g.txpad, rxpad=g.rxpad, rxext=g.rx_ext_address,
                           bs=f.bs, stmin=f.stmin, wft=f.wftmax, mtu=l.mtu, txdl=l.tx_dl, llflags=l.tx_flags)
                if any(got[k] != ref[k] for k in got):
                    part.violation('oracle', campaign, 'C19:getter', 'get_* returned %s, kernel holds %s' % (got, ref), case)
                    return
            if impl_line != mo:
                part.violation('correspondence', campaign, 'corr:' + campaign, 'implementation "%s" vs model "%s"' % (impl_line, mo), case,
                               {'theorem_or_correspondence': THEOREMS})
                return
            part.d['traces_validated'] += 1
        part.distinct([(k, sorted((a, str(v)) for a, v in kw.items())) for k, kw in seq])
        part.sample({'sequence': [(k, {a: str(v) for a, v in kw.items()}) for k, kw in seq], 'final_kernel_state': ref})
    finally:
        undo()


def rand_call(rng):
    kind = rng.choice(['opts', 'opts', 'opts', 'fc', 'll'])
    if kind == 'opts':
        kw = {}
        for k in GEN_KEYS:
            if rng.random() < 0.35:
                kw[k] = rng.choice(VALS32 if MAXV[k] > 0xFF else VALS8)
                if rng.random() < 0.75 and not valid(kw[k], MAXV[k]):
                    kw[k] = rng.choice([0, 1, MAXV[k], 0x80 if k != 'optflag' else 0x84])
    elif kind == 'fc':
        kw = {k: rng.choice(VALS8) for k in ('bs', 'stmin', 'wftmax') if rng.random() < 0.6}
    else:
        kw = {k: rng.choice(VALS8) for k in ('mtu', 'tx_dl', 'tx_flags') if rng.random() < 0.6}
    return kind, kw


def run_shard(campaign, shard, nshards, seed, tier):
    if campaign == 'api':
        import apiuse
        return apiuse.run_api('C19', shard, nshards, seed, tier)
    part = Part()
    rng = random.Random('%s/%s/%s' % (seed, campaign, shard))
    quick = tier != 'thorough'
    m = lc.model()
    if campaign == 'single':
        # every single call with one or two arguments from the value lists, after a fixed prior configuration
        prior = [('opts', {'tx_stmin': 7000, 'txpad': 0x11}), ('fc', {'bs': 4, 'stmin': 9, 'wftmax': 2})]
        k = 0
        for a, b in itertools.combinations(GEN_KEYS, 2):
            for va in (VALS32 if MAXV[a] > 0xFF else VALS8):
                for vb in (VALS32 if MAXV[b] > 0xFF else VALS8):
                    k += 1
                    if k % nshards != shard or (quick and k % 3):
                        continue
                    kw = {x: v for x, v in ((a, va), (b, vb)) if v is not None}
                    run_sequence(part, m, prior + [('opts', kw)], campaign)
        for kind, keys in (('fc', ('bs', 'stmin', 'wftmax')), ('ll', ('mtu', 'tx_dl', 'tx_flags'))):
            for vals in itertools.product(VALS8, repeat=3):
                k += 1
                if k % nshards != shard or (quick and k % 2):
                    continue
                run_sequence(part, m, prior + [(kind, {x: v for x, v in zip(keys, vals) if v is not None})], campaign)
    else:
        n = (700 if quick else 60000) // nshards + 1
        L = 3 if quick else 4
        for _ in range(n):
            run_sequence(part, m, [rand_call(rng) for _ in range(rng.randint(2, L))], campaign)
    return part.result()


def run(ctx):
    run_sharded(ctx, 'C19', 'single')
    run_sharded(ctx, 'C19', 'sequences')
    ctx.exhaustive['all set_opts calls with two arguments from the value lists; all set_fc_opts / set_ll_opts calls from the value lists' + (' (every 2nd/3rd in quick)' if ctx.quick else '')] = not ctx.quick
    run_sharded(ctx, 'C19', 'api', nshards=2)
    import apiuse
    return RULE + apiuse.rule_text('C19'), ASSUME
