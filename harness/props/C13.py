"""C13 - threaded layer: concurrent senders get exactly-once, per-thread-ordered delivery (real threads)."""
import queue
import random
import sys
import threading
import time
from core import *
from gen import *
from runner import Part, run_sharded
import lc
import k1_fuzz

THEOREMS = 'IsoTp.Props.C13'
RULE = ('(threads) two started layers, real threads, sys.setswitchinterval(10 us), random latency (0-0.5 ms) injected in rxfn / txfn / wait_func / '
        'error handler, read_timeout in {1, 10, 50 ms}, 1-4 sender threads each sending 2-6 payloads (single- and multi-frame, blocking and '
        'non-blocking send), optional reverse traffic, bus noise (unrelated identifiers; error and remote frames on the python-can buses), over '
        '4 transports: queue callbacks with rxfn(timeout), legacy rxfn() without parameter, CanStack and NotifierBasedCanStack on a python-can '
        'virtual bus, CAN FD on/off; protocol timeouts 10 s. The order in which tx_queue.put took effect (instance-level wrapper) is the '
        'schedule; the extracted Coq merge (Model/Threaded.run_sched) of the per-thread lists under that schedule must equal what the peer '
        'delivered; independently: every payload exactly once, unmodified, per-thread order kept, no error on either side, all threads joined. '
        '(duplex) both peers stream 60-70 Consecutive Frames at the same time with stmin 20 ms and 1 s timeouts, read_timeout 5-50 ms. '
        '(noisy_bus) one unrelated frame every 0.2 ms on the bus, 150 sends one after the other: each reaches the peer within 2 s (observed: milliseconds). '
        '(logic) random operation sequences on the logic layer compared line by line with the extracted model (the worker loop is '
        'process() in a loop).')
ASSUME = ['queue.Queue is a linearizable FIFO; protocol state is only touched by the worker thread; thread schedules are sampled, not enumerated']

NOISE_IDS = [0x7F0, 0x001, 0x333]


def nap(rng, p=0.3):
    if rng.random() < p:
        time.sleep(rng.random() * 0.0005)


class Net:
    """two layers A (senders) and B (peer) over one of the transports"""

    def __init__(self, rng, transport, fd, read_timeout, params_a=None, params_b=None):
        import isotp
        self.isotp = isotp
        self.rng = rng
        self.transport = transport
        self.errors = {0: [], 1: []}
        M = isotp.AddressingMode
        mode = rng.choice(['n11', 'ext', 'mixed29'])
        if mode == 'n11':
            a = isotp.Address(M.Normal_11bits, txid=0x111, rxid=0x222); b = isotp.Address(M.Normal_11bits, txid=0x222, rxid=0x111)
        elif mode == 'ext':
            a = isotp.Address(M.Extended_11bits, txid=0x111, rxid=0x222, target_address=0x10, source_address=0x20)
            b = isotp.Address(M.Extended_11bits, txid=0x222, rxid=0x111, target_address=0x20, source_address=0x10)
        else:
            a = isotp.Address(M.Mixed_29bits, target_address=0x10, source_address=0x20, address_extension=0x99)
            b = isotp.Address(M.Mixed_29bits, target_address=0x20, source_address=0x10, address_extension=0x99)
        base = {'rx_flowcontrol_timeout': 10000, 'rx_consecutive_frame_timeout': 10000, 'stmin': 0, 'blocksize': rng.choice([0, 1, 4, 8]),
                'max_frame_size': 65535}
        if fd:
            base.update(tx_data_length=rng.choice([16, 64]), can_fd=True)
        pa = dict(base, **(params_a or {}))
        pb = dict(base, blocksize=rng.choice([0, 1, 4, 8]), **(params_b or {}))
        lat = lambda: nap(rng)

        def wait_func(d):
            lat()
            time.sleep(d)
        pa['wait_func'] = wait_func
        eh = lambda k: (lambda e: (lat(), self.errors[k].append(type(e).__name__)))
        self.cleanup = []
        if transport in ('queue-blocking', 'queue-legacy'):
            qab, qba = queue.Queue(), queue.Queue()
            self.inject = lambda m: qba.put(m)

            def rx_blocking(q):
                def f(timeout):
                    lat()
                    try:
                        return q.get(timeout=timeout) if timeout else q.get_nowait()
                    except queue.Empty:
                        return None
                return f

            def rx_legacy(q):
                def f():
                    lat()
                    try:
                        return q.get_nowait()
                    except queue.Empty:
                        return None
                return f
            mk = rx_blocking if transport == 'queue-blocking' else rx_legacy

            def tx(q):
                def f(m):
                    lat()
                    q.put(m)
                return f
            self.A = isotp.TransportLayer(rxfn=mk(qba), txfn=tx(qab), address=a, params=pa, error_handler=eh(0), read_timeout=read_timeout)
            self.B = isotp.TransportLayer(rxfn=mk(qab), txfn=tx(qba), address=b, params=pb, error_handler=eh(1), read_timeout=read_timeout)
            self.noise = lambda: qba.put(isotp.CanMessage(arbitration_id=rng.choice(NOISE_IDS), data=bytes([0x10, 0x20, 1, 2, 3, 4, 5, 6])))
        else:
            import can
            chan = 'c13-%d-%d' % (threading.get_ident(), id(self))
            kw = dict(interface='virtual', receive_own_messages=False)
            ba, bb, bn = (can.interface.Bus(chan, **kw) for _ in range(3))
            self.cleanup += [ba.shutdown, bb.shutdown, bn.shutdown]

            def noise():
                r = rng.random()
                if r < 0.4:
                    bn.send(can.Message(arbitration_id=rng.choice(NOISE_IDS), data=bytes([0x10, 0x20, 1, 2, 3, 4, 5, 6]), is_extended_id=False))
                elif r < 0.7:
                    bn.send(can.Message(arbitration_id=0x222, is_error_frame=True, data=bytes([0x02, 1, 2]), is_extended_id=False))
                else:
                    bn.send(can.Message(arbitration_id=0x222, is_remote_frame=True, dlc=3, is_extended_id=False))
            self.noise = noise
            if transport == 'canstack':
                self.A = isotp.CanStack(ba, address=a, params=pa, error_handler=eh(0), read_timeout=read_timeout)
                self.B = isotp.CanStack(bb, address=b, params=pb, error_handler=eh(1), read_timeout=read_timeout)
            else:
                na, nb = can.Notifier(ba, [], timeout=0.01), can.Notifier(bb, [], timeout=0.01)
                self.cleanup = [na.stop, nb.stop] + self.cleanup
                self.A = isotp.NotifierBasedCanStack(ba, na, address=a, params=pa, error_handler=eh(0), read_timeout=read_timeout)
                self.B = isotp.NotifierBasedCanStack(bb, nb, address=b, params=pb, error_handler=eh(1), read_timeout=read_timeout)
        # linearisation point of send(): the put on the transmit queue
        self.order = []
        self.tag = threading.local()
        lock = threading.Lock()
        q = getattr(self.A, 'tx_queue', None)
        if q is not None and hasattr(q, 'put'):
            orig_put = q.put

            def put(item, *a_, **k_):
                with lock:
                    orig_put(item, *a_, **k_)
                    self.order.append(getattr(self.tag, 'v', None))
            q.put = put
        else:
            # no transmit queue attribute to observe: take the order in which send() calls return under a lock (non-blocking sends only
            # are serialised by it; the per-thread and exactly-once oracles do not depend on this)
            orig_send = self.A.send

            def send(*a_, **k_):
                if k_.get('send_timeout') is not None or getattr(self.A.params, 'blocking_send', False):
                    r = orig_send(*a_, **k_)
                    with lock:
                        self.order.append(getattr(self.tag, 'v', None))
                    return r
                with lock:
                    r = orig_send(*a_, **k_)
                    self.order.append(getattr(self.tag, 'v', None))
                    return r
            self.A.send = send

    def close(self):
        for l in (self.A, self.B):
            try:
                l.stop()
            except BaseException:
                pass
        for f in self.cleanup:
            try:
                f()
            except BaseException:
                pass


def payload_for(tid, k, n):
    head = bytes([tid, k])
    return (head + bytes((tid * 31 + k * 7 + i) & 0xFF for i in range(max(0, n - 2))))[:max(n, 2)]


def threaded_run(part, m, rng, transport, campaign):
    part.d['evaluations'] += 1
    fd = rng.random() < 0.4
    rt = rng.choice([0.001, 0.01, 0.05])
    nthreads = rng.randint(1, 4)
    blocking = rng.random() < 0.4
    lists = [[payload_for(t, k, rng.choice([2, 5, 7, 8, 20, 60, 150])) for k in range(rng.randint(2, 6))] for t in range(nthreads)]
    back = [payload_for(9, k, rng.choice([3, 30, 100])) for k in range(rng.randint(0, 3))]
    total = sum(len(l) for l in lists)
    baseline = set(threading.enumerate())
    net = Net(rng, transport, fd, rt, params_a={'blocking_send': blocking})
    fails = []
    got, got_back = [], []
    old = sys.getswitchinterval()
    sys.setswitchinterval(1e-5)
    try:
        net.A.start(); net.B.start()
        exc = []

        def sender(t):
            r = random.Random(rng.random())
            for k, p in enumerate(lists[t]):
                net.tag.v = (t, k)
                try:
                    if blocking:
                        net.A.send(p, send_timeout=10)
                    else:
                        net.A.send(p)
                except BaseException as e:
                    exc.append('%s in send of thread %d' % (type(e).__name__, t))
                nap(r, 0.5)

        def back_sender():
            for p in back:
                net.B.send(p)
                nap(rng, 0.5)

        def noise():
            for _ in range(rng.randint(0, 12)):
                net.noise()
                nap(rng, 0.8)
        ths = [threading.Thread(target=sender, args=(t,), daemon=True) for t in range(nthreads)]
        ths += [threading.Thread(target=back_sender, daemon=True), threading.Thread(target=noise, daemon=True)]
        for th in ths:
            th.start()
        deadline = time.time() + 20
        while len(got) < total and time.time() < deadline:
            x = net.B.recv(block=True, timeout=0.2)
            if x is not None:
                got.append(bytes(x))
        while len(got_back) < len(back) and time.time() < deadline:
            x = net.A.recv(block=True, timeout=0.2)
            if x is not None:
                got_back.append(bytes(x))
        for th in ths:
            th.join(5)
        time.sleep(0.02)
        extra = net.B.recv()
        if extra is not None:
            got.append(bytes(extra))
        if exc:
            fails.append(('C13:send-raised', exc[0]))
    finally:
        sys.setswitchinterval(old)
        net.close()
    left = [t for t in threading.enumerate() if t not in baseline and t.is_alive() and 'can.notifier' not in t.name]
    order = [o for o in net.order if o is not None]
    part.hist('transport', '%s/fd=%d/%s' % (transport, int(fd), 'blocking' if blocking else 'nonblocking'))
    part.hist('threads', nthreads)
    part.hist('interleaving', 'switches=%d' % sum(1 for x, y in zip(order, order[1:]) if x[0] != y[0]))
    flat = {(t, k): p for t, l in enumerate(lists) for k, p in enumerate(l)}
    tags = [(p[0], p[1]) if len(p) >= 2 else None for p in got]
    case = {'transport': transport, 'fd': fd, 'read_timeout': rt, 'threads': nthreads, 'blocking': blocking,
            'lens': [[len(p) for p in l] for l in lists], 'order': order, 'delivered_tags': tags}
    if not fails:
        if sorted(got) != sorted(flat.values()):
            miss = [k for k, p in flat.items() if p not in got]
            dup = len(got) - len(set(got))
            fails.append(('C13:not-exactly-once', 'sent %d payloads, peer delivered %d (missing %s, duplicates %d, modified %d)' % (
                total, len(got), miss[:4], dup, sum(1 for p in got if p not in flat.values()))))
        else:
            for t in range(nthreads):
                seq = [k for (tt, k) in tags if tt == t]
                if seq != sorted(seq):
                    fails.append(('C13:per-thread-order', 'thread %d payloads delivered in order %s' % (t, seq)))
                    break
        if not fails and got_back != back:
            fails.append(('C13:reverse-direction', 'reverse traffic: delivered %d of %d' % (len(got_back), len(back))))
        if not fails and (net.errors[0] or net.errors[1]):
            fails.append(('C13:error-reported', 'errors A=%s B=%s' % (net.errors[0][:3], net.errors[1][:3])))
        if not fails and left:
            fails.append(('C13:thread-leak', 'threads alive after stop(): %s' % [t.name for t in left][:4]))
    part.distinct(case)
    part.sample(case)
    if fails:
        part.violation('oracle', campaign, fails[0][0], fails[0][1], case)
        return
    # model: merge of the per-thread lists under the observed schedule = delivered order
    counts = ','.join(str(len(l)) for l in lists)
    sched = ','.join(str(t) for (t, k) in order) or '-'
    m.p.stdin.write('M %s %s\n' % (counts, sched))
    m.p.stdin.flush()
    mo = m.p.stdout.readline().split()
    part.d['traces_validated'] += 1
    if mo != ['%d:%d' % tk for tk in tags]:
        part.violation('correspondence', campaign, 'corr:merge', 'delivered order %s, Coq run_sched for the observed schedule %s' % (tags[:12], mo[:12]),
                       case, {'theorem_or_correspondence': THEOREMS + '.C13_per_thread / Model.Threaded.run_sched'})


def duplex_run(part, rng, campaign):
    """both peers stream long payloads at the same time: nobody may starve its own reception"""
    part.d['evaluations'] += 1
    n = rng.choice([420, 490])
    # 60-70 Consecutive Frames at stmin 20 ms: each side streams for more than the 1 s protocol timeouts while it is receiving;
    # read_timeout stays well below the timeouts (a worker blocked in a long read cannot pace its own frames - documented limit)
    net = Net(rng, 'queue-blocking', False, rng.choice([0.005, 0.02, 0.05]),
              params_a={'stmin': 20, 'rx_flowcontrol_timeout': 1000, 'rx_consecutive_frame_timeout': 1000, 'blocksize': rng.choice([1, 2, 8])},
              params_b={'stmin': 20, 'rx_flowcontrol_timeout': 1000, 'rx_consecutive_frame_timeout': 1000})
    fails = []
    try:
        net.A.start(); net.B.start()
        pa, pb = payload_for(1, 0, n), payload_for(2, 0, n)
        net.tag.v = (0, 0)
        net.A.send(pa)
        time.sleep(rng.choice([0, 0.03, 0.1]))
        net.B.send(pb)
        ga = net.A.recv(block=True, timeout=12)
        gb = net.B.recv(block=True, timeout=12)
        if ga != pb or gb != pa:
            fails.append(('C13:not-exactly-once', 'simultaneous %d-byte transfers: A got %s, B got %s; errors A=%s B=%s' % (
                n, None if ga is None else len(ga), None if gb is None else len(gb), net.errors[0][:3], net.errors[1][:3])))
        elif net.errors[0] or net.errors[1]:
            fails.append(('C13:error-reported', 'errors A=%s B=%s' % (net.errors[0][:3], net.errors[1][:3])))
    finally:
        net.close()
    part.hist('duplex', 'n=%d' % n)
    if fails:
        part.violation('oracle', campaign, fails[0][0], fails[0][1], {'campaign': 'duplex', 'n': n})


def noisy_bus_run(part, rng, campaign, rounds):
    """continuous unrelated bus traffic (one foreign frame every 0.2 ms, far faster than read_timeout): the worker's blocking read
    always has a frame to return, only the wake-up marker of send() makes it look at the transmit queue - every send must still
    reach the peer promptly"""
    part.d['evaluations'] += 1
    net = Net(rng, 'queue-blocking', False, 0.05)
    stop = threading.Event()

    def noise():
        while not stop.is_set():
            net.noise()
            time.sleep(0.0002)
    fails = []
    worst = 0.0
    try:
        net.A.start(); net.B.start()
        tn = threading.Thread(target=noise, daemon=True)
        tn.start()
        for k in range(rounds):
            t0 = time.time()
            pay = bytes([k & 0xFF, 1, 2, 3])
            net.tag.v = (0, k)
            net.A.send(pay)
            d = net.B.recv(block=True, timeout=2.0)
            worst = max(worst, time.time() - t0)
            if d is None or bytes(d) != pay:
                fails.append(('C13:send-starved-by-bus-traffic', 'send %d of %d under continuous unrelated bus traffic did not reach the peer within 2 s '
                              '(got %s; slowest delivery before: %.3f s; errors A=%s B=%s)' % (k, rounds, None if d is None else bytes(d).hex(), worst, net.errors[0][:3], net.errors[1][:3])))
                break
            time.sleep(rng.random() * 0.001)
    finally:
        stop.set()
        time.sleep(0.02)
        net.close()
    part.hist('noisy_bus', 'worst<%s' % ('10ms' if worst < 0.01 else '100ms' if worst < 0.1 else '2s'))
    if fails:
        part.violation('oracle', campaign, fails[0][0], fails[0][1], {'campaign': 'noisy_bus', 'rounds': rounds})


def run_shard(campaign, shard, nshards, seed, tier):
    if campaign == 'api':
        import apiuse
        return apiuse.run_api('C13', shard, nshards, seed, tier)
    part = Part()
    rng = random.Random('%s/%s/%s' % (seed, campaign, shard))
    quick = tier != 'thorough'
    m = lc.model()
    if campaign == 'logic':
        for _ in range((400 if quick else 20000) // nshards + 1):
            case = k1_fuzz.gen_case(rng)
            lc.run_case(part, campaign, case, theorem='Model.Layer.process (one iteration of the worker loop) vs TransportLayerLogic.process')
    elif campaign == 'duplex':
        for _ in range((16 if quick else 160) // nshards):
            duplex_run(part, rng, campaign)
    elif campaign == 'noisy_bus':
        for _ in range(1 if quick else 5):
            noisy_bus_run(part, rng, campaign, 150)
    else:
        for _ in range((40 if quick else 1200) // nshards + 1):
            threaded_run(part, m, rng, campaign, campaign)
    return part.result()


def run(ctx):
    run_sharded(ctx, 'C13', 'logic', nshards=16)
    for t in ('queue-blocking', 'queue-legacy', 'canstack', 'notifier'):
        run_sharded(ctx, 'C13', t, nshards=8)
    run_sharded(ctx, 'C13', 'duplex', nshards=16)
    run_sharded(ctx, 'C13', 'noisy_bus', nshards=4)
    run_sharded(ctx, 'C13', 'api', nshards=2)
    import apiuse
    return RULE + apiuse.rule_text('C13'), ASSUME
