"""C16 - configuration is validated up front; accepted configurations never crash (campaign K5)."""
import math
import random
import itertools
from fractions import Fraction
from core import *
from gen import *
from runner import Part, run_sharded
import lc
import vclock  # noqa: F401,E402  (clock trampolines go in before the library binds anything)
import isotp
import k1_fuzz
import time

THEOREMS = 'IsoTp.Props.C16'
RULE = ('(address) Address(...) with each of the 5 value parameters in {absent, 0, max, max+1, -1, float, str} x 7 modes x {full, tx_only, '
        'rx_only, both}: pairwise-exhaustive + random (quick) / the full product (thorough); AsymmetricAddress with wrong kinds; compared '
        'with an independent validity predicate written from addressing.rst and with the extracted Coq validation (proved equivalent to the '
        'Spec, C16_address_iff) on the integer-or-None subset; only ValueError may be raised; identifiers in and around the ranges the layer warns about (0x7F4-0x7F6, 0x7FA-0x7FB), as txid and as rxid, make a working layer. (params) each key in {absent, valid, boundary, '
        'invalid value, wrong type}: all pairs + the triple tx_data_length x rate_limit_max_bitrate x rate_limit_window_size swept around the one-frame-per-window boundary for every link-layer size (with can_fd / rate_limit_enable absent, on, off) + random dictionaries, compared with a reference predicate written from the parameter '
        'documentation and with the extracted Coq Params.validate (C16_params_iff). (run) every accepted configuration is driven with '
        'payloads and random traffic: no exception may escape process(), send() raises at most ValueError.'
        ' (set_address) sequences of set_address() with fully defined, partial and non-address arguments on a live layer: accepted exactly for fully defined addresses, a refused one leaves the layer working on the last accepted address, no other exception escapes.'
        ' (set) sequences of up to 7 params.set(key, value) on a live layer, continued after a refusal (set() assigns before it validates, so the refused value stays and every later call is judged on the whole attribute state); wait_func takes part with good, raising, wrong-arity and non-callable values; one call in seven is the two-step form set(key, value, validate=False) + load_params().')
ASSUME = ['bool is not generated where an int is documented; unknown keys and non-int physical_id / functional_id are outside the quantifier; '
          'rate-limit products beyond 2^1023 are not generated']

BYTE_VALS = [None, 0, 255, 256, -1, 1.5, 'x']


def id_vals(mode):
    mx = 0x1FFFFFFF if '29' in mode else 0x7FF
    return [None, 0, mx, mx + 1 if '29' not in mode else 0x3FFFFFFF, -1, 1.5, 'x', 0x123]


def addr_expected(mode, kw, rx_only, tx_only):
    """reference validity from addressing.rst (required parameters table + ranges). True = accepted."""
    if rx_only and tx_only:
        return False
    is29 = '29' in mode
    g = lambda k: kw.get(k)
    need_tx, need_rx = not rx_only, not tx_only
    if mode in ('Normal_11bits', 'Normal_29bits'):
        if (need_rx and g('rxid') is None) or (need_tx and g('txid') is None) or g('rxid') == g('txid'):
            return False
    elif mode == 'NormalFixed_29bits':
        if g('target_address') is None or g('source_address') is None:
            return False
    elif mode in ('Extended_11bits', 'Extended_29bits'):
        if need_tx and (g('target_address') is None or g('txid') is None):
            return False
        if need_rx and (g('source_address') is None or g('rxid') is None):
            return False
        if g('rxid') == g('txid'):
            return False
    elif mode == 'Mixed_11bits':
        if g('address_extension') is None or (need_rx and g('rxid') is None) or (need_tx and g('txid') is None) or g('rxid') == g('txid'):
            return False
    elif mode == 'Mixed_29bits':
        if g('target_address') is None or g('source_address') is None or g('address_extension') is None:
            return False
    for k in ('target_address', 'source_address', 'address_extension'):
        v = g(k)
        if v is not None and (not isinstance(v, int) or not 0 <= v <= 255):
            return False
    for k in ('txid', 'rxid'):
        v = g(k)
        if v is not None:
            if not isinstance(v, int) or v < 0 or (not is29 and v > 0x7FF):
                return False
    return True


def try_address(mode, kw, rx_only, tx_only):
    try:
        isotp.Address(isotp.AddressingMode[mode], rx_only=rx_only, tx_only=tx_only, **kw)
        return 'ok'
    except ValueError:
        return 'valueerror'
    except Exception as e:
        return 'other:' + type(e).__name__


def check_address(part, m, mode, kw, rx_only, tx_only, campaign):
    part.d['evaluations'] += 1
    got = try_address(mode, kw, rx_only, tx_only)
    exp = 'ok' if addr_expected(mode, kw, rx_only, tx_only) else 'valueerror'
    part.hist('address', '%s/%s' % (mode, got))
    case = {'mode': mode, 'kwargs': {k: str(v) for k, v in kw.items()}, 'rx_only': rx_only, 'tx_only': tx_only}
    if got != exp:
        sig = 'C16:invalid-address-accepted' if got == 'ok' else ('C16:valid-address-rejected' if got == 'valueerror' else 'C16:wrong-exception-class')
        part.violation('oracle', campaign, sig, 'Address(%s, %s, rx_only=%s, tx_only=%s): %s, documentation says %s' % (mode, case['kwargs'], rx_only, tx_only, got, exp), case)
        return
    if all(v is None or (isinstance(v, int) and not isinstance(v, bool)) for v in kw.values()):
        a = dict(kw, mode=mode, rx_only=rx_only, tx_only=tx_only)
        mo = m.query('validate ' + addr_fields(a))
        part.d['traces_validated'] += 1
        if (mo == '1') != (got == 'ok'):
            part.violation('correspondence', campaign, 'corr:address', 'implementation %s, Coq addr_validate %s' % (got, mo), case,
                           {'theorem_or_correspondence': THEOREMS + '.C16_address_iff'})
    part.distinct(case)


# ---------------------------------------------------------------- params
PKEYS = ['stmin', 'blocksize', 'override_receiver_stmin', 'rx_flowcontrol_timeout', 'rx_consecutive_frame_timeout', 'tx_padding', 'wftmax',
         'tx_data_length', 'tx_data_min_length', 'max_frame_size', 'can_fd', 'bitrate_switch', 'default_target_address_type',
         'rate_limit_max_bitrate', 'rate_limit_window_size', 'rate_limit_enable', 'listen_mode', 'blocking_send']
DEFAULTS = dict(stmin=0, blocksize=8, override_receiver_stmin=None, rx_flowcontrol_timeout=1000, rx_consecutive_frame_timeout=1000, tx_padding=None,
                wftmax=0, tx_data_length=8, tx_data_min_length=None, max_frame_size=4095, can_fd=False, bitrate_switch=False,
                default_target_address_type=0, rate_limit_max_bitrate=100000000, rate_limit_window_size=0.25, rate_limit_enable=False,
                listen_mode=False, blocking_send=False)
PVALS = {
    'stmin': [0, 255, 256, -1, 1.5, 'x', None, 0x7F],
    'blocksize': [0, 255, 256, -1, 1.5, 'x', None],
    'override_receiver_stmin': [None, 0, 0.5, 3, -1, -0.5, float('inf'), float('nan'), 'x', True],
    'rx_flowcontrol_timeout': [0, 1, 10000, -1, 1.5, 'x', None],
    'rx_consecutive_frame_timeout': [0, 1, 10000, -1, 1.5, 'x', None],
    'tx_padding': [None, 0, 255, 256, -1, 1.5, 'x'],
    'wftmax': [0, 1, 1000, -1, 1.5, 'x', None],
    'tx_data_length': [8, 12, 16, 20, 24, 32, 48, 64, 7, 9, 0, 65, -8, 8.0, 'x', None],
    'tx_data_min_length': [None, 1, 7, 8, 12, 16, 64, 0, 9, 65, -1, 1.5, 'x'],
    'max_frame_size': [0, 1, 4095, 10**6, -1, 1.5, 'x', None],
    'can_fd': [False, True, 0, 1, 'x', None],
    'bitrate_switch': [False, True, 0, 'x', None],
    'default_target_address_type': [0, 1, 2, -1, 'x', None, 1.0],
    'rate_limit_max_bitrate': [100000000, 1, 64, 65, 0, -1, 1.5, 'x', None],
    'rate_limit_window_size': [0.25, 1, 1.0, 2.0, 0.5, 0, 0.0, -1, -0.5, float('inf'), float('nan'), 'x', None],
    'rate_limit_enable': [False, True, 0, 1, 'x', None],
    'listen_mode': [False, True, 0, 'x', None],
    'blocking_send': [False, True, 0, 'x', None],
}
LLS = [8, 12, 16, 20, 24, 32, 48, 64]
MLS = [1, 2, 3, 4, 5, 6, 7, 8, 12, 16, 20, 24, 32, 48, 64]


def isint(v):
    return isinstance(v, int) and not isinstance(v, bool)


def params_expected(d):
    """reference validity from the parameter documentation (implementation.rst). True = accepted."""
    for k in ('rx_flowcontrol_timeout', 'rx_consecutive_frame_timeout', 'wftmax', 'max_frame_size'):
        if not isint(d[k]) or d[k] < 0:
            return False
    for k in ('stmin', 'blocksize'):
        if not isint(d[k]) or not 0 <= d[k] <= 255:
            return False
    if d['tx_padding'] is not None and (not isint(d['tx_padding']) or not 0 <= d['tx_padding'] <= 255):
        return False
    ov = d['override_receiver_stmin']
    if ov is not None:
        if isinstance(ov, bool) or not isinstance(ov, (int, float)) or not math.isfinite(ov) or ov < 0:
            return False
    if not isint(d['tx_data_length']) or d['tx_data_length'] not in LLS:
        return False
    ml = d['tx_data_min_length']
    if ml is not None and (not isint(ml) or ml not in MLS or ml > d['tx_data_length']):
        return False
    for k in ('can_fd', 'bitrate_switch', 'rate_limit_enable', 'listen_mode', 'blocking_send'):
        if not isinstance(d[k], bool):
            return False
    if not isint(d['default_target_address_type']) or d['default_target_address_type'] not in (0, 1):
        return False
    if not isint(d['rate_limit_max_bitrate']) or d['rate_limit_max_bitrate'] <= 0:
        return False
    w = d['rate_limit_window_size']
    if isinstance(w, bool) or not isinstance(w, (int, float)) or not math.isfinite(w) or w <= 0:
        return False
    if Fraction(d['rate_limit_max_bitrate']) * Fraction(w) < d['tx_data_length'] * 8:
        return False
    return True


def pv_tok(v):
    if v is None:
        return 'none'
    if isinstance(v, bool):
        return 'b:%d' % int(v)
    if isinstance(v, int):
        return 'i:%d' % v
    if isinstance(v, float):
        if not math.isfinite(v):
            return 'nan'
        f = Fraction(v)
        return 'f:%d/%d' % (f.numerator, f.denominator)
    if isinstance(v, str):
        return 'str'
    return 'obj'


ADDR = None
ADDRS = []


def addrs():
    global ADDR
    if not ADDRS:
        M = isotp.AddressingMode
        ADDRS.extend([isotp.Address(M.Normal_11bits, txid=0x123, rxid=0x456),
                      isotp.Address(M.Extended_11bits, txid=0x123, rxid=0x456, target_address=0x55, source_address=0xAA),
                      isotp.Address(M.Mixed_29bits, target_address=0x55, source_address=0xAA, address_extension=0x99),
                      isotp.Address(M.NormalFixed_29bits, target_address=0x55, source_address=0xAA)])
        ADDR = ADDRS[0]
    return ADDRS


def try_params(d):
    addrs()
    try:
        l = isotp.TransportLayerLogic(rxfn=lambda: None, txfn=lambda m: None, address=ADDR, params=d)
        return 'ok', l
    except ValueError:
        return 'valueerror', None
    except Exception as e:
        return 'other:' + type(e).__name__, None


def check_params(part, m, over, campaign, rng, drive=True):
    part.d['evaluations'] += 1
    d = dict(DEFAULTS)
    d.update(over)
    got, layer = try_params(dict(over))
    has_bool_as_int = any(isinstance(d[k], bool) for k in PKEYS if k not in ('can_fd', 'bitrate_switch', 'rate_limit_enable', 'listen_mode', 'blocking_send', 'override_receiver_stmin', 'rate_limit_window_size'))
    exp = 'ok' if params_expected(d) else 'valueerror'
    case = {'params': {k: repr(v) for k, v in over.items()}}
    part.hist('params', got)
    if got != exp and not has_bool_as_int:
        sig = 'C16:invalid-params-accepted' if got == 'ok' else ('C16:valid-params-rejected' if got == 'valueerror' else 'C16:wrong-exception-class')
        part.violation('oracle', campaign, sig, 'params %s: %s, documentation says %s' % (case['params'], got, exp), case)
        return
    m.p.stdin.write('V ' + ' '.join(pv_tok(d[k]) for k in PKEYS) + '\n'); m.p.stdin.flush()
    mo = m.p.stdout.readline().strip()
    part.d['traces_validated'] += 1
    if (mo == '1') != (got == 'ok'):
        part.violation('correspondence', campaign, 'corr:params', 'implementation %s, Coq Params.validate %s' % (got, mo), case,
                       {'theorem_or_correspondence': THEOREMS + '.C16_params_iff'})
        return
    part.distinct(case)
    if got == 'ok' and drive:
        # accepted: it must run without an exception escaping
        clock = VClock().install()
        try:
            inbox = []
            out = []
            a = rng.choice(addrs())
            rxid = a.get_rx_arbitration_id()
            pre = bytes([0xAA]) if a.requires_rx_extension_byte() and a.get_rx_extension_byte() == 0xAA else (bytes([0x99]) if a.requires_rx_extension_byte() else b'')
            drive_params = dict(over)
            if drive_params.get('blocking_send') is True:
                drive_params['blocking_send'] = False       # blocking send() needs the worker thread of TransportLayer (C12/C13), not the bare logic
            layer = isotp.TransportLayerLogic(rxfn=lambda: inbox.pop(0) if inbox else None, txfn=out.append, address=a, params=drive_params)
            for n in (1, 6, 7, 8, 60, 300, 5000):
                try:
                    layer.send(bytes(n))
                except ValueError:
                    pass
                layer.process()
                inbox.append(isotp.CanMessage(arbitration_id=rxid, data=pre + bytes([0x30, 0, 0]), extended_id=a.is_rx_29bits()))
                for _ in range(3):
                    clock.tick(rng.choice([0, 10**6, 3 * 10**8, 2 * 10**9]))
                    inbox.append(isotp.CanMessage(arbitration_id=rxid, data=pre + rand_garbage(rng), extended_id=a.is_rx_29bits()))
                    layer.process()
        except Exception as e:
            part.violation('oracle', campaign, 'C16:accepted-config-crashes', 'accepted params %s then %s: %s' % (case['params'], type(e).__name__, e), case)
        finally:
            clock.uninstall()
    part.sample(case)


def run_shard(campaign, shard, nshards, seed, tier):
    part = Part()
    rng = random.Random('%s/%s/%s' % (seed, campaign, shard))
    quick = tier != 'thorough'
    m = lc.model()
    if campaign == 'address':
        keys = ['txid', 'rxid', 'target_address', 'source_address', 'address_extension']
        k = 0
        for mode in MODES:
            vals = {'txid': id_vals(mode), 'rxid': id_vals(mode), 'target_address': BYTE_VALS, 'source_address': BYTE_VALS, 'address_extension': BYTE_VALS}
            for (ro, to) in ((False, False), (True, False), (False, True), (True, True)):
                if quick:
                    combos = []
                    base_valid = {'txid': 0x100, 'rxid': 0x200, 'target_address': 1, 'source_address': 2, 'address_extension': 3}
                    for a, b in itertools.combinations(keys, 2):
                        for va in vals[a]:
                            for vb in vals[b]:
                                kw = dict(base_valid)
                                kw[a], kw[b] = va, vb
                                combos.append(kw)
                    for _ in range(150):
                        combos.append({x: rng.choice(vals[x]) for x in keys})
                else:
                    combos = [dict(zip(keys, vs)) for vs in itertools.product(*(vals[x] for x in keys))]
                for kw in combos:
                    k += 1
                    if quick and k % 4:
                        continue
                    if (k // 4) % nshards != shard:
                        continue
                    check_address(part, m, mode, {x: v for x, v in kw.items() if v is not None}, ro, to, campaign)
        # identifiers in and around the ranges reserved by ISO 15765-4 (0x7F4-0x7F6, 0x7FA-0x7FB) are accepted - the layer only warns
        # about them: constructing a layer with such an address, and set_address(), must work
        if shard == 0:
            M = isotp.AddressingMode
            for rid_ in range(0x7F2, 0x7FE):
                for as_tx in (False, True):
                    for mk_ in (lambda t_, r_: isotp.Address(M.Normal_11bits, txid=t_, rxid=r_),
                                lambda t_, r_: isotp.Address(M.Extended_11bits, txid=t_, rxid=r_, target_address=1, source_address=2),
                                lambda t_, r_: isotp.Address(M.Mixed_11bits, txid=t_, rxid=r_, address_extension=3),
                                lambda t_, r_: isotp.AsymmetricAddress(tx_addr=isotp.Address(M.Normal_11bits, txid=t_, tx_only=True),
                                                                       rx_addr=isotp.Address(M.Normal_11bits, rxid=r_, rx_only=True))):
                        part.d['evaluations'] += 1
                        t_, r_ = (rid_, 0x123) if as_tx else (0x123, rid_)
                        try:
                            addr_ = mk_(t_, r_)
                            layer_ = isotp.TransportLayerLogic(rxfn=lambda: None, txfn=lambda m_: None, address=addr_, params={})
                            layer_.set_address(addr_)
                            layer_.send(bytes([1, 2, 3])); layer_.process()
                            got_ = 'ok'
                        except Exception as e:
                            got_ = type(e).__name__
                        part.hist('reserved_ids', got_)
                        if got_ != 'ok':
                            part.violation('oracle', campaign, 'C16:accepted-configuration-crashes', 'an address with txid 0x%x / rxid 0x%x (accepted by the constructor) makes '
                                           'TransportLayerLogic(...) / set_address() / send() raise %s' % (t_, r_, got_), {'txid': t_, 'rxid': r_})
        # AsymmetricAddress kinds
        t = isotp.Address(isotp.AddressingMode.Normal_11bits, txid=1, tx_only=True)
        r = isotp.Address(isotp.AddressingMode.Normal_11bits, rxid=2, rx_only=True)
        f = isotp.Address(isotp.AddressingMode.Normal_11bits, txid=1, rxid=2)
        for (x, y, ok) in ((t, r, True), (r, t, False), (f, r, False), (t, f, False), (t, t, False), ('x', r, False), (t, None, False)):
            part.d['evaluations'] += 1
            try:
                isotp.AsymmetricAddress(tx_addr=x, rx_addr=y)
                got = True
            except ValueError:
                got = False
            except Exception as e:
                got = 'other:' + type(e).__name__
            if got != ok:
                part.violation('oracle', campaign, 'C16:asymmetric-address', 'AsymmetricAddress kinds: got %s expected %s' % (got, ok), {'case': str((x, y))})
    elif campaign == 'params':
        k = 0
        pairs = list(itertools.combinations(PKEYS, 2))
        for a, b in pairs:
            for va in PVALS[a]:
                for vb in PVALS[b]:
                    k += 1
                    if quick and k % 8:
                        continue
                    if (k // 8) % nshards != shard:
                        continue
                    over = {}
                    if va is not None or a in ('override_receiver_stmin', 'tx_padding', 'tx_data_min_length'):
                        over[a] = va
                    if vb is not None or b in ('override_receiver_stmin', 'tx_padding', 'tx_data_min_length'):
                        over[b] = vb
                    if (va is None and a not in over) or (vb is None and b not in over):
                        # None for a key whose documentation has no None: pass it explicitly (wrong type)
                        if va is None:
                            over[a] = None
                        if vb is None:
                            over[b] = None
                    check_params(part, m, over, campaign, rng, drive=(k % 5 == 0))
        # the one constraint that relates three parameters: a window of the rate limiter must carry one frame of tx_data_length bytes
        # (whatever can_fd and rate_limit_enable say) - swept around the boundary for every link-layer size
        k = 0
        for tdl in LLS:
            for br in (1, 63, 64, 65, tdl * 8 - 1, tdl * 8, tdl * 8 + 1, tdl * 4 - 1, tdl * 4, tdl * 16, tdl * 32 - 1, tdl * 32):
                for w in (0.25, 0.5, 1, 1.0, 2.0):
                    for fd in (None, True, False):
                        for en in (None, True):
                            k += 1
                            if k % nshards != shard:
                                continue
                            over = {'tx_data_length': tdl, 'rate_limit_max_bitrate': br, 'rate_limit_window_size': w}
                            if fd is not None:
                                over['can_fd'] = fd
                            if en is not None:
                                over['rate_limit_enable'] = en
                            check_params(part, m, over, campaign, rng, drive=(k % 50 == 0))
        for _ in range((300 if quick else 20000) // nshards + 1):
            over = {x: rng.choice(PVALS[x]) for x in PKEYS if rng.random() < 0.3}
            # mostly valid dictionaries with one or two deviations
            for x in list(over):
                if rng.random() < 0.6:
                    over[x] = PVALS[x][0]
            check_params(part, m, over, campaign, rng)
    elif campaign == 'set':
        # Params.set(key, value) on a live layer: set() assigns, then validates the whole parameter state - a value that was refused
        # stays assigned, so every later set() is refused as well until the offending key is given a valid value again.  The verdict of
        # every call is compared with the reference predicate on the resulting attribute state and with the Coq validate.  wait_func
        # (a callable probed with one call; not part of the Coq model) takes part with a good, a raising, a wrong-arity and a
        # non-callable value.
        addrs()

        def wf_raise(d):
            raise RuntimeError('no')
        WF = [('good', lambda d: None), ('good', time.sleep), ('bad', wf_raise), ('bad', lambda: None), ('bad', 5)]
        for _ in range((2400 if quick else 40000) // nshards + 1):
            layer = isotp.TransportLayerLogic(rxfn=lambda: None, txfn=lambda m: None, address=ADDR, params={})
            hist = []
            cur = dict(DEFAULTS)
            wf = 'good'
            for _ in range(rng.randint(1, 7)):
                if rng.random() < 0.12:
                    k = 'wait_func'
                    kind, v = rng.choice(WF)
                    hist.append((k, kind + ':' + getattr(v, '__name__', repr(v))))
                    nxt, nwf = dict(cur), kind
                else:
                    k = rng.choice(PKEYS)
                    v = rng.choice(PVALS[k]) if rng.random() < 0.5 else PVALS[k][rng.randrange(0, min(3, len(PVALS[k])))]
                    hist.append((k, repr(v)))
                    nxt, nwf = dict(cur), wf
                    nxt[k] = v
                part.d['evaluations'] += 1
                if any(isinstance(nxt[x], bool) for x in PKEYS if x not in ('can_fd', 'bitrate_switch', 'rate_limit_enable', 'listen_mode', 'blocking_send', 'override_receiver_stmin', 'rate_limit_window_size')):
                    break
                staged = rng.random() < 0.15
                try:
                    if staged:
                        # the two-step form: stage the value without validation, then load_params() validates the whole state
                        layer.params.set(k, v, validate=False)
                        layer.load_params()
                        hist[-1] = hist[-1] + ('validate=False + load_params()',)
                    else:
                        layer.params.set(k, v)
                    got = 'ok'
                except ValueError:
                    got = 'valueerror'
                except Exception as e:
                    got = 'other:' + type(e).__name__
                exp = 'ok' if (params_expected(nxt) and nwf == 'good') else 'valueerror'
                part.hist('set', got)
                case = {'set_history': hist}
                if got != exp:
                    sig = 'C16:invalid-params-accepted' if got == 'ok' else ('C16:valid-params-rejected' if got == 'valueerror' else 'C16:wrong-exception-class')
                    part.violation('oracle', campaign, sig, 'params.set history %s: %s, documentation says %s' % (hist, got, exp), case)
                    break
                m.p.stdin.write('V ' + ' '.join(pv_tok(nxt[x]) for x in PKEYS) + '\n'); m.p.stdin.flush()
                mo = m.p.stdout.readline().strip()
                part.d['traces_validated'] += 1
                if ((mo == '1') and nwf == 'good') != (got == 'ok'):
                    part.violation('correspondence', campaign, 'corr:params', 'implementation %s, Coq Params.validate %s (wait_func %s)' % (got, mo, nwf), case,
                                   {'theorem_or_correspondence': THEOREMS + '.C16_params_iff'})
                    break
                cur, wf = nxt, nwf       # refused or not, the value is assigned
            part.distinct({'h': hist})
    elif campaign == 'set_address':
        # set_address() on a live layer: accepted exactly for fully defined addresses (documented ValueError otherwise), and whatever
        # was refused leaves the layer working with the address accepted last - no other exception ever escapes a public call
        M = isotp.AddressingMode
        full = [lambda: isotp.Address(M.Normal_11bits, txid=0x123, rxid=0x456),
                lambda: isotp.Address(M.Extended_29bits, txid=0x1234, rxid=0x4567, target_address=0x55, source_address=0xAA),
                lambda: isotp.Address(M.Mixed_29bits, target_address=0x55, source_address=0xAA, address_extension=0x99),
                lambda: isotp.AsymmetricAddress(tx_addr=isotp.Address(M.Normal_11bits, txid=0x321, tx_only=True),
                                                rx_addr=isotp.Address(M.NormalFixed_29bits, target_address=1, source_address=2, rx_only=True))]
        bad = [lambda: isotp.Address(M.Normal_11bits, txid=0x123, tx_only=True), lambda: isotp.Address(M.Normal_11bits, rxid=0x123, rx_only=True),
               lambda: isotp.Address(M.Extended_11bits, rxid=0x12, source_address=3, rx_only=True), lambda: None, lambda: 'address', lambda: 0x123]
        for _ in range((300 if quick else 10000) // nshards + 1):
            sent = []
            inbox = []
            errs = []
            cur = rng.choice(full)()
            layer = isotp.TransportLayerLogic(rxfn=lambda: inbox.pop(0) if inbox else None, txfn=sent.append, address=cur,
                                              error_handler=errs.append, params={})
            hist = []
            for step in range(rng.randint(1, 5)):
                isbad = rng.random() < 0.5
                cand = rng.choice(bad if isbad else full)()
                hist.append(('bad' if isbad else 'full', repr(cand)[:60]))
                part.d['evaluations'] += 1
                try:
                    layer.set_address(cand)
                    got = 'ok'
                except ValueError:
                    got = 'valueerror'
                except Exception as e:
                    got = 'other:' + type(e).__name__
                part.hist('set_address', ('bad' if isbad else 'full') + '/' + got)
                if got != ('valueerror' if isbad else 'ok'):
                    part.violation('oracle', campaign, 'C16:set_address-decision', 'set_address history %s: %s' % (hist, got), {'set_address_history': hist})
                    break
                if got == 'ok':
                    cur = cand
                # the layer must go on working with [cur]: receive a frame addressed to it, answer, send
                try:
                    rxid = cur.get_rx_arbitration_id(isotp.TargetAddressType.Physical)
                    pre = bytes([cur.get_rx_extension_byte()]) if cur.requires_rx_extension_byte() else b''
                    inbox.append(isotp.CanMessage(arbitration_id=rxid, data=pre + bytes([0x10, 20, 1, 2, 3, 4, 5]), extended_id=cur.is_rx_29bits()))
                    n0 = len(sent)
                    layer.process()
                    layer.send(bytes([1, 2, 3]), isotp.TargetAddressType.Functional)
                    layer.process()
                    layer.stop_receiving()
                    ids = [m_.arbitration_id for m_ in sent[n0:]]
                    want = [cur.get_tx_arbitration_id(isotp.TargetAddressType.Physical), cur.get_tx_arbitration_id(isotp.TargetAddressType.Functional)]
                    if ids != want:
                        part.violation('oracle', campaign, 'C16:layer-not-on-accepted-address', 'after %s the layer emitted identifiers %s, the accepted address says %s' % (
                            hist, ids, want), {'set_address_history': hist})
                        break
                except Exception as e:
                    part.violation('oracle', campaign, 'C16:exception-after-set_address', 'after set_address history %s a public call raised %s: %s' % (
                        hist, type(e).__name__, str(e)[:100]), {'set_address_history': hist})
                    break
            part.distinct({'h': hist})
    return part.result()


def run(ctx):
    run_sharded(ctx, 'C16', 'address')
    run_sharded(ctx, 'C16', 'params')
    run_sharded(ctx, 'C16', 'set')
    run_sharded(ctx, 'C16', 'set_address')
    ctx.exhaustive['address: all pairs of parameter values (quick, every 4th) / full product (thorough); params: all pairs of key values (quick: every 8th)'] = not ctx.quick
    return RULE, ASSUME
