"""C01 - lossless, ordered, exactly-once transfer between two peers (campaign K4)."""
import random
import os
from core import *
from gen import *
from runner import Part, run_sharded
from peers import PeerRun
import lc
import joint
from runner import ddmin_ops

THEOREMS = 'IsoTp.Props.C01'
RULE = ('two real layers with mirrored (symmetric or asymmetric) random addresses joined by FIFO links; message lists of 1-4 payloads '
        'with lengths at every SF/FF/CF boundary of the sender configuration, the 4095/4096 boundary and large sizes (a few beyond 64 KiB); random '
        'tx_data_length/min_length/padding/blocksize/stmin on both sides; schedules from one-frame-per-call to whole-queue-per-call with '
        'virtual time advancing below the timeouts. Oracle: receiver recv() results == sent payloads in order, no error on either side, '
        'every request completed successfully. The recorded run is replayed on the extracted Coq model and every line compared. '
        'non-trivial = distinct (configuration, message lengths, schedule) cases'
        ' (joint) random schedules of user-level calls on two real layers joined directly - sends at any moment on both sides, process() with every flag combination, ticks up to beyond the timeouts, recv() - with the conclusion of theorem C01_every_schedule as oracle (no error => deliveries are a prefix of what was accepted; at rest => all of it), every call compared with the extracted Coq joint model Joint.cstep.'
        ' In the joint campaign any reported error must come with a deadline error (conclusion of C01_only_deadline_errors_schedule).')
ASSUME = ['links are reliable FIFOs; both sides are processed before any protocol deadline (the schedule generator keeps ticks below the timeouts)']


def boundary_lengths(rng, p, plen, maxlen):
    tx_dl = p.get('tx_data_length', 8)
    ml = p.get('tx_data_min_length')
    sf_cap = (7 - plen) if tx_dl == 8 else (tx_dl - 2 - plen)
    ff_cap = tx_dl - 2 - plen
    cf_cap = tx_dl - 1 - plen
    cands = {1, 2, sf_cap - 1, sf_cap, sf_cap + 1, 7 - plen, 8 - plen, ff_cap + 1}
    for k in (1, 2, 3, 15, 16, 17):
        for d in (-1, 0, 1):
            cands.add(ff_cap + k * cf_cap + d)
    cands |= {4094, 4095, 4096, 4097, (tx_dl - 6 - plen) + 16 * cf_cap + 1}
    return sorted(x for x in cands if 1 <= x <= maxlen)


def gen_scenario(rng, tier, big=False):
    a, b = rand_inst_pair(rng)
    pa, pb = rand_params(rng), rand_params(rng)
    for p in (pa, pb):
        for k in ('listen_mode', 'default_target_address_type', 'rate_limit_enable', 'rate_limit_max_bitrate', 'rate_limit_window_size', 'wftmax'):
            p.pop(k, None)
        p['rx_flowcontrol_timeout'] = 1000
        p['rx_consecutive_frame_timeout'] = 1000
    plen = 1 if a['txa']['mode'].startswith(('Extended', 'Mixed')) else 0
    maxlen = 40000 if (big and tier == 'thorough') else (5000 if big else 300)
    lens = boundary_lengths(rng, pa, plen, maxlen)
    n = rng.randint(1, 4)
    msgs = []
    for _ in range(n):
        L = rng.choice(lens) if rng.random() < 0.8 else rng.randint(1, maxlen)
        msgs.append(bytes(rng.getrandbits(8) for _ in range(L)))
    pb['max_frame_size'] = max(max(len(m) for m in msgs), rng.choice([4095, 65535, max(len(m) for m in msgs)]))
    if big:
        pb['stmin'] = rng.choice([0, 0, 0xF1])
        pa.pop('override_receiver_stmin', None)
    sched = rng.choice(['rr', 'one', 'random', 'txonly'])
    return dict(a, params=pa), dict(b, params=pb), msgs, sched


def stmin_ns_of(b):
    return b * 10**6 if b <= 0x7F else (b - 0xF0) * 10**5


def run_transfer(rng, A, B, msgs, sched, msgs_back=None):
    """Returns (PeerRun, expected) after running to quiescence."""
    pr = PeerRun([A, B])
    for m in msgs:
        pr.send(0, hx(m))
    for m in (msgs_back or []):
        pr.send(1, hx(m))
    st = max(stmin_ns_of(B['params'].get('stmin', 0)), stmin_ns_of(A['params'].get('stmin', 0)))
    ov = A['params'].get('override_receiver_stmin')
    if ov is not None:
        st = max(st, int(ov * 1e9)) if msgs_back else int(ov * 1e9)
    tick = (st + 1) if st else 0
    steps = 0
    since = 0
    limit = 200000
    while steps < limit:
        steps += 1
        if sched == 'rr':
            for src in (0, 1):
                pr.deliver(src, len(pr.wire[src]))
            pr.proc(0); pr.proc(1)
        elif sched == 'one':
            for src in (0, 1):
                pr.deliver(src, 1)
            pr.proc(0); pr.proc(1)
        elif sched == 'txonly':
            for src in (0, 1):
                pr.deliver(src, rng.randint(0, 3))
            k = rng.randint(0, 1)
            if rng.random() < 0.4:
                pr.proc(k, 0, 1)
            else:
                pr.proc(k)
        else:
            r = rng.random()
            if r < 0.4:
                pr.deliver(rng.randint(0, 1), rng.randint(1, 4))
            else:
                pr.proc(rng.randint(0, 1))
        if tick and (sched in ('rr', 'one') or rng.random() < 0.5):
            d = rng.choice([tick, tick, tick // 2, 0]) if sched == 'random' else tick
            # "both are processed regularly": a frame needs up to four hops (flow control out, peer pass, data frame back, own
            # pass - two when a flow control sits in front of it) inside one 1000 ms deadline: never let more than 150 ms of
            # virtual time pass without three full delivery/processing rounds
            since += d
            if since > 150 * 10**6:
                for _ in range(3):
                    for src in (0, 1):
                        pr.deliver(src, len(pr.wire[src]))
                    pr.proc(0); pr.proc(1)
                since = d
            pr.tick_all(d)
        if steps % 8 == 0 and pr.quiescent():
            break
        if pr.crashed:
            break
    pr.recv_all(1)
    pr.recv_all(0)
    pr.close()
    return pr


def oracle_transfer(pr, msgs, msgs_back=None):
    fails = []
    exp = [hx(m) for m in msgs]
    if pr.crashed:
        fails.append(('C01:exception-escaped', 'an exception escaped process()/send()'))
    if pr.delivered[1] != exp:
        got = pr.delivered[1]
        fails.append(('C01:delivery-differs', 'B received %d payloads (lens %s), expected %d (lens %s)' % (
            len(got), [len(g) // 2 for g in got][:8], len(exp), [len(e) // 2 for e in exp][:8])))
    expb = [hx(m) for m in (msgs_back or [])]
    if pr.delivered[0] != expb:
        fails.append(('C01:delivery-differs', 'A received %s payloads, expected %d' % (len(pr.delivered[0]), len(expb))))
    if pr.errors[0] or pr.errors[1]:
        fails.append(('C01:error-reported', 'errors A=%s B=%s' % (pr.errors[0][:4], pr.errors[1][:4])))
    for k, n in ((0, len(msgs)), (1, len(msgs_back or []))):
        if sorted(pr.done[k]) != [(i, 1) for i in range(n)]:
            fails.append(('C01:request-outcome', 'side %d completions %s, expected %d successes' % (k, pr.done[k][:6], n)))
    return fails


def check_against_model(part, campaign, pr, fails, sample, theorem):
    """Oracle result + replay of the recorded case on the model."""
    case = pr.case
    part.d['evaluations'] += 1
    part.distinct({'i': case['insts'], 'n': len(case['ops'])})
    lc.classify_events(part, pr.lines)
    if fails:
        part.violation('oracle', campaign, fails[0][0], fails[0][1], case if len(case['ops']) < 4000 else {'insts': case['insts'], 'nops': len(case['ops'])},
                       {'sample': sample})
        return False
    ml = lc.model().run_case(case)
    part.d['traces_validated'] += 1
    d = first_diff(pr.lines, ml)
    if d is not None:
        part.violation('correspondence', campaign, 'corr:' + campaign, 'model and implementation disagree at op %d: %s' % (d, case['ops'][d]),
                       {'insts': case['insts'], 'ops': case['ops'][:d + 1]},
                       {'impl_line': pr.lines[d], 'model_line': ml[d], 'theorem_or_correspondence': theorem})
        return False
    return True



# ------------------------------------------------------------------------------------------------
# joint campaign: the statement of C01_every_schedule / C10_both_directions evaluated on two real layers joined directly, and the
# same call list on the extracted Coq joint model (Model/Joint.v cstep)
def gen_joint(rng, tier):
    a, b = rand_inst_pair(rng)
    pa, pb = rand_params(rng), rand_params(rng)
    for p in (pa, pb):
        for k in ('listen_mode', 'default_target_address_type', 'rate_limit_enable', 'rate_limit_max_bitrate', 'rate_limit_window_size'):
            p.pop(k, None)
        p['rx_flowcontrol_timeout'] = rng.choice([1000, 1000, 50])
        p['rx_consecutive_frame_timeout'] = rng.choice([1000, 1000, 50])
        p['max_frame_size'] = rng.choice([4095, 65535, 300])
        if rng.random() < 0.5:
            p['stmin'] = rng.choice([0, 0, 1, 0xF3])
        if rng.random() < 0.6:
            p['blocksize'] = rng.choice([0, 1, 2, 3, 8])
        if rng.random() < 0.2:
            # rate limiter on (the theorems hold for it too): a few frames per 125 ms window, float-exact budget
            p.update(rate_limit_enable=True, rate_limit_max_bitrate=p.get('tx_data_length', 8) * 8 * 8 * rng.choice([1, 2, 4]), rate_limit_window_size=0.125)
            assert limiter_exact(p['rate_limit_max_bitrate'], 0.125)
    plen = {'A': 1 if a['txa']['mode'].startswith(('Extended', 'Mixed')) else 0, 'B': 1 if b['txa']['mode'].startswith(('Extended', 'Mixed')) else 0}
    par = {'A': pa, 'B': pb}
    calls = []
    nsend = {'A': rng.randint(0, 3), 'B': rng.randint(0, 3)}
    if nsend['A'] + nsend['B'] == 0:
        nsend['A'] = 1
    pending = [sd for sd in 'AB' for _ in range(nsend[sd])]
    rng.shuffle(pending)
    steps = rng.randint(20, 120)
    big_tick = rng.random() < 0.15
    for i in range(steps):
        r = rng.random()
        sd = rng.choice('AB')
        if pending and (r < 0.12 or i == 0):
            sd = pending.pop()
            other = 'B' if sd == 'A' else 'A'
            lens = boundary_lengths(rng, par[sd], plen[sd], min(300, par[other]['max_frame_size']))
            L = rng.choice(lens) if rng.random() < 0.7 else rng.randint(1, min(300, par[other]['max_frame_size']))
            calls.append(['send', sd, None, hx(bytes(rng.getrandbits(8) for _ in range(L)))])
        elif r < 0.75:
            fl = rng.choice([(1, 1), (1, 1), (1, 1), (0, 1), (1, 0)])
            calls.append(['proc', sd, fl[0], fl[1]])
        elif r < 0.9:
            d = rng.choice([0, 1000, 10**6, 2 * 10**6, 10**7])
            if big_tick and rng.random() < 0.1:
                d = rng.choice([49 * 10**6, 51 * 10**6, 10**9 + 1])
            calls.append(['tick', 'A', d])
            calls.append(['tick', 'B', d])
        else:
            calls.append(['recv', sd])
    # closing schedule: let everything drain, then read everything
    for _ in range(rng.choice([0, 40, 400])):
        calls.append(['proc', 'A', 1, 1]); calls.append(['proc', 'B', 1, 1])
        calls.append(['tick', 'A', 2 * 10**6]); calls.append(['tick', 'B', 2 * 10**6])
    for sd in 'AB':
        for _ in range(4):
            calls.append(['recv', sd])
    return {'insts': [dict(a, params=pa), dict(b, params=pb)], 'calls': calls}


def oracle_joint(lines):
    """The conclusion of C01_every_schedule on the observed run (after the closing recv() calls the queues are empty)."""
    sent, got, errs = joint.observe(lines)
    if errs['A'] or errs['B']:
        if any(e == 'crash' for e in errs['A'] + errs['B']):
            return [('C01:exception-escaped', 'an exception escaped a public call in a joint run')], 'error'
        # conclusion of C01_only_deadline_errors_schedule: errors, if any, come with a missed deadline
        allerrs = errs['A'] + errs['B']
        if not any(e in ('err:FlowControlTimeoutError', 'err:ConsecutiveFrameTimeoutError') for e in allerrs):
            return [('C01:error-without-missed-deadline', 'errors %s reported on a reliable link although no deadline error was reported' % sorted(set(allerrs)))], 'error'
        return [], 'error'
    fails = []
    for src, dst in (('A', 'B'), ('B', 'A')):
        if got[dst] != sent[src][:len(got[dst])]:
            fails.append(('C01:joint-not-a-prefix', '%s received %s, %s sent %s' % (dst, [len(x) // 2 for x in got[dst]], src, [len(x) // 2 for x in sent[src]])))
    st = lines[-1].split(' | ')[1]
    rest = st.startswith('inA=0 inB=0') and 'rx=1' not in st and 'trans=1' not in st and 'avail=1' not in st
    if rest:
        for src, dst in (('A', 'B'), ('B', 'A')):
            if got[dst] != sent[src]:
                fails.append(('C01:joint-lost-at-rest', 'at rest with no error, but %s received %d of the %d payloads %s sent' % (dst, len(got[dst]), len(sent[src]), src)))
    return fails, ('rest' if rest else 'moving')


def run_joint_case(part, campaign, case, theorem):
    part.d['evaluations'] += 1
    il, _ = joint.run_impl_joint(case)
    fails, kind = oracle_joint(il)
    part.hist('joint_outcome', kind)
    part.hist('joint_calls', min(2000, len(case['calls']) // 50 * 50))
    sent, got, errs = joint.observe(il)
    part.hist('joint_msgs', '%d+%d' % (len(sent['A']), len(sent['B'])))
    for e in errs['A'] + errs['B']:
        part.hist('events', e)
    part.distinct({'i': case['insts'], 'n': len(case['calls']), 'c': case['calls'][:6]})

    def as_ops(c):
        return {'insts': c['insts'], 'ops': c['calls']}

    if fails:
        sig = fails[0][0]

        def still(c):
            try:
                l2, _ = joint.run_impl_joint({'insts': c['insts'], 'calls': c['ops']})
                f2, _ = oracle_joint(l2)
                return bool(f2) and f2[0][0] == sig
            except Exception:
                return False
        small = ddmin_ops(as_ops(case), still)
        small = {'insts': small['insts'], 'calls': small['ops']}
        l2, _ = joint.run_impl_joint(small)
        f2, _ = oracle_joint(l2)
        part.violation('oracle', campaign, sig, (f2 or fails)[0][1], small, {'impl_trace': l2, 'joint': True})
        return False
    ml = joint.run_model_joint(case)
    part.d['traces_validated'] += 1
    d = first_diff(il, ml)
    if d is not None:
        def differs(c):
            try:
                cc = {'insts': c['insts'], 'calls': c['ops']}
                return first_diff(joint.run_impl_joint(cc)[0], joint.run_model_joint(cc)) is not None
            except Exception:
                return False
        small = ddmin_ops(as_ops(case), differs)
        small = {'insts': small['insts'], 'calls': small['ops']}
        l2, _ = joint.run_impl_joint(small)
        m2 = joint.run_model_joint(small)
        f2, _ = oracle_joint(l2)
        if f2:
            part.violation('oracle', campaign, f2[0][0], f2[0][1], small, {'impl_trace': l2, 'model_trace': m2, 'joint': True})
        else:
            dd = first_diff(l2, m2)
            part.violation('correspondence', campaign, 'corr:' + campaign,
                           'joint model (Model/Joint.v cstep) and the two joined layers disagree at call %s: %s' % (dd, small['calls'][dd] if dd is not None and dd < len(small['calls']) else None),
                           small, {'impl_line': l2[dd] if dd is not None and dd < len(l2) else None, 'model_line': m2[dd] if dd is not None and dd < len(m2) else None,
                                   'theorem_or_correspondence': theorem, 'joint': True})
        return False
    return True


def replay(v):
    """./check C01 --replay file"""
    case = v.get('case')
    if case and 'calls' in case:
        il, _ = joint.run_impl_joint(case)
        ml = joint.run_model_joint(case)
        for c, x, y in zip(case['calls'], il, ml):
            print(c, '\n  impl :', x, '\n  model:', y)
        f, kind = oracle_joint(il)
        print('oracle:', f, kind, 'first difference at call', first_diff(il, ml))
        return 1 if (f or first_diff(il, ml) is not None) else 0
    import check_main
    return check_main.generic_replay(v)

def run_shard(campaign, shard, nshards, seed, tier):
    if campaign == 'api':
        import apiuse
        return apiuse.run_api('C01', shard, nshards, seed, tier)
    part = Part()
    rng = random.Random('%s/%s/%s' % (seed, campaign, shard))
    quick = tier != 'thorough'
    if campaign == 'joint':
        for i in range((150 if quick else 6000) // nshards + 1):
            run_joint_case(part, campaign, gen_joint(rng, tier), THEOREMS)
        return part.result()
    if campaign == 'both_ways':
        import C10
        for i in range((60 if quick else 3000) // nshards + 1):
            A, B, ma, mb = C10.gen_duplex(rng, tier, rng.random() < 0.6)
            sched = rng.choice(['rr', 'one', 'random', 'txonly'])
            pr = run_transfer(rng, A, B, ma, sched, msgs_back=mb)
            part.hist('sched', 'both_ways/' + sched)
            sample = {'A': A, 'B': B, 'lens_A': [len(m) for m in ma], 'lens_B': [len(m) for m in mb], 'sched': sched}
            check_against_model(part, campaign, pr, oracle_transfer(pr, ma, mb), sample, THEOREMS)
            part.sample(sample)
        return part.result()
    if campaign == 'transfers':
        n = (240 if quick else 12000) // nshards + 1
        big = False
    else:
        n = (12 if quick else 400) // nshards + 1
        big = True
    for i in range(n):
        A, B, msgs, sched = gen_scenario(rng, tier, big)
        if big and i == 0 and (shard % 4 == 0 or not quick):
            # beyond 64 KiB: every byte of the 32-bit length of the First Frame matters (largest link-layer size, no pacing)
            A['params'].update(tx_data_length=64, can_fd=True)
            A['params'].pop('tx_data_min_length', None)
            B['params'].update(blocksize=0, stmin=0, max_frame_size=10**6)
            msgs = [bytes(rng.getrandbits(8) for _ in range(rng.choice([65536, 65537, 66000, 70000, 131072 + 5])))]
            sched = 'rr'
        pr = run_transfer(rng, A, B, msgs, sched)
        part.hist('mode', A['txa']['mode'] + ('/asym' if A.get('rxa') else ''))
        part.hist('tx_dl', A['params'].get('tx_data_length', 8))
        part.hist('sched', sched)
        part.hist('blocksize_B', B['params'].get('blocksize', 8))
        for m in msgs:
            part.hist('msg_len', min(len(m), 4100) if len(m) < 4100 else 5000)
        sample = {'A': A, 'B': B, 'msg_lens': [len(m) for m in msgs], 'sched': sched, 'ops': len(pr.case['ops'])}
        check_against_model(part, campaign, pr, oracle_transfer(pr, msgs), sample, THEOREMS)
        part.sample(sample)
    return part.result()


def run(ctx):
    run_sharded(ctx, 'C01', 'transfers')
    run_sharded(ctx, 'C01', 'both_ways')
    run_sharded(ctx, 'C01', 'big')
    run_sharded(ctx, 'C01', 'joint')
    run_sharded(ctx, 'C01', 'api', nshards=2)
    import apiuse
    return RULE + apiuse.rule_text('C01'), ASSUME
