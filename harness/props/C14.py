"""C14 - start/stop lifecycle is clean, bounded and restartable (real threads + Model/Threaded.v)."""
import itertools
import queue
import random
import threading
import time
from core import *
from gen import *
from runner import Part, run_sharded
import lc

THEOREMS = 'IsoTp.Props.C14'
RULE = ('operation sequences over {start, stop, send(single), send(multi), recv, stop_sending, stop_receiving, process, reset, sleep} on a real '
        'TransportLayer (queue callbacks) and a real NotifierBasedCanStack (python-can virtual bus), real threads: exhaustive up to length 3 '
        '(quick: sampled 1/3; thorough: length 4 complete) + random sequences up to length 12; after EVERY call: exception class, started flag, '
        'number of live threads created by the layer, and - whenever the layer is not started - transmitting()/available()/is_rx_active(); '
        'compared call by call with the extracted Coq lifecycle model (Model/Threaded.v). Oracles independent of the model: only RuntimeError '
        '(second start, process/reset while started) is ever raised; stop() returns within 2.2 s, leaves no thread of the layer alive, the layer '
        'idle with empty queues; a layer that is started at the end of the sequence delivers a Single Frame put on its bus; then stop/start again and a 1-frame and a multi-frame payload reach a started peer intact. '
        'Campaign "midtransfer": stop() at a random instant of a paced multi-frame transfer in either direction. Campaign "inflight": a feeder '
        'thread keeps delivering frames while stop() runs; after the next start() nothing received before the stop may be delivered, answered or '
        'reported. Campaign "slowread": read_timeout 1.15-1.45 s with a reader that blocks for the whole timeout; stop() must still outwait it.')
ASSUME = ['"returns within bounded time" and "no thread alive" are measured on the Python runtime, not proved',
          'while the layer is started only schedule-independent facts are compared with the model (exception class, started flag, thread count)']

OPS = ['start', 'stop', 'send_sf', 'send_mf', 'recv', 'stop_sending', 'stop_receiving', 'process', 'reset', 'sleep']
MF = bytes(range(40))
SF = bytes([1, 2, 3])
PARAMS = {'rx_flowcontrol_timeout': 5000, 'rx_consecutive_frame_timeout': 5000, 'stmin': 0, 'blocksize': 0}
INST = {'txa': {'mode': 'Normal_11bits', 'txid': 0x111, 'rxid': 0x222}, 'rxa': None, 'params': PARAMS}


def qrx(q):
    def f(timeout):
        try:
            return q.get(timeout=timeout)
        except queue.Empty:
            return None
    return f


class Rig:
    """one real layer (kind: 'tl' | 'notifier'), its wire, and optionally a peer"""

    def __init__(self, kind, read_timeout=0.01):
        import isotp
        self.isotp = isotp
        self.kind = kind
        self.errors = []
        self.baseline = set(threading.enumerate())
        a = isotp.Address(isotp.AddressingMode.Normal_11bits, txid=0x111, rxid=0x222)
        self.peer_addr = isotp.Address(isotp.AddressingMode.Normal_11bits, txid=0x222, rxid=0x111)
        if kind == 'tl':
            self.q_out, self.q_in = queue.Queue(), queue.Queue()
            self.layer = isotp.TransportLayer(rxfn=qrx(self.q_in), txfn=self.q_out.put, address=a, params=dict(PARAMS),
                                              error_handler=self.errors.append, read_timeout=read_timeout)
        else:
            import can
            self.can = can
            chan = 'c14-%d-%d' % (threading.get_ident(), id(self))
            self.bus = can.interface.Bus(chan, interface='virtual')
            self.bus_peer = can.interface.Bus(chan, interface='virtual')
            self.notifier = can.Notifier(self.bus, [], timeout=0.01)
            self.baseline = set(threading.enumerate())          # the notifier thread belongs to the user
            self.layer = isotp.NotifierBasedCanStack(self.bus, self.notifier, address=a, params=dict(PARAMS),
                                                     error_handler=self.errors.append, read_timeout=0.01)
        self.peer = None

    def inject(self, data):
        """a CAN frame addressed to the layer appears on its bus"""
        if self.kind == 'tl':
            self.q_in.put(self.isotp.CanMessage(arbitration_id=0x222, data=data))
        else:
            self.bus_peer.send(self.can.Message(arbitration_id=0x222, data=data, is_extended_id=False))

    def drain_source(self):
        if self.kind == 'tl':
            while not self.q_in.empty():
                self.q_in.get()

    def threads(self):
        return len([t for t in threading.enumerate() if t not in self.baseline and t.is_alive()])

    def call(self, op):
        l = self.layer
        try:
            if op == 'start':
                l.start()
            elif op == 'stop':
                t = time.perf_counter()
                l.stop()
                self.stop_s = time.perf_counter() - t
            elif op == 'send_sf':
                l.send(SF)
            elif op == 'send_mf':
                l.send(MF)
            elif op == 'recv':
                l.recv()
            elif op == 'stop_sending':
                l.stop_sending()
            elif op == 'stop_receiving':
                l.stop_receiving()
            elif op == 'process':
                l.process()
            elif op == 'reset':
                l.reset()
            elif op == 'sleep':
                time.sleep(0.015)
            return 'ok'
        except RuntimeError:
            return 'runtimeerror'
        except ValueError:
            return 'valueerror'
        except BaseException as e:
            return 'other:' + type(e).__name__

    def started(self):
        v = getattr(self.layer, 'started', None)
        return bool(v) if v is not None else self.threads() > 0

    def observe(self):
        l = self.layer
        st = '%d %d' % (int(self.started()), self.threads())
        if not self.started():
            st += ' trans=%d avail=%d rx=%d' % (int(l.transmitting()), int(l.available()), int(l.is_rx_active()))
        return st

    def start_peer(self):
        isotp = self.isotp
        if self.kind == 'tl':
            while not self.q_out.empty():
                self.q_out.get()
            self.peer = isotp.TransportLayer(rxfn=qrx(self.q_out), txfn=self.q_in.put, address=self.peer_addr, params=dict(PARAMS), read_timeout=0.01)
        else:
            while self.bus_peer.recv(0) is not None:
                pass
            self.peer = isotp.CanStack(self.bus_peer, address=self.peer_addr, params=dict(PARAMS), read_timeout=0.01)
        self.peer.start()

    def close(self):
        try:
            self.layer.stop()
        except BaseException:
            pass
        if self.peer is not None:
            try:
                self.peer.stop()
            except BaseException:
                pass
        if self.kind != 'tl':
            self.notifier.stop()
            self.bus.shutdown()
            self.bus_peer.shutdown()


MODEL_OP = {'start': 'start', 'stop': 'stop', 'send_sf': 'send - ' + hx(SF), 'send_mf': 'send - ' + hx(MF), 'recv': 'recv',
            'stop_sending': 'stop_sending', 'stop_receiving': 'stop_receiving', 'process': 'process', 'reset': 'reset', 'sleep': 'tick 15000000'}


def model_run(m, seq):
    """the same calls on the extracted lifecycle model; one observation string per call"""
    case = {'insts': [INST], 'ops': []}
    lines = case_to_model_text(case) + ['T 0 init 1000000000']
    m.p.stdin.write('\n'.join(lines) + '\n')
    m.p.stdin.flush()
    assert m.p.stdout.readline().strip() == 'ok'
    out = []
    for op in seq:
        m.p.stdin.write('T 0 %s\n' % MODEL_OP[op])
        m.p.stdin.flush()
        l = m.p.stdout.readline().rstrip('\n')
        head, st = l.split(' | ')
        outcome = head.split(' ')[0]
        if outcome.startswith('got:'):
            outcome = 'ok'
        f = dict(x.split('=') for x in st.split(' '))
        o = '%s %s %s' % (outcome, f['started'], f['threads'])
        if f['started'] == '0':
            o += ' trans=%s avail=%s rx=%s' % (f['trans'], f['avail'], f['rx'])
        else:
            # the worker thread runs between the user's calls
            m.p.stdin.write('T 0 worker 1\n')
            m.p.stdin.flush()
            m.p.stdout.readline()
        out.append(o)
    return out


def run_sequence(part, m, kind, seq, campaign, final_transfer=True):
    part.d['evaluations'] += 1
    rig = Rig(kind)
    obs = []
    fails = []
    try:
        for i, op in enumerate(seq):
            was_started = rig.started()
            r = rig.call(op)
            obs.append('%s %s' % (r, rig.observe()))
            part.hist('ops', op + '/' + r)
            allowed = 'runtimeerror' if (was_started and op in ('start', 'process', 'reset')) else 'ok'
            if r != allowed:
                fails.append(('C14:wrong-exception', 'call %d (%s) on a %s layer: %s, documented: %s' % (i, op, 'started' if was_started else 'stopped', r, allowed)))
            if op == 'stop' and r == 'ok':
                l = rig.layer
                if rig.stop_s > 2.2:
                    fails.append(('C14:stop-not-bounded', 'stop() took %.2f s' % rig.stop_s))
                time.sleep(0.002)
                if rig.threads() != 0:
                    time.sleep(0.1)
                    if rig.threads() != 0:
                        fails.append(('C14:thread-leak', '%d thread(s) of the layer still alive after stop()' % rig.threads()))
                if rig.started() or l.transmitting() or l.available() or l.is_rx_active():
                    fails.append(('C14:not-idle-after-stop', 'after stop(): started=%s transmitting=%s available=%s rx_active=%s' % (
                        rig.started(), l.transmitting(), l.available(), l.is_rx_active())))
            if op == 'start' and r == 'ok' and rig.threads() != 2:
                fails.append(('C14:thread-count', '%d threads after start()' % rig.threads()))
        if final_transfer and not fails and rig.started():
            # a started layer hears the bus, whatever calls were made - or refused - since it was started
            rig.inject(bytes([3, 0xA1, 0xA2, 0xA3]))
            got = rig.layer.recv(block=True, timeout=2.0)
            if got != bytes([0xA1, 0xA2, 0xA3]):
                fails.append(('C14:started-layer-deaf', 'a Single Frame put on the bus of the started layer was not delivered within 2 s (got %r)' % (got,)))
        if final_transfer and not fails:
            # a stopped layer can be started again and then transfers payloads normally
            r1 = rig.call('stop')
            r2 = rig.call('start')
            if (r1, r2) != ('ok', 'ok'):
                fails.append(('C14:restart-fails', 'final stop/start: %s / %s' % (r1, r2)))
            else:
                rig.start_peer()
                for payload in (SF, MF):
                    rig.layer.send(payload)
                    got = rig.peer.recv(block=True, timeout=2.0)
                    if got != payload:
                        fails.append(('C14:restart-transfer', 'after restart the peer received %r instead of %d bytes' % (got, len(payload))))
                        break
                rig.peer.send(MF)
                got = rig.layer.recv(block=True, timeout=2.0)
                if got != MF:
                    fails.append(('C14:restart-transfer', 'after restart the layer received %r from the peer' % (got,)))
                if rig.errors:
                    fails.append(('C14:restart-transfer', 'errors reported after restart: %s' % [type(e).__name__ for e in rig.errors[:3]]))
    finally:
        rig.close()
    case = {'kind': kind, 'sequence': list(seq)}
    part.distinct(case)
    part.sample(case)
    if fails:
        part.violation('oracle', campaign, fails[0][0], fails[0][1], dict(case, observed=obs))
        return
    mo = model_run(m, seq)
    part.d['traces_validated'] += 1
    if mo != obs:
        k = next(i for i in range(len(seq)) if mo[i] != obs[i])
        part.violation('correspondence', campaign, 'corr:lifecycle', 'call %d (%s): implementation "%s", model "%s"' % (k, seq[k], obs[k], mo[k]),
                       dict(case, observed=obs, model=mo), {'theorem_or_correspondence': THEOREMS + ' / Model.Threaded.lstep'})


def midtransfer(part, rng, kind, campaign):
    """stop() in the middle of a paced transfer, in either direction"""
    part.d['evaluations'] += 1
    rig = Rig(kind)
    fails = []
    try:
        rig.layer.params.set('stmin', 5)
        rig.call('start')
        mine_threads = [t for t in threading.enumerate() if t not in rig.baseline]
        rig.start_peer()
        rig.peer.params.set('stmin', 5)
        direction = rng.choice(['tx', 'rx', 'both'])
        if direction in ('tx', 'both'):
            rig.layer.send(bytes(200))
        if direction in ('rx', 'both'):
            rig.peer.send(bytes(200))
        time.sleep(rng.choice([0.0, 0.003, 0.02, 0.05, 0.1]))
        part.hist('midtransfer', '%s/tx=%d/rx=%d' % (direction, int(rig.layer.transmitting()), int(rig.layer.is_rx_active())))
        r = rig.call('stop')
        l = rig.layer
        time.sleep(0.005)
        if r != 'ok':
            fails.append(('C14:wrong-exception', 'stop() during a transfer: %s' % r))
        elif rig.stop_s > 2.2:
            fails.append(('C14:stop-not-bounded', 'stop() during a transfer took %.2f s' % rig.stop_s))
        elif getattr(l, 'started', False) or l.transmitting() or l.available() or l.is_rx_active():
            fails.append(('C14:not-idle-after-stop', 'after stop() during a transfer (%s): started=%s transmitting=%s available=%s rx_active=%s' % (
                direction, getattr(l, 'started', None), l.transmitting(), l.available(), l.is_rx_active())))
        else:
            # threads of the layer only (the peer's are still running)
            mine = [t for t in mine_threads if t.is_alive()]
            if mine:
                fails.append(('C14:thread-leak', 'worker/relay thread alive after stop() during a transfer'))
    finally:
        rig.close()
    if fails:
        part.violation('oracle', campaign, fails[0][0], fails[0][1], {'kind': kind, 'campaign': 'midtransfer'})


def inflight(part, rng, kind, campaign):
    """frames keep arriving while stop() runs: nothing of them may survive into the next start()"""
    part.d['evaluations'] += 1
    rig = Rig(kind)
    fails = []
    try:
        rig.call('start')
        stopf = threading.Event()

        def feeder():
            k = 0
            while not stopf.is_set():
                rig.inject(bytes([0x02, 0xEE, k & 0xFF]))
                k += 1
                time.sleep(rng.choice([0, 0.0002, 0.001]))
        th = threading.Thread(target=feeder, daemon=True)
        rig.baseline.add(th)
        th.start()
        time.sleep(rng.choice([0.005, 0.02, 0.04]))
        r = rig.call('stop')
        stopf.set()
        th.join()
        time.sleep(0.03)
        rig.drain_source()          # what the user's own source still holds is the user's
        if kind != 'tl':
            time.sleep(0.05)
        l = rig.layer
        if r != 'ok' or rig.started() or l.available() or l.transmitting() or l.is_rx_active():
            fails.append(('C14:not-idle-after-stop', 'stop() under incoming traffic: %s started=%s available=%s' % (r, rig.started(), l.available())))
        else:
            sent_before = rig.q_out.qsize() if kind == 'tl' else None
            r2 = rig.call('start')
            time.sleep(0.06)
            got = l.recv()
            if r2 != 'ok':
                fails.append(('C14:restart-fails', 'start() after stop(): %s' % r2))
            elif got is not None:
                fails.append(('C14:stale-data-after-restart', 'a frame received before stop() was delivered after the next start(): %s' % got.hex()))
            elif rig.errors:
                fails.append(('C14:stale-data-after-restart', 'errors after restart: %s' % [type(e).__name__ for e in rig.errors[:3]]))
            elif kind == 'tl' and rig.q_out.qsize() != sent_before:
                fails.append(('C14:stale-data-after-restart', 'frames transmitted after restart without any request'))
    finally:
        rig.close()
    if fails:
        part.violation('oracle', campaign, fails[0][0], fails[0][1], {'kind': kind, 'campaign': 'inflight'})


def slowread(part, rng, campaign):
    """a long read_timeout with a reader that really blocks: stop() still waits for the reader thread"""
    part.d['evaluations'] += 1
    rt = rng.choice([1.15, 1.3, 1.45])
    rig = Rig('tl', read_timeout=rt)
    fails = []
    try:
        rig.call('start')
        time.sleep(rng.choice([0.02, 0.1]))
        r = rig.call('stop')
        bound = 1.0 + max(rt + 0.5, 1.0) + 0.3
        time.sleep(0.01)
        if r != 'ok':
            fails.append(('C14:wrong-exception', 'stop(): %s' % r))
        elif rig.stop_s > bound:
            fails.append(('C14:stop-not-bounded', 'stop() took %.2f s with read_timeout=%.2f' % (rig.stop_s, rt)))
        elif rig.threads() != 0:
            fails.append(('C14:thread-leak', '%d thread(s) of the layer alive after stop() returned (read_timeout=%.2f s, reader blocked in rxfn)' % (rig.threads(), rt)))
        part.hist('slowread', 'read_timeout=%.2f stop=%.1fs' % (rt, rig.stop_s))
    finally:
        rig.close()
    if fails:
        part.violation('oracle', campaign, fails[0][0], fails[0][1], {'kind': 'tl', 'campaign': 'slowread', 'read_timeout': rt})


def run_shard(campaign, shard, nshards, seed, tier):
    if campaign == 'api':
        import apiuse
        return apiuse.run_api('C14', shard, nshards, seed, tier)
    part = Part()
    rng = random.Random('%s/%s/%s' % (seed, campaign, shard))
    quick = tier != 'thorough'
    m = lc.model()
    kind = 'tl' if campaign.startswith('tl') else 'notifier'
    if campaign.endswith('exhaustive'):
        seqs = [s for n in (1, 2, 3) for s in itertools.product(OPS, repeat=n)]
        if not quick:
            seqs += list(itertools.product(OPS, repeat=4)) if kind == 'tl' else []
        if quick:
            # every sequence of length <= 2, one third of length 3 (rotating with the seed)
            seqs = [s for i, s in enumerate(seqs) if len(s) <= 2 or (i + int(seed)) % (3 if kind == 'tl' else 9) == 0]
        for i, s in enumerate(seqs):
            if i % nshards == shard:
                run_sequence(part, m, kind, s, campaign, final_transfer=(len(s) <= 2 or i % 5 == 0))
    elif campaign.endswith('random'):
        for _ in range((60 if quick else 1500) // nshards + 1):
            n = rng.randint(4, 12)
            s = [rng.choice(OPS + ['start', 'stop', 'send_mf']) for _ in range(n)]
            run_sequence(part, m, kind, s, campaign)
    elif campaign.endswith('midtransfer'):
        for _ in range((24 if quick else 400) // nshards + 1):
            midtransfer(part, rng, kind, campaign)
    elif campaign.endswith('inflight'):
        for _ in range((160 if quick else 3000) // nshards + 1):
            inflight(part, rng, kind, campaign)
    elif campaign.endswith('slowread'):
        for _ in range((16 if quick else 96) // nshards):
            slowread(part, rng, campaign)
    return part.result()


def run(ctx):
    for c in ('tl-exhaustive', 'tl-random', 'tl-midtransfer', 'tl-inflight', 'tl-slowread', 'notifier-exhaustive', 'notifier-random', 'notifier-midtransfer', 'notifier-inflight'):
        run_sharded(ctx, 'C14', c, nshards=16)
    ctx.exhaustive['all operation sequences of length <= 3 over 10 operations (quick: all of length <= 2 and 1/3 resp. 1/9 of length 3)'] = not ctx.quick
    run_sharded(ctx, 'C14', 'api', nshards=2)
    import apiuse
    return RULE + apiuse.rule_text('C14'), ASSUME
