"""C11 - a single lost or duplicated frame is contained (exhaustive fault positions)."""
import random
from core import *
from gen import *
from runner import Part, run_sharded
from peers import PeerRun
import lc
import C01

THEOREMS = 'IsoTp.Props.C11'
RULE = ('message lists of 2-4 payloads mixing single- and multi-frame messages; for EVERY frame index of either link direction '
        '(data frames and Flow Control) x {drop, duplicate}: run the exchange with that single fault, advance virtual time past all '
        'timeouts. Oracle: delivered payloads are sent payloads in sending order (a duplicated Single Frame may appear twice), at most '
        'the hit message is missing, both layers idle afterwards, loss of a multi-frame message reported on at least one side, later '
        'messages delivered. Each run is replayed on the extracted model. non-trivial = distinct (scenario, fault position, fault kind)'
        ' (duplex_faults) both directions carry multi-frame messages at once (blocksize 1..3): every frame index of either link x {drop, duplicate}: at most ONE message lost in total, everything else in order, both sides idle after the timeouts.')
ASSUME = ['exactly one fault per exchange; links otherwise reliable FIFOs; timeouts 1000 ms, ticks of 37 ms (never exactly on a deadline)']

TICK = 37 * 10**6


def gen_scn(rng):
    a, b = rand_inst_pair(rng, asym_prob=0.1)
    pa = {'tx_data_length': rng.choice([8, 8, 16, 64]), 'blocksize': rng.choice([0, 1, 2, 5]), 'stmin': rng.choice([0, 5])}
    pb = {'tx_data_length': rng.choice([8, 8, 16, 64]), 'blocksize': rng.choice([0, 1, 2, 5]), 'stmin': rng.choice([0, 5])}
    for p in (pa, pb):
        if p['tx_data_length'] > 8:
            p['can_fd'] = True
        p['max_frame_size'] = 4095
    plen = 1 if a['txa']['mode'].startswith(('Extended', 'Mixed')) else 0
    tx_dl = pa['tx_data_length']
    ff, cf = tx_dl - 2 - plen, tx_dl - 1 - plen
    sfcap = (7 - plen) if tx_dl == 8 else (tx_dl - 2 - plen)
    msgs = []
    for _ in range(rng.randint(2, 4)):
        if rng.random() < 0.4:
            L = rng.randint(1, sfcap)
        else:
            L = ff + rng.randint(1, 5) * cf - rng.randint(0, cf - 1)
        msgs.append(bytes(rng.getrandbits(8) for _ in range(L)))
    if len(set(msgs)) != len(msgs):
        msgs = list(dict.fromkeys(msgs))
    return dict(a, params=pa), dict(b, params=pb), msgs, sfcap


def run_fault(A, B, msgs, fault, msgs_back=()):
    """fault = None or (src, index, 'drop'|'dup'); returns (PeerRun, frames per link)."""
    pr = PeerRun([A, B])
    for m in msgs:
        pr.send(0, hx(m))
    for m in msgs_back:
        pr.send(1, hx(m))
    count = {0: 0, 1: 0}
    steps = 0
    idle_rounds = 0
    while steps < 4000:
        steps += 1
        for src in (0, 1):
            while pr.wire[src]:
                f = None
                if fault is not None and fault[0] == src and fault[1] == count[src]:
                    f = fault[2]
                count[src] += 1
                pr.deliver(src, 1, fault=f)
        pr.proc(0); pr.proc(1)
        pr.tick_all(TICK)
        if pr.quiescent():
            idle_rounds += 1
            if idle_rounds > 2:
                break
        else:
            idle_rounds = 0
    # silence well past every timeout
    for _ in range(3):
        pr.tick_all(1100 * 10**6)
        pr.proc(0); pr.proc(1)
    pr.recv_all(1); pr.recv_all(0)
    pr.close()
    return pr, count


def oracle_fault(pr, msgs, fault, sfcap, hit_msg):
    fails = []
    exp = [hx(m) for m in msgs]
    got = pr.delivered[1]
    if pr.crashed:
        fails.append(('C11:exception-escaped', 'exception escaped'))
    # subsequence in order, duplicates only for single frames
    j = 0
    last = None
    missing = []
    pos = 0
    for g in got:
        if g == last and len(g) // 2 <= sfcap and fault[2] == 'dup':
            continue
        while pos < len(exp) and exp[pos] != g:
            missing.append(pos)
            pos += 1
        if pos >= len(exp):
            fails.append(('C11:corrupted-or-reordered-delivery', 'delivered payload of %d bytes is not a sent payload in order' % (len(g) // 2)))
            break
        last = g
        pos += 1
    missing += list(range(pos, len(exp)))
    if len(missing) > 1:
        fails.append(('C11:more-than-one-message-lost', 'missing messages %s (fault %s)' % (missing, fault)))
    if pr.delivered[0]:
        fails.append(('C11:spurious-delivery', 'sender side received %d payloads' % len(pr.delivered[0])))
    for k in (0, 1):
        l = pr.impl[k].layer
        if l.transmitting() or l.is_rx_active():
            fails.append(('C11:not-idle-after-timeouts', 'side %d: transmitting=%s rx_active=%s' % (k, l.transmitting(), l.is_rx_active())))
    for mi in missing:
        if len(msgs[mi]) > sfcap and not (pr.errors[0] or pr.errors[1]):
            fails.append(('C11:silent-loss', 'multi-frame message %d lost without any error' % mi))
    return fails


def missing_of(got, exp, sfcap, dup):
    """indices of expected payloads not delivered (in order); None when a delivery is not a sent payload in order"""
    pos, last, missing = 0, None, []
    for g in got:
        if g == last and len(g) // 2 <= sfcap and dup:
            continue
        while pos < len(exp) and exp[pos] != g:
            missing.append(pos)
            pos += 1
        if pos >= len(exp):
            return None
        last = g
        pos += 1
    return missing + list(range(pos, len(exp)))


def oracle_duplex_fault(pr, ma, mb, fault, sfcap):
    """both directions carry messages at once: one lost or duplicated frame costs at most ONE message in total, everything else is
    delivered in order, and after the timeouts both sides are idle again"""
    fails = []
    if pr.crashed:
        fails.append(('C11:exception-escaped', 'exception escaped'))
    dup = fault is not None and fault[2] == 'dup'
    m1 = missing_of(pr.delivered[1], [hx(m) for m in ma], sfcap, dup)
    m0 = missing_of(pr.delivered[0], [hx(m) for m in mb], sfcap, dup)
    if m1 is None or m0 is None:
        fails.append(('C11:corrupted-or-reordered-delivery', 'a delivered payload is not a sent payload in order'))
    elif len(m1) + len(m0) > 1:
        fails.append(('C11:more-than-one-message-lost', 'missing A->B %s, B->A %s (fault %s)' % (m1, m0, fault)))
    for k in (0, 1):
        l = pr.impl[k].layer
        if l.transmitting() or l.is_rx_active():
            fails.append(('C11:not-idle-after-timeouts', 'side %d: transmitting=%s rx_active=%s (fault %s)' % (k, l.transmitting(), l.is_rx_active(), fault)))
    return fails


def run_shard(campaign, shard, nshards, seed, tier):
    if campaign == 'api':
        import apiuse
        return apiuse.run_api('C11', shard, nshards, seed, tier)
    if campaign == 'duplex_faults':
        part = Part()
        rng = random.Random('%s/%s' % (seed, campaign))
        idx = 0
        for _ in range(10 if tier != 'thorough' else 200):
            a, b = rand_inst_pair(rng, asym_prob=0.1)
            pa = {'blocksize': rng.choice([1, 2, 3]), 'stmin': rng.choice([0, 5]), 'max_frame_size': 4095}
            pb = {'blocksize': rng.choice([1, 2, 3]), 'stmin': rng.choice([0, 5]), 'max_frame_size': 4095}
            A, B = dict(a, params=pa), dict(b, params=pb)
            mk = lambda: [bytes(rng.getrandbits(8) for _ in range(rng.choice([20, 33, 45]))) for _ in range(rng.randint(1, 2))]
            ma, mb = mk(), mk()
            if len(set(ma)) != len(ma) or len(set(mb)) != len(mb):
                continue
            base, count = run_fault(A, B, ma, None, mb)
            positions = [(src, i, kind) for src in (0, 1) for i in range(count[src]) for kind in ('drop', 'dup')]
            for fault in positions:
                idx += 1
                if idx % nshards != shard:
                    continue
                pr, _ = run_fault(A, B, ma, fault, mb)
                part.hist('fault', 'duplex/%s/%s' % ('A->B' if fault[0] == 0 else 'B->A', fault[2]))
                fails = oracle_duplex_fault(pr, ma, mb, fault, 6)
                sample = {'A': A, 'B': B, 'lens_A': [len(m) for m in ma], 'lens_B': [len(m) for m in mb], 'fault': fault}
                C01.check_against_model(part, campaign, pr, fails, sample, THEOREMS)
                part.sample(sample)
        return part.result()
    part = Part()
    rng = random.Random('%s/%s' % (seed, campaign))      # same scenarios in every shard, positions sharded
    quick = tier != 'thorough'
    nscn = 48 if quick else 600
    idx = 0
    for _ in range(nscn):
        A, B, msgs, sfcap = gen_scn(rng)
        base, count = run_fault(A, B, msgs, None)
        positions = [(src, i, kind) for src in (0, 1) for i in range(count[src]) for kind in ('drop', 'dup')]
        for fault in positions:
            idx += 1
            if idx % nshards != shard:
                continue
            pr, _ = run_fault(A, B, msgs, fault)
            part.hist('fault', '%s/%s' % ('A->B' if fault[0] == 0 else 'B->A', fault[2]))
            fr = base.sent_log[fault[0]][fault[1]] if fault[1] < len(base.sent_log[fault[0]]) else None
            if fr:
                d = unhx(fr[2])
                plen = 1 if A['txa']['mode'].startswith(('Extended', 'Mixed')) and fault[0] == 0 else (1 if B['txa']['mode'].startswith(('Extended', 'Mixed')) and fault[0] == 1 else 0)
                part.hist('hit_frame_type', ['SF', 'FF', 'CF', 'FC'][min(3, d[plen] >> 4)] if len(d) > plen else '?')
            fails = oracle_fault(pr, msgs, fault, sfcap, None)
            sample = {'A': A, 'B': B, 'msg_lens': [len(m) for m in msgs], 'fault': fault, 'frames_per_link': count}
            C01.check_against_model(part, campaign, pr, fails, sample, THEOREMS)
            part.sample(sample)
    return part.result()


def run(ctx):
    run_sharded(ctx, 'C11', 'faults')
    run_sharded(ctx, 'C11', 'duplex_faults')
    ctx.exhaustive['every frame index of both link directions x {drop, duplicate} for each generated scenario'] = True
    run_sharded(ctx, 'C11', 'api', nshards=2)
    import apiuse
    return RULE + apiuse.rule_text('C11'), ASSUME
