"""C18 - listen mode never transmits and hears the same messages."""
import random
from core import *
from gen import *
from runner import Part, run_sharded
from peers import PeerRun
import lc
import C01
import k1_fuzz

THEOREMS = 'IsoTp.Props.C18'
RULE = ('(tap) conversations between two normal peers (both directions, random payload mixes, block sizes, link sizes) tapped by a third '
        'real layer in listen mode configured with the receiver address but different blocksize/stmin/padding and its own batching; '
        '(garbage) the same random / malformed frame sequence fed to a normal receiver and to a listener. Oracle: the listener hands '
        'nothing to txfn, and its recv() results equal the normal receiver\'s. All runs replayed on the extracted model. '
        'non-trivial = distinct cases'
        ' (listener_sends) a listener whose user also calls send() (Single Frame or a multi-frame message with its grants) during a tapped segmented transfer: it transmits what its user sends, never a Flow Control; the tapped payload is delivered.'
        ' A quarter of the garbage cases are a sender that stalls in mid-message for longer than rx_consecutive_frame_timeout and then carries on, the listener configured with a separation time of up to 127 ms: both abandon the message at the same moment.')
ASSUME = ['no N_Cr deadline is missed at either observer (ticks stay below the timeouts)']


def drain(pr, k=2):
    """A listener's process() returns after each frame that would have required a Flow Control: call it until
    its inbox is empty (any batching of its process() calls is allowed by the property)."""
    pr.proc(k)
    n = 0
    while pr.impl[k].inbox and n < 10000:
        pr.proc(k)
        n += 1


def gen_listener_sends(rng):
    """a listener whose user also sends: it hears a segmented message while Single Frames / a multi-frame message of its own are
    queued or in flight.  It may transmit what its user sends, never a Flow Control for what it hears."""
    from streams import encode_stream
    a, _ = rand_inst_pair(rng)
    p = {'listen_mode': True, 'blocksize': rng.choice([0, 1, 2, 3]), 'stmin': 0}
    inst = dict(a, params=p)
    rid, ext, pfx = reach(inst)
    heard = bytes(rng.getrandbits(8) for _ in range(rng.choice([20, 40])))
    frames = encode_stream(heard, 8, pfx)
    ops = []
    own_multi = rng.random() < 0.5
    at = rng.randrange(len(frames))
    for i, f in enumerate(frames):
        if i == at:
            ops.append([0, 'send', None, hx(bytes(rng.getrandbits(8) for _ in range(20 if own_multi else 3)))])
        ops.append([0, 'rx', rid, int(ext), hx(f)])
        ops.append([0, 'proc', 1, 1])
        if own_multi and i > at and rng.random() < 0.6:
            ops.append([0, 'rx', rid, int(ext), hx(pfx + bytes([0x30, 0, 0]))])      # the grant for its own transmission
            ops.append([0, 'proc', 1, 1])
    ops += [[0, 'rx', rid, int(ext), hx(pfx + bytes([0x30, 0, 0]))], [0, 'proc', 1, 1], [0, 'proc', 1, 1], [0, 'recv']]
    return {'insts': [inst], 'ops': ops, 'nops': len(ops), 'heard': hx(heard)}


def oracle_listener_sends(case, lines, insts):
    inst = case['insts'][0]
    tplen = 1 if inst['txa']['mode'].startswith(('Extended', 'Mixed')) else 0
    fails = []
    for l in lines:
        for e in split_line(l)[0]:
            if e.startswith('tx:'):
                d = unhx(e.split(':')[6])
                if len(d) > tplen and d[tplen] >> 4 == 3:
                    fails.append(('C18:listener-transmitted', 'a listener whose user sends emitted the Flow Control %s' % e))
    if case.get('nops') == len(case['ops']):
        got = [e[5:] for l in lines for e in split_line(l)[0] if e.startswith('recv:') and e != 'recv:none']
        if got != [case['heard']]:
            fails.append(('C18:listener-hears-differently', 'listener delivered %d payloads, expected the tapped one' % len(got)))
    return fails


def run_shard(campaign, shard, nshards, seed, tier):
    if campaign == 'api':
        import apiuse
        return apiuse.run_api('C18', shard, nshards, seed, tier)
    if campaign == 'listener_sends':
        part = Part()
        rng = random.Random('%s/%s/%s' % (seed, campaign, shard))
        for _ in range((120 if tier != 'thorough' else 6000) // nshards + 1):
            case = gen_listener_sends(rng)
            part.distinct(case)
            lc.run_case(part, campaign, case, oracle=oracle_listener_sends, theorem=THEOREMS + '.C18_silent')
            part.sample({'params': case['insts'][0]['params'], 'ops': case['ops'][:6]})
        return part.result()
    part = Part()
    rng = random.Random('%s/%s/%s' % (seed, campaign, shard))
    quick = tier != 'thorough'
    if campaign == 'tap':
        n = (100 if quick else 5000) // nshards + 1
        for _ in range(n):
            A, B, ma, mb = __import__('C10').gen_duplex(rng, tier, rng.random() < 0.5)
            L = {'txa': B['txa'], 'rxa': B.get('rxa'),
                 'params': {'listen_mode': True, 'blocksize': rng.choice([0, 1, 3, 8, 200]), 'stmin': rng.choice([0, 1, 0x7F, 0xF5]),
                            'tx_padding': rng.choice([None, 0x00, 0xAA]), 'max_frame_size': B['params'].get('max_frame_size', 4095),
                            'tx_data_length': rng.choice([8, 64]), 'can_fd': True}}
            pr = PeerRun([A, B, L], links={0: 1, 1: 0}, taps={0: [2]})
            for m in ma:
                pr.send(0, hx(m))
            for m in mb:
                pr.send(1, hx(m))
            steps = 0
            skipped = 0
            st = max(C01.stmin_ns_of(A['params'].get('stmin', 0)), C01.stmin_ns_of(B['params'].get('stmin', 0)))
            while steps < 20000:
                steps += 1
                for src in (0, 1):
                    # with a long separation time every step costs an eighth of the deadlines: no backlog on the links then
                    pr.deliver(src, rng.randint(1, 3) if st <= 20 * 10**6 else len(pr.wire[src]))
                pr.proc(0); pr.proc(1)
                skipped += 1
                # the listener is never left unprocessed beyond its own deadline: with a long separation time every step already
                # costs an eighth of N_Cr and the sender may legitimately use most of it, so the listener keeps up with the receiver
                if rng.random() < 0.6 or skipped > 2 or st > 20 * 10**6:
                    drain(pr)
                    skipped = 0
                if st:
                    pr.tick_all(st + 1)
                if steps % 8 == 0 and pr.quiescent():
                    break
            drain(pr)
            pr.recv_all(1); pr.recv_all(2); pr.recv_all(0)
            pr.close()
            fails = []
            ltx = [l for op, l in zip(pr.case['ops'], pr.lines) if op[0] == 2 and 'tx:' in l]
            if ltx:
                fails.append(('C18:listener-transmitted', 'listener emitted %s' % ltx[0][:80]))
            if pr.delivered[2] != pr.delivered[1]:
                fails.append(('C18:listener-hears-differently', 'listener got %d payloads, receiver %d' % (len(pr.delivered[2]), len(pr.delivered[1]))))
            sample = {'A': A, 'B': B, 'L': L['params'], 'lens': [len(m) for m in ma], 'ops': len(pr.case['ops'])}
            part.hist('listener_blocksize', L['params']['blocksize'])
            C01.check_against_model(part, campaign, pr, fails, sample, THEOREMS)
            part.sample(sample)
    else:
        n = (150 if quick else 8000) // nshards + 1
        for _ in range(n):
            base = k1_fuzz.gen_case(rng, nops=rng.randint(10, 70))
            inst = base['insts'][0]
            for k in ('listen_mode', 'rate_limit_enable'):
                inst['params'].pop(k, None)
            ops0 = [op for op in base['ops'] if op[1] in ('rx', 'proc', 'tick', 'recv', 'stop_receiving')]
            ops0 = [op if op[1] != 'proc' else [0, 'proc', 1, 1] for op in ops0]
            L = dict(inst, params=dict(inst['params'], listen_mode=True, blocksize=rng.choice([0, 1, 5, 250]), stmin=rng.choice([0, 3, 0xF9, 0x7F, 0x7F]),
                                       tx_padding=rng.choice([None, 0x55])))
            if rng.random() < 0.25:
                # a sender that stalls in mid-message for longer than the deadline, then carries on: receiver and listener (whatever
                # separation time the listener is configured with) abandon the message at the same moment
                from streams import encode_stream
                Tms = rng.choice([7, 100, 200])
                inst['params'].update(rx_consecutive_frame_timeout=Tms, blocksize=rng.choice([0, 2]), stmin=0, max_frame_size=4095)
                L = dict(inst, params=dict(inst['params'], listen_mode=True, stmin=rng.choice([0x7F, 0x7F, 0x40, 0])))
                rid_, ext_, pfx_ = reach(inst)
                frames_ = encode_stream(bytes(rng.getrandbits(8) for _ in range(rng.choice([20, 40]))), 8, pfx_, 'min')
                cut = rng.randint(1, len(frames_) - 1)
                stall = Tms * 10**6 + rng.choice([10**6, 5 * 10**6, 20 * 10**6])
                ops0 = [[0, 'rx', rid_, int(ext_), hx(f)] for f in frames_[:cut]] + [[0, 'proc', 1, 1], [0, 'tick', stall], [0, 'proc', 1, 1]] + \
                       [[0, 'rx', rid_, int(ext_), hx(f)] for f in frames_[cut:]] + [[0, 'proc', 1, 1], [0, 'recv']]
            ops = []
            pending_rx = 0

            def drain_both():
                nonlocal pending_rx
                for _ in range(pending_rx + 1):
                    ops.append([0, 'proc', 1, 1])
                    ops.append([1, 'proc', 1, 1])
                pending_rx = 0
            for op in ops0:
                if op[1] == 'proc':
                    drain_both()
                    continue
                if op[1] != 'rx':
                    drain_both()      # both observers have processed every frame before time moves or recv() is called
                else:
                    pending_rx += 1
                ops.append(op)
                ops.append([1] + op[1:])
            drain_both()
            ops.append([0, 'recv']); ops.append([1, 'recv'])
            case = {'insts': [inst, L], 'ops': ops}
            part.distinct(case)

            def oracle(case, lines, insts):
                fails = []
                if case['ops'] != ops:
                    return []       # a shrinking candidate: the pairing is lost, nothing to compare
                r0 = [e for op, l in zip(case['ops'], lines) if op[0] == 0 for e in split_line(l)[0] if e.startswith('recv:') and e != 'recv:none']
                r1 = [e for op, l in zip(case['ops'], lines) if op[0] == 1 for e in split_line(l)[0] if e.startswith('recv:') and e != 'recv:none']
                if any('tx:' in l for op, l in zip(case['ops'], lines) if op[0] == 1):
                    fails.append(('C18:listener-transmitted', 'listener emitted a frame on garbage traffic'))
                if r0 != r1:
                    fails.append(('C18:listener-hears-differently', 'receiver %s listener %s' % (r0[:4], r1[:4])))
                return fails
            lc.run_case(part, campaign, case, oracle=oracle, theorem=THEOREMS + '.C18_silent')
            part.sample({'params': L['params'], 'ops': ops[:8]})
    return part.result()


def run(ctx):
    run_sharded(ctx, 'C18', 'tap')
    run_sharded(ctx, 'C18', 'garbage')
    run_sharded(ctx, 'C18', 'listener_sends')
    run_sharded(ctx, 'C18', 'api', nshards=2)
    import apiuse
    return RULE + apiuse.rule_text('C18'), ASSUME
