"""C08 - separation time (STmin) requested by the receiver is honoured."""
import random
from core import *
from gen import *
from runner import Part, run_sharded
import lc
import coqtables

THEOREMS = 'IsoTp.Props.C08'
RULE = ('sender against a scripted receiver on the virtual clock: all 137 valid STmin bytes x override_receiver_stmin in {None, 0, 0.0003, '
        '0.05} x block sizes {0,1,3} x a second Flow Control with another STmin at a block boundary or mid-block x schedules of process() '
        'calls with steps in {0, st/3, st-1 ns, st+1 ns, 5 st} and bursts of calls at one instant. Oracle: between successive Consecutive '
        'Frames at least the separation time of the most recent ContinueToSend (or the override) elapses on the virtual clock; with a zero '
        'separation time one process() call emits every Consecutive Frame up to the end of the block - on a fresh layer, after an earlier message and after an earlier block paced with 5 ms. Plus the exhaustive 256-entry STmin '
        'decoding table (implementation vs Coq PrimFloat definition vs documented values). All runs replayed on the extracted model.'
        ' Stray Wait flow controls (refused: wftmax=0) carrying other STmin bytes are mixed in: only a ContinueToSend changes the separation time.')
ASSUME = ['"handed to the CAN layer" is the processing instant of the virtual clock; pacing by next_cf_delay()/wait_func in the worker thread is runtime']


def st_ns(b):
    return b * 10**6 if b <= 0x7F else (b - 0xF0) * 10**5


def gen_case(rng, b1):
    a, _ = rand_inst_pair(rng)
    ov = rng.choice([None, None, 0, 0.0003, 0.05])
    p = {'stmin': 0, 'rx_flowcontrol_timeout': 10000}
    if ov is not None:
        p['override_receiver_stmin'] = ov
    inst = dict(a, params=p)
    rid, ext, pfx = reach(inst)
    bs = rng.choice([0, 1, 3])
    b2 = rng.choice(VALID_STMIN)
    change = rng.choice(['none', 'boundary', 'midblock'])
    fc = lambda bs_, st_: [0, 'rx', rid, int(ext), hx(pfx + bytes([0x30, bs_, st_]))]
    n = rng.choice([30, 60])
    ops = [[0, 'send', None, hx(bytes(range(n)))], [0, 'proc', 1, 1], fc(bs, b1)]
    st1 = sec_to_ns(ov) if ov is not None else st_ns(b1)
    st2 = sec_to_ns(ov) if ov is not None else st_ns(b2)
    cur = st1
    emitted_guess = 0
    stray = rng.random() < 0.4     # stray Wait / unknown-status Flow Controls with another STmin byte: refused (wftmax=0), must not change the pacing
    for step in range(rng.randint(12, 40)):
        r = rng.random()
        if stray and rng.random() < 0.15:
            ops.append([0, 'rx', rid, int(ext), hx(pfx + bytes([0x31, rng.choice([0, bs]), rng.choice([0, 0, 1, 0xF1, b2])]))])
        if r < 0.55:
            ops.append([0, 'proc', 1, 1])
        elif r < 0.65:
            ops.append([0, 'proc', 0, 1])
        elif r < 0.9:
            base = max(cur, 1)
            ops.append([0, 'tick', rng.choice([0, base // 3, max(0, base - 1), base + 1, 5 * base])])
        elif change != 'none' and r < 0.95:
            ops.append(fc(bs, b2))
            cur = st2
        else:
            ops += [[0, 'proc', 1, 1]] * 3
        if bs and rng.random() < 0.35:
            ops.append(fc(bs, b2 if change == 'boundary' else b1))
            if change == 'boundary':
                cur = st2
    # finish the transfer
    for _ in range(n):
        ops += [fc(0, b1) if bs else [0, 'tick', 0], [0, 'tick', max(st1, st2) + 1], [0, 'proc', 1, 1]]
    return {'insts': [inst], 'ops': ops, 'nops': len(ops), 'override': ov, 'b1': b1, 'b2': b2, 'bs': bs}


def oracle(case, lines, insts):
    if case.get('nops') != len(case['ops']):
        return []
    fails = []
    inst = case['insts'][0]
    rid, ext, pfx = reach(inst)
    tplen = 1 if inst['txa']['mode'].startswith(('Extended', 'Mixed')) else 0
    ov = case['override']
    now = 0
    last_cf = None
    # Flow Controls are consumed from the reception source in order; ProcessStats.received of each process() call says how many
    # were read during that call.  The separation time in force for a Consecutive Frame is that of one of the Flow Controls in
    # force during the call that emitted it: the last one consumed before the call, or any consumed during it.
    hist = []
    consumed = 0
    for op, l in zip(case['ops'], lines):
        evs, st = split_line(l)
        if op[1] == 'tick':
            now += int(op[2])
        elif op[1] == 'rx':
            d = unhx(op[4])[len(pfx):]
            if d[0] & 0xF == 0 or not hist:
                hist.append(sec_to_ns(ov) if ov is not None else st_ns(d[2]))
            else:
                hist.append(hist[-1])      # only a ContinueToSend carries a separation time to honour
        before = consumed
        for e in evs:
            if e.startswith('stats:'):
                consumed += int(e[6:].split(',')[0])
        for e in evs:
            if e.startswith('tx:'):
                d = unhx(e.split(':')[6])
                t = d[tplen] >> 4
                if t == 1:
                    last_cf = None
                elif t == 2:
                    cands = hist[max(0, before - 1):consumed]
                    need = min(cands) if cands else 0
                    if last_cf is not None and now - last_cf < need:
                        fails.append(('C08:stmin-not-respected', 'consecutive frames %d ns apart, separation time requested >= %d ns' % (now - last_cf, need)))
                    last_cf = now
    done = [e for l in lines for e in split_line(l)[0] if e.startswith('done:')]
    if done != ['done:0:1']:
        fails.append(('C08:transfer-not-completed', 'completions %s' % done))
    return fails


def gen_zero(rng):
    a, _ = rand_inst_pair(rng)
    ov = rng.choice([None, 0, 0.0])
    p = {'stmin': 0}
    if ov is not None:
        p['override_receiver_stmin'] = ov
    inst = dict(a, params=p)
    rid, ext, pfx = reach(inst)
    bs = rng.choice([0, 2, 5])
    stb = 0 if ov is None else rng.choice(VALID_STMIN)
    plen = 1 if inst['txa']['mode'].startswith(('Extended', 'Mixed')) else 0
    n = rng.choice([40, 90])
    ncf = -(-(n - (6 - plen)) // (7 - plen))
    fc = lambda bs_, st_: [0, 'rx', rid, int(ext), hx(pfx + bytes([0x30, bs_, st_]))]
    pre = []
    expect = ncf if bs == 0 else min(bs, ncf)
    hist = rng.choice(['fresh', 'fresh', 'earlier_message', 'earlier_block']) if ov is None else 'fresh'
    if hist == 'earlier_message':
        # the layer has paced an earlier message with a non-zero separation time: the zero of the next Flow Control replaces it
        pre = [[0, 'send', None, hx(bytes(range(20)))], [0, 'proc', 1, 1], fc(0, 5)] + [[0, 'tick', 5100000], [0, 'proc', 1, 1]] * 5
    ops = pre + [[0, 'send', None, hx(bytes(range(n)))], [0, 'proc', 1, 1]]
    if hist == 'earlier_block':
        # ... or an earlier block of the same message
        ops += [fc(2, 5)] + [[0, 'tick', 5100000], [0, 'proc', 1, 1]] * 3
        expect = (ncf - 2) if bs == 0 else min(bs, ncf - 2)
    ops += [fc(bs, stb), [0, 'proc', 1, 1]]
    return {'insts': [inst], 'ops': ops, 'nops': len(ops), 'expect_cf': expect, 'override': ov, 'history': hist}


def oracle_zero(case, lines, insts):
    if case.get('nops') != len(case['ops']):
        return []
    n = sum(1 for e in split_line(lines[-1])[0] if e.startswith('tx:'))
    if n != case['expect_cf']:
        return [('C08:zero-stmin-delays-frames', 'with a zero separation time one process() call emitted %d consecutive frames, expected %d (whole block)' % (n, case['expect_cf']))]
    return []


def run_shard(campaign, shard, nshards, seed, tier):
    if campaign == 'api':
        import apiuse
        return apiuse.run_api('C08', shard, nshards, seed, tier)
    part = Part()
    rng = random.Random('%s/%s/%s' % (seed, campaign, shard))
    quick = tier != 'thorough'
    if campaign == 'pacing':
        reps = 3 if quick else 80
        for i, b in enumerate(VALID_STMIN):
            if i % nshards != shard:
                continue
            for _ in range(reps):
                case = gen_case(rng, b)
                part.hist('stmin_class', 'ms' if b <= 0x7F else 'us')
                part.hist('override', str(case['override']))
                part.hist('bs', case['bs'])
                part.distinct(case)
                lc.run_case(part, campaign, case, oracle=oracle, theorem=THEOREMS)
                part.sample({k: case[k] for k in ('override', 'b1', 'b2', 'bs')} | {'ops': case['ops'][:8]})
    else:
        for _ in range((120 if quick else 4000) // nshards + 1):
            case = gen_zero(rng)
            part.distinct(case)
            lc.run_case(part, campaign, case, oracle=oracle_zero, theorem=THEOREMS)
            part.sample({'ops': case['ops'], 'expect_cf': case['expect_cf']})
    return part.result()


def run(ctx):
    run_sharded(ctx, 'C08', 'pacing')
    run_sharded(ctx, 'C08', 'zero')
    ok = coqtables.check_stmin_table(ctx)
    ctx.exhaustive['all 137 valid STmin bytes in the pacing campaign; all 256 bytes in the decoding table'] = ok
    run_sharded(ctx, 'C08', 'api', nshards=2)
    import apiuse
    return RULE + apiuse.rule_text('C08'), ASSUME
