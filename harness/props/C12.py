"""C12 - every send request terminates exactly once with the right outcome."""
import random
import threading
import queue
import time
from core import *
from gen import *
from runner import Part, run_sharded
import lc

THEOREMS = 'IsoTp.Props.C12'
RULE = ('(logic) queues of 1-4 requests mixing empty, single-frame, multi-frame, generator-backed (exact / short) and rate-limited payloads '
        'x peers {cooperative, Overflow, silent (timeout), Wait} x stop_sending() / reset() inserted at every operation index; the first '
        'instant at which each request is completed and its success flag are observed after every operation. Oracle: every accepted '
        'request is completed exactly once; success only after its last frame was produced; failure for protocol aborts, stop_sending and '
        'reset (queued requests included); at quiescence nothing is left uncompleted. Replayed on the extracted model. '
        '(blocking) real threads calling send() with blocking_send=True on a started TransportLayer: returns normally iff transmitted '
        'completely (single frames included), BlockingSendFailure for aborted ones, BlockingSendTimeout only after send_timeout elapsed, '
        'no caller left blocked after stop().'
        ' (blocking, hand-over) the request is completed between its hand-over to the layer and the moment the caller starts to wait (post_send_callback drives process() / reset(); a processing thread completes while the caller is held in the callback): send() returns or raises BlockingSendFailure, never times out.'
        ' (two_callers) a queued blocking send() times out while another caller has a request in transmission to a cooperative peer: the second gets BlockingSendTimeout, the first returns normally and its payload is delivered.'
        ' (stop_without_worker) stop() on a layer whose worker thread is not running (never started / already stopped) with a caller blocked in send(): released with BlockingSendFailure.'
        ' (logic) rule: MaximumWaitFrameReachedError needs more than wftmax Wait frames since the First Frame of the message.')
ASSUME = ['the blocking variant depends on threading.Event and the worker thread: sampled with real threads, not proved']


def gen_logic(rng):
    a, _ = rand_inst_pair(rng)
    lim = rng.random() < 0.3
    p = {'rx_flowcontrol_timeout': 50, 'wftmax': rng.choice([0, 2]), 'stmin': 0}
    if lim:
        p.update(rate_limit_enable=True, rate_limit_max_bitrate=512, rate_limit_window_size=0.125)
    inst = dict(a, params=p)
    rid, ext, pfx = reach(inst)
    plen = len(pfx)
    fc = lambda st, bs: [0, 'rx', rid, int(ext), hx(pfx + bytes([0x30 | st, bs, 0]))]
    peer = rng.choice(['coop', 'coop', 'overflow', 'silent', 'wait'])
    reqs = []
    ops = []
    for _ in range(rng.randint(1, 4)):
        kind = rng.choice(['empty', 'sf', 'mf', 'gen_ok', 'gen_short', 'mf'])
        if kind == 'empty':
            ops.append([0, 'send', None, '-']); reqs.append(('empty', 0))
        elif kind == 'sf':
            n = rng.randint(1, 7 - plen); ops.append([0, 'send', None, hx(bytes(range(n)))]); reqs.append(('sf', n))
        elif kind == 'mf':
            n = rng.choice([8, 20, 50]); ops.append([0, 'send', None, hx(bytes(range(n)))]); reqs.append(('mf', n))
        elif kind == 'gen_ok':
            n = rng.choice([5, 20]); ops.append([0, 'sendgen', None, n, hx(bytes(range(n + 3))), None]); reqs.append(('gen_ok', n))
        else:
            n = rng.choice([5, 20, 40]); ops.append([0, 'sendgen', None, n, hx(bytes(range(min(n - 1, rng.choice([max(0, n - rng.randint(1, 4)), rng.randint(0, n - 1), rng.randint(0, 5), 0]))))), None]); reqs.append(('gen_short', n))
    body = []
    for step in range(rng.randint(4, 14)):
        body.append([0, 'proc', 1, 1])
        if peer == 'coop':
            body.append(fc(0, rng.choice([0, 2])))
        elif peer == 'overflow' and rng.random() < 0.4:
            body.append(fc(2, 0))
        elif peer == 'wait' and rng.random() < 0.5:
            body.append(fc(1, 0))
        elif peer == 'wait' and rng.random() < 0.3:
            body.append(fc(0, 0))
        if rng.random() < 0.4:
            body.append([0, 'tick', rng.choice([1000, 20 * 10**6, 51 * 10**6, 130 * 10**6])])
    ops += body
    interrupt = rng.choice(['none', 'stop_sending', 'reset', 'stop_sending', 'reset'])
    if interrupt != 'none':
        ops.insert(rng.randint(0, len(ops)), [0, interrupt])
    mark = len(ops)
    # run to quiescence: cooperative flow control, time passing
    for _ in range(16):
        ops += [[0, 'tick', 130 * 10**6], fc(0, 0), [0, 'proc', 1, 1], [0, 'proc', 1, 1]]
    return {'insts': [inst], 'ops': ops, 'nops': len(ops), 'reqs': reqs, 'peer': peer, 'interrupt': interrupt, 'mark': mark}


def oracle_logic(case, lines, insts):
    if case.get('nops') != len(case['ops']):
        return []
    fails = []
    inst = case['insts'][0]
    tplen = 1 if inst['txa']['mode'].startswith(('Extended', 'Mixed')) else 0
    accepted = 0
    done = {}
    order = []
    frames_before = {}
    ntx = 0
    for op, l in zip(case['ops'], lines):
        evs, st = split_line(l)
        for e in evs:
            if e == 'send:ok':
                accepted += 1
            elif e.startswith('tx:'):
                ntx += 1
            elif e.startswith('done:'):
                _, rid, ok = e.split(':')
                rid = int(rid)
                if rid in done:
                    fails.append(('C12:completed-twice', 'request %d completed again (%s) after %s' % (rid, ok, done[rid])))
                else:
                    done[rid] = int(ok)
                    order.append(rid)
                    frames_before[rid] = ntx
            elif e == 'crash':
                fails.append(('C12:exception-escaped', op[1]))
    if 'trans=0' in lines[-1]:
        missing = [r for r in range(accepted) if r not in done]
        if missing:
            fails.append(('C12:request-never-completed', 'requests %s never completed (accepted %d, completions %s)' % (missing, accepted, done)))
    else:
        fails.append(('C12:not-quiescent', 'still transmitting at the end: %s' % split_line(lines[-1])[1]))
    import fcrules
    fails += fcrules.wait_budget_fails(case, lines, 'C12:failed-within-wait-budget')
    # success only for requests whose whole segmentation was produced: count frames between completions
    reqs = case['reqs']
    # map accepted requests to reqs (all sends here are accepted)
    for rid, ok in done.items():
        if rid < len(reqs):
            kind, n = reqs[rid]
            if kind == 'gen_short' and ok == 1:
                fails.append(('C12:short-generator-reported-success', 'request %d declared %d bytes with a shorter generator but succeeded' % (rid, n)))
            if kind == 'empty' and ok != 1 and case['interrupt'] == 'none':
                fails.append(('C12:empty-payload-failed', 'request %d (empty payload) completed with failure' % rid))
    # exactly the successful requests' frames were produced completely: total frames >= sum of frame counts of successful requests
    plen = tplen
    need = 0
    for rid, ok in done.items():
        if ok and rid < len(reqs):
            kind, n = reqs[rid]
            if kind == 'empty':
                continue
            need += 1 if n <= 7 - plen else 1 + -(-(n - (6 - plen)) // (7 - plen))
    if ntx < need:
        fails.append(('C12:success-before-last-frame', '%d frames emitted in total but the successful requests need %d' % (ntx, need)))
    return fails


# ------------------------------------------------------------------ blocking variant (real threads)
def blocking_run(rng, scenario):
    import isotp
    q12, q21 = queue.Queue(), queue.Queue()

    def rxf(q):
        def f(timeout):
            try:
                return q.get(timeout=timeout)
            except queue.Empty:
                return None
        return f
    a = isotp.Address(isotp.AddressingMode.Normal_11bits, txid=0x111, rxid=0x222)
    b = isotp.Address(isotp.AddressingMode.Normal_11bits, txid=0x222, rxid=0x111)
    pa = {'blocking_send': True, 'rx_flowcontrol_timeout': 300, 'stmin': 0}
    A = isotp.TransportLayer(rxfn=rxf(q21), txfn=q12.put, address=a, params=pa, read_timeout=0.02)
    peer_mode = scenario['peer']
    B = isotp.TransportLayer(rxfn=rxf(q12), txfn=q21.put, address=b, params={'max_frame_size': 30 if peer_mode == 'overflow' else 4095}, read_timeout=0.02)
    A.start()
    if peer_mode != 'absent':
        B.start()
    res = {}
    try:
        t0 = time.time()
        try:
            A.send(bytes(range(scenario['n'] % 256)) * (1 + scenario['n'] // 256) if scenario['n'] > 255 else bytes(range(scenario['n'])), send_timeout=scenario['timeout'])
            res['outcome'] = 'ok'
        except isotp.BlockingSendTimeout:
            res['outcome'] = 'timeout'
        except isotp.BlockingSendFailure:
            res['outcome'] = 'failure'
        except Exception as e:
            res['outcome'] = 'other:' + type(e).__name__
        res['elapsed'] = time.time() - t0
        if peer_mode not in ('absent',):
            got = B.recv(block=True, timeout=1.0) if res['outcome'] == 'ok' else None
            res['delivered'] = got is not None
    finally:
        A.stop()
        if peer_mode != 'absent':
            B.stop()
    return res


def blocking_stop_run():
    """one thread blocked in send(multi-frame) waiting for a flow control that never comes, a second one queued behind it;
    stop() must release both with BlockingSendFailure."""
    import isotp
    q = queue.Queue()

    def rxf(timeout):
        time.sleep(min(timeout, 0.02))
        return None
    a = isotp.Address(isotp.AddressingMode.Normal_11bits, txid=0x111, rxid=0x222)
    A = isotp.TransportLayer(rxfn=rxf, txfn=q.put, address=a, params={'blocking_send': True, 'rx_flowcontrol_timeout': 20000}, read_timeout=0.02)
    A.start()
    out = {}

    def worker(name, n):
        try:
            A.send(bytes(n), send_timeout=8.0)
            out[name] = 'ok'
        except isotp.BlockingSendTimeout:
            out[name] = 'timeout'
        except isotp.BlockingSendFailure:
            out[name] = 'failure'
        except Exception as e:
            out[name] = 'other:' + type(e).__name__
    t1 = threading.Thread(target=worker, args=('active', 30), daemon=True)
    t1.start()
    time.sleep(0.3)
    t2 = threading.Thread(target=worker, args=('queued', 20), daemon=True)
    t2.start()
    time.sleep(0.2)
    t0 = time.time()
    A.stop()
    t1.join(3.0)
    t2.join(3.0)
    return {'outcomes': dict(out), 'alive': [t1.is_alive(), t2.is_alive()], 'elapsed': time.time() - t0, 'transmitting': A.transmitting()}


def stop_without_worker_run(kind):
    """stop() on a layer whose worker thread is not running - never started ('never_started'), or stopped before the request was handed
    over ('stopped') - with a caller blocked in send(): stop() drops the queued request, the caller must be released with
    BlockingSendFailure, not left waiting for its timeout."""
    import isotp
    q = queue.Queue()

    def rxf(timeout):
        time.sleep(min(timeout, 0.02))
        return None
    a = isotp.Address(isotp.AddressingMode.Normal_11bits, txid=0x111, rxid=0x222)
    A = isotp.TransportLayer(rxfn=rxf, txfn=q.put, address=a, params={'blocking_send': True}, read_timeout=0.02)
    if kind == 'stopped':
        A.start()
        time.sleep(0.1)
        A.stop()
    out = {}

    def worker():
        t0 = time.time()
        try:
            A.send(bytes(30), send_timeout=6.0)
            out['caller'] = 'ok'
        except isotp.BlockingSendTimeout:
            out['caller'] = 'timeout'
        except isotp.BlockingSendFailure:
            out['caller'] = 'failure'
        except Exception as e:
            out['caller'] = 'other:' + type(e).__name__
        out['waited'] = round(time.time() - t0, 2)
    t1 = threading.Thread(target=worker, daemon=True)
    t1.start()
    time.sleep(0.3)
    A.stop()
    t1.join(3.0)
    return {'kind': kind, 'outcomes': dict(out), 'alive': t1.is_alive(), 'transmitting': A.transmitting()}


def handover_run(kind):
    """the request is completed between its hand-over to the layer and the moment the caller starts to wait: by a post_send_callback
    that drives process() itself ('callback'), that drops the request with reset() ('abort'), or by another thread processing while the caller is
    held up in the callback ('thread').  send() must return (or raise BlockingSendFailure for the abort) - never time out."""
    import isotp
    sent = []
    holder = {}
    stop = threading.Event()

    def cb(req):
        if kind == 'callback':
            holder['l'].process()
        elif kind == 'abort':
            holder['l'].reset()
        else:
            time.sleep(0.15)        # the processing thread completes the request meanwhile
    a = isotp.Address(isotp.AddressingMode.Normal_11bits, txid=0x111, rxid=0x222)
    l = isotp.TransportLayerLogic(rxfn=lambda: None, txfn=sent.append, address=a, params={'blocking_send': True}, post_send_callback=cb)
    holder['l'] = l
    th = None
    if kind == 'thread':
        def loop():
            while not stop.is_set():
                l.process()
                time.sleep(0.005)
        th = threading.Thread(target=loop, daemon=True)
        th.start()
    t0 = time.time()
    try:
        l.send(bytes([1, 2, 3]), send_timeout=1.0)
        out = 'ok'
    except isotp.BlockingSendTimeout:
        out = 'timeout'
    except isotp.BlockingSendFailure:
        out = 'failure'
    except Exception as e:
        out = 'other:' + type(e).__name__
    stop.set()
    if th:
        th.join(2.0)
    return {'outcome': out, 'elapsed': time.time() - t0, 'frames': len(sent)}


def two_callers_run():
    """two threads call a blocking send(): the first request is in transmission to a cooperative peer (paced by the peer's STmin, so
    it takes a few hundred ms), the second is queued behind it with a send_timeout that elapses meanwhile.  The second caller gets
    BlockingSendTimeout; the first one's transfer is not disturbed: it returns normally and the peer receives its payload."""
    import isotp
    q12, q21 = queue.Queue(), queue.Queue()

    def rxf(q):
        def f(timeout):
            try:
                return q.get(timeout=timeout)
            except queue.Empty:
                return None
        return f
    a = isotp.Address(isotp.AddressingMode.Normal_11bits, txid=0x111, rxid=0x222)
    b = isotp.Address(isotp.AddressingMode.Normal_11bits, txid=0x222, rxid=0x111)
    A = isotp.TransportLayer(rxfn=rxf(q21), txfn=q12.put, address=a, params={'blocking_send': True, 'stmin': 0}, read_timeout=0.02)
    B = isotp.TransportLayer(rxfn=rxf(q12), txfn=q21.put, address=b, params={'stmin': 20, 'blocksize': 0}, read_timeout=0.02)
    A.start(); B.start()
    out = {}
    p1 = bytes(range(150))

    def worker(name, payload, to):
        try:
            A.send(payload, send_timeout=to)
            out[name] = 'ok'
        except isotp.BlockingSendTimeout:
            out[name] = 'timeout'
        except isotp.BlockingSendFailure:
            out[name] = 'failure'
        except Exception as e:
            out[name] = 'other:' + type(e).__name__
    try:
        t1 = threading.Thread(target=worker, args=('first', p1, 5.0), daemon=True)
        t1.start()
        time.sleep(0.1)
        t2 = threading.Thread(target=worker, args=('second', bytes([9, 9, 9]), 0.1), daemon=True)
        t2.start()
        t1.join(6.0); t2.join(6.0)
        got = B.recv(block=True, timeout=1.0)
    finally:
        A.stop(); B.stop()
    return {'outcomes': dict(out), 'first_delivered': got is not None and bytes(got) == p1}


def oracle_blocking(sc, res):
    fails = []
    o = res['outcome']
    if sc['peer'] == 'present':
        if o != 'ok':
            fails.append(('C12:blocking-send-of-complete-transfer-raised', 'payload of %d bytes to a cooperative peer: %s after %.2fs' % (sc['n'], o, res['elapsed'])))
        elif not res.get('delivered'):
            fails.append(('C12:blocking-send-returned-before-transmission', 'send() returned but the peer received nothing'))
    elif sc['peer'] == 'overflow':
        if o != 'failure':
            fails.append(('C12:blocking-send-of-aborted-transfer', 'peer answered Overflow, send() outcome %s' % o))
    elif sc['peer'] == 'absent':
        if sc['n'] <= 7:
            if o != 'ok':
                fails.append(('C12:blocking-send-of-complete-transfer-raised', 'single frame with no peer: %s' % o))
        elif sc['timeout'] < 0.25:
            if o != 'timeout' or res['elapsed'] < sc['timeout'] - 0.02:
                fails.append(('C12:blocking-timeout', 'no peer, send_timeout %.2f: %s after %.2fs' % (sc['timeout'], o, res['elapsed'])))
        else:
            if o != 'failure':
                fails.append(('C12:blocking-send-of-aborted-transfer', 'no peer, flow control timeout 0.3 s, send_timeout %.2f: %s' % (sc['timeout'], o)))
    return fails


def run_shard(campaign, shard, nshards, seed, tier):
    if campaign == 'api':
        import apiuse
        return apiuse.run_api('C12', shard, nshards, seed, tier)
    part = Part()
    rng = random.Random('%s/%s/%s' % (seed, campaign, shard))
    quick = tier != 'thorough'
    if campaign == 'logic':
        for _ in range((1600 if quick else 60000) // nshards + 1):
            case = gen_logic(rng)
            part.distinct(case)
            part.hist('peer', case['peer'])
            part.hist('interrupt', case['interrupt'])
            for k, n in case['reqs']:
                part.hist('request_kind', k)
            lc.run_case(part, campaign, case, oracle=oracle_logic, theorem=THEOREMS)
            part.sample({'reqs': case['reqs'], 'peer': case['peer'], 'interrupt': case['interrupt'], 'ops': case['ops'][:6]})
    else:
        scs = []
        for n in (1, 5, 7, 8, 40, 300):
            scs.append({'peer': 'present', 'n': n, 'timeout': 3.0})
        scs += [{'peer': 'overflow', 'n': 100, 'timeout': 3.0}, {'peer': 'absent', 'n': 3, 'timeout': 1.0},
                {'peer': 'absent', 'n': 50, 'timeout': 0.1}, {'peer': 'absent', 'n': 50, 'timeout': 2.0}]
        reps = 1 if quick else 10
        k = 0
        if shard == 0:
            for rep in range(reps):
                res = blocking_stop_run()
                part.d['evaluations'] += 1
                part.distinct(('stop_while_blocked', rep))
                part.hist('blocking_outcome', 'stop_while_blocked/%s' % sorted(res['outcomes'].items()))
                if res['alive'] != [False, False] or res['outcomes'] != {'active': 'failure', 'queued': 'failure'} or res['transmitting']:
                    part.violation('oracle', campaign, 'C12:caller-left-blocked-after-stop',
                                   'stop() with a caller blocked in send(): outcomes %s, still blocked %s, transmitting=%s' % (res['outcomes'], res['alive'], res['transmitting']),
                                   {'scenario': 'stop_while_blocked', 'result': res})
                part.sample({'scenario': 'stop_while_blocked', 'result': res})
        if shard == 3 % nshards:
            for rep in range(reps):
                for kind in ('never_started', 'stopped'):
                    res = stop_without_worker_run(kind)
                    part.d['evaluations'] += 1
                    part.distinct(('stop_without_worker', kind, rep))
                    part.hist('blocking_outcome', 'stop_without_worker-%s/%s' % (kind, res['outcomes'].get('caller')))
                    if res['alive'] or res['outcomes'].get('caller') != 'failure' or res['transmitting']:
                        part.violation('oracle', campaign, 'C12:caller-left-blocked-after-stop',
                                       'stop() on a layer without a running worker (%s) with a caller blocked in send(): outcome %s, still blocked %s, transmitting=%s' % (
                                           kind, res['outcomes'], res['alive'], res['transmitting']), {'scenario': 'stop_without_worker', 'result': res})
                    part.sample({'scenario': 'stop_without_worker', 'result': res})
        if shard == 2 % nshards:
            for rep in range(reps):
                res = two_callers_run()
                part.d['evaluations'] += 1
                part.distinct(('two_callers', rep))
                part.hist('blocking_outcome', 'two_callers/%s' % sorted(res['outcomes'].items()))
                if res['outcomes'].get('first') != 'ok' or not res['first_delivered'] or res['outcomes'].get('second') not in ('timeout',):
                    part.violation('oracle', campaign, 'C12:another-callers-request-disturbed',
                                   'a queued send() timed out while another request was in transmission to a cooperative peer: outcomes %s, first payload delivered=%s' % (
                                       res['outcomes'], res['first_delivered']), {'scenario': 'two_callers', 'result': res})
        if shard == 1 % nshards:
            for rep in range(reps):
                for kind, want in (('callback', 'ok'), ('abort', 'failure'), ('thread', 'ok')):
                    res = handover_run(kind)
                    part.d['evaluations'] += 1
                    part.distinct(('handover', kind, rep))
                    part.hist('blocking_outcome', 'handover-%s/%s' % (kind, res['outcome']))
                    if res['outcome'] != want:
                        part.violation('oracle', campaign, 'C12:completion-lost-at-hand-over',
                                       'request completed (%s) before the caller started to wait: send() outcome %s after %.2fs, expected %s' % (kind, res['outcome'], res['elapsed'], want),
                                       {'scenario': 'handover-' + kind, 'result': res})
        for rep in range(reps):
            for sc in scs:
                k += 1
                if k % nshards != shard:
                    continue
                res = blocking_run(rng, sc)
                part.d['evaluations'] += 1
                part.distinct((sc['peer'], sc['n'], sc['timeout'], rep))
                part.hist('blocking_outcome', '%s/%s' % (sc['peer'], res['outcome']))
                f = oracle_blocking(sc, res)
                if f:
                    part.violation('oracle', campaign, f[0][0], f[0][1], {'scenario': sc, 'result': res})
                part.sample({'scenario': sc, 'result': res})
    return part.result()


def run(ctx):
    run_sharded(ctx, 'C12', 'logic')
    run_sharded(ctx, 'C12', 'blocking', nshards=4)
    run_sharded(ctx, 'C12', 'api', nshards=2)
    import apiuse
    return RULE + apiuse.rule_text('C12'), ASSUME
