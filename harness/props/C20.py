"""C20 - socket bind maps every address to the kernel addressing the Python layer uses."""
import random
from core import *
from gen import *
from runner import Part, run_sharded
import lc
import fake_kernel
import vclock  # noqa: F401,E402  (clock trampolines go in before the library binds anything)
import isotp
from C19 import parse_state, tok, GEN_KEYS

THEOREMS = 'IsoTp.Props.C20'
RULE = ('random addresses (7 modes, asymmetric combinations incl. inconsistent ones, custom id bases) x previously configured options '
        '(none, padding, tx_stmin, ext_address / rx_ext_address set by hand, flow-control options) x call orders of set_*, bind, send, recv, '
        'close on an isotp.socket over a fake kernel socket. The raw log (setsockopt images, bind tuple) is interpreted by the extracted Coq '
        'kernel Spec; oracle: the kernel emits exactly the identifier / id type / prefix byte that a TransportLayerLogic with the same '
        'address emits for physical addressing, accepts exactly the physically addressed frames that layer accepts (id with every single '
        'bit flipped, other id type, first byte variations), every other option is preserved by bind(), inexpressible asymmetric '
        'addresses -> ValueError with nothing bound, set_* after bind / send,recv before bind or after close -> RuntimeError. The call '
        'results and setsockopt/bind arguments are compared with the extracted Coq wrapper model.'
        ' Addresses also carry legal parameters their mode does not use (address_extension in Normal modes, ...): they must not reach the kernel.'
        ' (bind_bind) a second bind() of the same socket with another address: no option of the bound socket is rewritten; compared with the wrapper model.')
ASSUME = ['identifiers within their documented ranges (11 / 29 bits); the Linux kernel is represented by Spec/Kernel.v']


def kq(m, line):
    m.p.stdin.write(line + '\n'); m.p.stdin.flush()
    return m.p.stdout.readline().strip()


def run_case(part, m, rng, campaign):
    asym = rng.random() < 0.35
    a = with_stray(rng, rand_address(rng))
    inst = {'txa': a, 'rxa': with_stray(rng, mirror(rand_address(rng))) if asym else None}
    try:
        addr = make_layer_address(inst)
    except ValueError:
        return
    rxa = rx_addr_of(inst)
    undo = fake_kernel.install()
    try:
        s = isotp.socket()
        fk = fake_kernel.CREATED[-1]       # the kernel socket the wrapper has just created
        kq(m, 'S reset'); kq(m, 'K reset')
        prior = rng.choice(['none', 'pad', 'txstmin', 'ext', 'ext_rx', 'fc', 'all'])
        calls = []
        if prior in ('pad', 'all'):
            calls.append(('setopts', dict(txpad=0x11, rxpad=0x22, frame_txtime=1234)))
        if prior in ('txstmin', 'all'):
            calls.append(('setopts', dict(tx_stmin=700000)))
        if prior in ('ext', 'all'):
            calls.append(('setopts', dict(ext_address=0x99)))
        if prior in ('ext_rx',):
            calls.append(('setopts', dict(ext_address=0x99, rx_ext_address=0x77)))
        if prior in ('fc', 'all'):
            calls.append(('setfc', dict(bs=5, stmin=3)))
        order = rng.choice(['bind', 'bind', 'send_bind', 'bind_set', 'bind_close', 'bind_bind'])
        if order == 'send_bind':
            calls += [('send', {}), ('recv', {})]
        calls.append(('bind', {}))
        if order == 'bind_set':
            calls += [('setopts', dict(txpad=1)), ('setfc', dict(bs=1)), ('setll', dict(mtu=16)), ('send', {})]
        if order == 'bind_close':
            calls += [('send', {}), ('close', {}), ('send', {}), ('recv', {})]
        inst2 = addr2 = None
        if order == 'bind_bind':
            # a second bind() of the same socket with another address: whatever it decides, no option of a bound socket is rewritten
            for _try in range(20):
                inst2 = {'txa': with_stray(rng, rand_address(rng)), 'rxa': None}
                try:
                    addr2 = make_layer_address(inst2)
                    break
                except ValueError:
                    addr2 = None
            if addr2 is not None:
                calls.append(('bind2', {}))
        state_before_bind = None
        part.hist('prior', prior)
        part.hist('order', order)
        part.hist('mode', a['mode'] + ('/asym' if asym else ''))
        case = {'inst': inst, 'prior': prior, 'order': order}
        consistent = (len(addr.get_tx_payload_prefix()) > 0) == (addr.get_rx_prefix_size() > 0)
        for name, kw in calls:
            part.d['evaluations'] += 1
            n0 = len(fk.log)
            if name == 'bind':
                kq(m, 'K state')
                m.p.stdin.write('K state\n'); m.p.stdin.flush(); state_before_bind = parse_state(m.p.stdout.readline())
            try:
                if name == 'setopts':
                    s.set_opts(**kw)
                elif name == 'setfc':
                    s.set_fc_opts(**kw)
                elif name == 'setll':
                    s.set_ll_opts(**kw)
                elif name == 'bind':
                    s.bind('vcan0', addr)
                elif name == 'bind2':
                    was_bound = s.bound
                    s.bind('vcan0', addr2)
                elif name == 'send':
                    s.send(b'\x01\x02')
                elif name == 'recv':
                    s.recv()
                elif name == 'close':
                    s.close()
                outcome = 'ok'
            except ValueError:
                outcome = 'valueerror'
            except RuntimeError:
                outcome = 'runtimeerror'
            except Exception as e:
                outcome = 'other:' + type(e).__name__
            log = fk.log[n0:]
            parts = []
            for c in log:
                if c[0] == 'setsockopt':
                    parts.append('set:%d:%d:%s' % (c[1], c[2], c[3].hex()))
                    kq(m, 'K set %d %d %s' % (c[1], c[2], c[3].hex()))
                elif c[0] == 'bind':
                    parts.append('bind:%d:%d' % (c[1][1], c[1][2]))
                    kq(m, 'K bind %d %d' % (c[1][1], c[1][2]))
            impl_line = ' '.join([outcome] + parts) if name not in ('close',) else 'ok'
            if name == 'setopts':
                mo = kq(m, 'S setopts ' + ' '.join(tok(kw.get(k)) for k in GEN_KEYS))
            elif name == 'setfc':
                mo = kq(m, 'S setfc ' + ' '.join(tok(kw.get(k)) for k in ('bs', 'stmin', 'wftmax')))
            elif name == 'setll':
                mo = kq(m, 'S setll ' + ' '.join(tok(kw.get(k)) for k in ('mtu', 'tx_dl', 'tx_flags')))
            elif name == 'bind2':
                mo = kq(m, 'S bind 0 ' + addr_fields(inst2['txa']))
            elif name == 'bind':
                if inst['rxa'] is None:
                    mo = kq(m, 'S bind 0 ' + addr_fields(inst['txa']))
                else:
                    mo = kq(m, 'S bind 1 ' + addr_fields(dict(inst['txa'], tx_only=True)) + ' | ' + addr_fields(dict(inst['rxa'], rx_only=True)))
            else:
                mo = kq(m, 'S ' + name)
            case['at'] = name
            # oracles
            if name == 'bind':
                if not consistent:
                    if outcome != 'valueerror' or any(c[0] == 'bind' for c in log):
                        part.violation('oracle', campaign, 'C20:inexpressible-address-not-refused', 'outcome %s, log %s' % (outcome, parts), case)
                        return
                    return
                if outcome != 'ok':
                    part.violation('oracle', campaign, 'C20:bind-refused', 'outcome %s' % outcome, case)
                    return
                kaddr = kq(m, 'K addr')
                P = isotp.TargetAddressType.Physical
                exp = 'txid=%d/%d prefix=%s' % (addr.get_tx_arbitration_id(P), int(addr.is_tx_29bits()), hx(addr.get_tx_payload_prefix()))
                if not kaddr.startswith(exp + ' '):
                    part.violation('oracle', campaign, 'C20:kernel-addressing-differs', 'kernel emits "%s", the Python layer emits "%s"' % (kaddr, exp), case)
                    return
                # acceptance of physically addressed frames
                rid, ext, pfx = reach(inst)
                frid, _, _ = reach(inst, functional=True)
                cands = [(rid, int(ext), pfx + b'\x02\x01\x02'), (rid, int(not ext), pfx + b'\x02\x01\x02'), (rid, int(ext), b''), (rid, int(ext), b'\x5a\x02\x01')]
                for b in range(29):
                    cands.append((rid ^ (1 << b), int(ext), pfx + b'\x02\x01\x02'))
                if pfx:
                    for x in (0, 1, pfx[0] ^ 1, pfx[0] ^ 0x80, 0xFF):
                        cands.append((rid, int(ext), bytes([x]) + b'\x02\x01\x02'))
                for (i, e, d) in cands:
                    if i < 0 or i >= 2**29 or i == frid and frid != rid:
                        continue
                    kacc = kq(m, 'K accepts %d %d %s' % (i, e, hx(d))) == '1'
                    pacc = bool(addr.is_for_me(isotp.CanMessage(arbitration_id=i, data=d, extended_id=bool(e))))
                    # the Python layer also accepts the functional base: such identifiers are not "physically addressed"
                    if rxa['mode'] in ('NormalFixed_29bits', 'Mixed_29bits') and (i & 0x1FFF0000) == (frid & 0x1FFF0000) and (frid & 0x1FFF0000) != (rid & 0x1FFF0000):
                        continue
                    if kacc != pacc:
                        part.violation('oracle', campaign, 'C20:kernel-addressing-differs',
                                       'frame id=%x ext=%d data=%s: kernel accepts=%s, Python layer accepts=%s' % (i, e, hx(d), kacc, pacc), case)
                        return
                # other options preserved
                m.p.stdin.write('K state\n'); m.p.stdin.flush(); after = parse_state(m.p.stdout.readline())
                for k in ('txtime', 'txpad', 'rxpad', 'bs', 'stmin', 'wft', 'mtu', 'txdl', 'llflags', 'txstmin'):
                    if after[k] != state_before_bind[k]:
                        part.violation('oracle', campaign, 'C20:option-not-preserved', 'bind() changed %s from %d to %d' % (k, state_before_bind[k], after[k]), case)
                        return
                keep = state_before_bind['flags'] & ~0x202
                if after['flags'] & ~0x202 != keep:
                    part.violation('oracle', campaign, 'C20:option-not-preserved', 'bind() changed flags 0x%x -> 0x%x' % (state_before_bind['flags'], after['flags']), case)
                    return
            elif name == 'bind2':
                if any(x.startswith('set:') for x in parts):
                    part.violation('oracle', campaign, 'C20:options-changed-after-bind', 'a second bind() rewrote options of the bound socket: %s %s' % (outcome, parts), dict(case, second=inst2))
                    return
            elif name in ('setopts', 'setfc', 'setll') and s.bound:
                if outcome != 'runtimeerror' or log:
                    part.violation('oracle', campaign, 'C20:guard', '%s after bind(): %s' % (name, outcome), case)
                    return
            elif name in ('send', 'recv'):
                want = 'ok' if s.bound else 'runtimeerror'
                if outcome != want:
                    part.violation('oracle', campaign, 'C20:guard', '%s with bound=%s closed=%s: %s' % (name, s.bound, s.closed, outcome), case)
                    return
            if impl_line != mo and name != 'close':
                part.violation('correspondence', campaign, 'corr:' + campaign, '%s: implementation "%s" vs model "%s"' % (name, impl_line, mo), case,
                               {'theorem_or_correspondence': THEOREMS})
                return
            part.d['traces_validated'] += 1
        part.distinct(case)
        part.sample(case)
    finally:
        undo()


def run_shard(campaign, shard, nshards, seed, tier):
    if campaign == 'api':
        import apiuse
        return apiuse.run_api('C20', shard, nshards, seed, tier)
    part = Part()
    rng = random.Random('%s/%s/%s' % (seed, campaign, shard))
    quick = tier != 'thorough'
    m = lc.model()
    for _ in range((1200 if quick else 40000) // nshards + 1):
        run_case(part, m, rng, campaign)
    return part.result()


def run(ctx):
    run_sharded(ctx, 'C20', 'bind')
    run_sharded(ctx, 'C20', 'api', nshards=2)
    import apiuse
    return RULE + apiuse.rule_text('C20'), ASSUME
