"""C05 - receiver is safe on arbitrary bus traffic."""
import random
import itertools
from core import *
from gen import *
from runner import Part, run_sharded
from streams import encode_stream
import lc

THEOREMS = 'IsoTp.Props.C05'
RULE = ('(alphabet) every sequence up to length 3 (quick: all of length <=2 + sampled length 3; thorough: all of length <=3 + sampled 4-5) '
        'from a 24-letter alphabet (valid/invalid SF short & escape, FF short/long/too long/zero-length escape, CF with sequence number '
        'expected / expected+1 / 0 / 15 full and short, FC CTS/Wait/Overflow/unknown status/reserved STmin, frame types 4..15, empty, '
        '1-byte, foreign id, wrong id type) x prefix on/off x blocksize {0,1,2} x max_frame_size {small, 4095}, one frame per process() '
        'call; (random) random byte frames of every CAN FD length with random virtual-time gaps and batching. Oracle: no exception '
        'escapes; every reported error is an IsoTpError class; every delivery is justified by the traffic (SF data, or FF-announced '
        'length <= max_frame_size built from the FF and in-sequence CFs with no new message between; one delivery per frame at most); '
        'only Flow Control frames are emitted, at most one per First Frame / completed block; (interrupts) well-formed messages abandoned at a '
        'random frame by the next First / Single Frame, blocksize 2/3/5: a Flow Control exactly after each First Frame and each completed block '
        'of the message in progress, none elsewhere. All cases replayed on the extracted model.'
        ' The interrupts campaign also inserts frames the reception must ignore without losing count of the block (the expected Consecutive Frame in a 12-byte CAN FD frame that cannot hold the rest, stray Flow Controls).')
ASSUME = ['bytes are 0..255; user callbacks do not raise']

ERRORS = {'FlowControlTimeoutError', 'ConsecutiveFrameTimeoutError', 'InvalidCanDataError', 'UnexpectedFlowControlError',
          'UnexpectedConsecutiveFrameError', 'ReceptionInterruptedWithSingleFrameError', 'ReceptionInterruptedWithFirstFrameError',
          'WrongSequenceNumberError', 'UnsupportedWaitFrameError', 'MaximumWaitFrameReachedError', 'FrameTooLongError',
          'ChangingInvalidRXDLError', 'MissingEscapeSequenceError', 'InvalidCanFdFirstFrameRXDL', 'OverflowError', 'BadGeneratorError'}


def alphabet(pfx, rid, ext):
    def P(b):
        d = pfx + bytes(b)
        # keep the intended CAN data length (8 or 12 bytes) when a prefix byte is added
        return (rid, ext, d[:len(b)] if len(b) in (8, 12) else d)
    A = [
        P([0x03, 1, 2, 3]), P([0x05, 1, 2]), P([0x00, 0x03, 9, 8, 7] + [0] * 7), P([0x00, 0x00, 1]), P([0x03, 1, 2, 3] + [0xCC] * 8),
        P([0x10, 0x0A, 1, 2, 3, 4, 5, 6]), P([0x10, 0x14, 1, 2, 3, 4, 5, 6]), P([0x1F, 0xFF, 1, 2, 3, 4, 5, 6]),
        P([0x10, 0x00, 0, 0, 0, 0, 1, 2]), P([0x10, 0x00, 0, 0, 0x10, 0x00, 1, 2]), P([0x10, 0x03, 1, 2, 3, 4, 5, 6]),
        P([0x21, 7, 8, 9, 10, 11, 12, 13]), P([0x22, 14, 15, 16, 17, 18, 19, 20]), P([0x20, 1, 1]), P([0x2F, 2]), P([0x21, 7, 8]),
        P([0x30, 0, 0]), P([0x31, 0, 0]), P([0x32, 0, 0]), P([0x33, 0, 0]), P([0x30, 0, 0x80]),
        P([0x45, 1, 2]), P([]), P([0xF0]),
        (rid ^ 1, ext, pfx + bytes([0x03, 1, 2, 3])), (rid, 1 - ext, pfx + bytes([0x03, 1, 2, 3])),
        # the right number with the wrong identifier width: a whole message of them, never for this layer
        (rid, 1 - ext, pfx + bytes([0x10, 0x0A, 1, 2, 3, 4, 5, 6])), (rid, 1 - ext, pfx + bytes([0x21, 7, 8, 9, 10, 11, 12, 13])),
    ]
    return A


def justified(frames, deliveries, max_frame_size, plen):
    """frames: list of data (bytes, prefix stripped) processed for me in order; deliveries: list of (index of the frame after which
    it was delivered (1-based), payload). Independent re-statement of the property's justification clause."""
    used = set()
    for k, pay in deliveries:
        if k in used:
            return 'frame %d justifies two deliveries' % k
        used.add(k)
        if k < 1 or k > len(frames):
            return 'delivery at frame %d without frame' % k
        d = frames[k - 1]
        if d and d[0] >> 4 == 0:
            sf = d[1:1 + (d[0] & 0xF)] if d[0] & 0xF else d[2:2 + (d[1] if len(d) > 1 else 0)]
            if bytes(sf) == pay:
                continue
            return 'delivery %s at SF %s' % (pay.hex(), d.hex())
        # search a First Frame before k whose chain reaches k
        ok = False
        for j in range(k - 1, 0, -1):
            ff = frames[j - 1]
            if len(ff) >= 2 and ff[0] >> 4 == 1:
                L = ((ff[0] & 0xF) << 8) | ff[1]
                data = ff[2:]
                if L == 0:
                    if len(ff) < 6:
                        continue
                    L = int.from_bytes(ff[2:6], 'big')
                    data = ff[6:]
                if L != len(pay) or L > max_frame_size:
                    continue
                buf = bytearray(data[:L])
                exp = 1
                good = True
                ff_rxdl = max(8, len(ff) + plen)
                for i in range(j + 1, k + 1):
                    f = frames[i - 1]
                    if not f:
                        continue
                    t = f[0] >> 4
                    if t == 2 and (f[0] & 0xF) == exp and max(8, len(f) + plen) != ff_rxdl and max(8, len(f) + plen) < L - len(buf):
                        continue        # a Consecutive Frame in a CAN frame of another size that cannot hold the rest is ignored (RX_DL is fixed by the First Frame)
                    if t == 2 and (f[0] & 0xF) == exp:
                        buf += f[1:]
                        exp = (exp + 1) & 0xF
                    elif t == 3:
                        continue
                    elif t == 2:
                        continue        # skipped / rejected consecutive frame is not part of the chain: tolerated only if the payload still matches
                    elif t in (0, 1):
                        # undecodable or ignored SF/FF are tolerated only when they were not a valid new message
                        continue
                if bytes(buf[:L]) == pay and len(buf) >= L:
                    ok = True
                    break
        if not ok:
            return 'delivery of %d bytes at frame %d is not justified by an earlier First Frame chain' % (len(pay), k)
    return None


def oracle(case, lines, insts):
    fails = []
    inst = case['insts'][0]
    rid, ext, pfx = reach(inst)
    plen = len(pfx)
    maxfs = inst['params'].get('max_frame_size', 4095)
    mine = []
    deliveries = []
    ntx = 0
    nff = 0
    budget = 0
    bs = inst['params'].get('blocksize', 8)
    one_per_call = case.get('one_per_call', False)
    pending = []
    for op, l in zip(case['ops'], lines):
        evs = split_line(l)[0]
        if op[1] == 'rx':
            d = unhx(op[4])
            if int(op[2]) == rid and int(op[3]) == int(ext) and d[:plen] == pfx and (len(d) > 0 or plen == 0):
                pending.append(d[plen:])
            elif inst.get('rxa') is None and inst['txa']['mode'] in ('NormalFixed_29bits', 'Mixed_29bits'):
                frid, _, _ = reach(inst, functional=True)
                if int(op[2]) == frid and int(op[3]) == int(ext) and d[:plen] == pfx:
                    pending.append(d[plen:])
        if op[1] == 'proc':
            if int(op[2]):
                mine.extend(pending)
                pending = []
        for e in evs:
            if e == 'crash':
                fails.append(('C05:exception-escaped', 'an exception escaped %s' % op[1]))
            elif e.startswith('err:') and e[4:] not in ERRORS:
                fails.append(('C05:not-an-isotp-error', e))
            elif e.startswith('recv:') and e != 'recv:none':
                deliveries.append((len(mine), unhx(e[5:])))
            elif e.startswith('tx:'):
                ntx += 1
                d = unhx(e.split(':')[6])
                tplen = 1 if inst['txa']['mode'].startswith(('Extended', 'Mixed')) else 0
                if len(d) <= tplen or d[tplen] >> 4 != 3:
                    fails.append(('C05:non-flow-control-frame-emitted', e))
    if one_per_call:
        j = justified(mine, deliveries, maxfs, plen)
        if j:
            fails.append(('C05:unjustified-delivery', j))
    # flow control budget: one per First Frame processed + one per completed block (upper bound: one per CF when bs>0)
    nff = sum(1 for d in mine if d and d[0] >> 4 == 1)
    ncf = sum(1 for d in mine if d and d[0] >> 4 == 2)
    if ntx > nff + (ncf // bs if bs else 0):
        fails.append(('C05:too-many-flow-controls', '%d frames emitted for %d First Frames and %d Consecutive Frames (blocksize %d)' % (ntx, nff, ncf, bs)))
    return fails


def gen_interrupts(rng):
    """well-formed messages, each possibly abandoned at a random frame by the next one (First Frame or Single Frame interrupting)"""
    a, _b = rand_inst_pair(rng)
    bs = rng.choice([2, 3, 5])
    inst = dict(a, params={'blocksize': bs, 'max_frame_size': 4095, 'stmin': 0})
    rid, ext, pfx = reach(inst)
    ops = []
    plan = []
    for _ in range(rng.randint(2, 5)):
        n = rng.choice([3, 20, 45, 80])
        frames = encode_stream(bytes(rng.getrandbits(8) for _ in range(n)), 8, pfx, 'min')
        cut = len(frames) if rng.random() < 0.4 else rng.randint(1, len(frames))
        plan.append((n, cut, len(frames)))
        remaining = n
        for fi, f in enumerate(frames[:cut]):
            if fi >= 1 and rng.random() < 0.25:
                # frames the reception must ignore without losing count of the block: the expected Consecutive Frame in a 12-byte CAN FD
                # frame that cannot hold the rest (RX_DL differs from the First Frame's), or a stray Flow Control
                if remaining > 12 and rng.random() < 0.7:
                    dist = pfx + bytes([0x20 | (fi & 0xF)]) + bytes(rng.getrandbits(8) for _ in range(11 - len(pfx)))
                else:
                    # a stray Flow Control of any status: the layer transmits nothing, so none of them concerns the reception
                    dist = pfx + bytes([rng.choice([0x30, 0x30, 0x31, 0x32]), 0, 0])
                ops += [[0, 'rx', rid, int(ext), hx(dist)], [0, 'proc', 1, 1], [0, 'recv']]
            remaining -= (len(f) - len(pfx) - (2 if fi == 0 else 1))
            ops += [[0, 'rx', rid, int(ext), hx(f)], [0, 'proc', 1, 1], [0, 'recv']]
        if cut < len(frames) and rng.random() < 0.3:
            # a First Frame that starts nothing (CAN frame of a length that is no CAN FD size) ends the reception in progress; the sender carries on with in-sequence Consecutive Frames for the whole announced
            # length: nothing of it may be delivered
            bad = pfx + bytes([0x10 | (n >> 8), n & 0xFF])
            bad += bytes(rng.getrandbits(8) for _ in range(rng.choice([9, 10, 11, 13, 14, 15]) - len(bad)))
            ops += [[0, 'rx', rid, int(ext), hx(bad)], [0, 'proc', 1, 1], [0, 'recv']]
            per = 7 - len(pfx)
            for q in range(-(-n // per)):
                cf = pfx + bytes([0x20 | ((cut + q) & 0xF)]) + bytes(rng.getrandbits(8) for _ in range(per))
                ops += [[0, 'rx', rid, int(ext), hx(cf)], [0, 'proc', 1, 1], [0, 'recv']]
    return {'insts': [inst], 'ops': ops, 'nops': len(ops), 'one_per_call': True, 'plan': plan, 'bs': bs}


def oracle_interrupts(case, lines, insts):
    """Flow Controls exactly where the traffic justifies them: one after each First Frame, one after each completed block of the
    message in progress (counted from ITS First Frame), none elsewhere."""
    fails = oracle(case, lines, insts)
    if case.get('nops') != len(case['ops']):
        return fails
    inst = case['insts'][0]
    rid, ext, pfx = reach(inst)
    bs = case['bs']
    in_block = None
    remaining = 0
    for op, l in zip(case['ops'], lines):
        if op[1] == 'rx':
            d = unhx(op[4])[len(pfx):]
            t = d[0] >> 4
            expect_fc = False
            if t == 3 or (t == 2 and len(unhx(op[4])) == 12):
                pass        # ignored by the reception (see gen_interrupts)
            elif t == 1 and len(unhx(op[4])) in (9, 10, 11, 13, 14, 15):
                in_block = None     # a First Frame that starts nothing: the reception in progress is over, no Flow Control
            elif t == 1:
                remaining = (((d[0] & 0xF) << 8) | d[1]) - (len(d) - 2)
                in_block = 0
                expect_fc = True
            elif t == 0:
                in_block = None
            elif t == 2 and in_block is not None:
                remaining -= len(d) - 1
                in_block += 1
                if remaining <= 0:
                    in_block = None
                elif in_block == bs:
                    in_block = 0
                    expect_fc = True
            cur = expect_fc
        elif op[1] == 'proc':
            n = sum(1 for e in split_line(l)[0] if e.startswith('tx:'))
            if n != int(cur):
                fails.append(('C05:flow-control-not-justified', 'after frame %s: %d Flow Control(s) emitted, the traffic justifies %d (blocksize %d, plan %s)' % (
                    op, n, int(cur), bs, case['plan'])))
                break
    return fails


def cfgs(rng):
    out = []
    for mode in ('Normal_11bits', 'Extended_29bits'):
        for bs in (0, 1, 2):
            for mfs in (12, 4095):
                out.append((mode, bs, mfs))
    # the two modes whose identifier is computed (masked comparison) rather than given, once each
    out.append(('NormalFixed_29bits', 1, 4095))
    out.append(('Mixed_29bits', 2, 4095))
    return out


def build_case(inst, frames, one_per_call=True):
    ops = []
    for (i, e, d) in frames:
        ops.append([0, 'rx', i, int(e), hx(d)])
        if one_per_call:
            ops.append([0, 'proc', 1, 1])
            ops.append([0, 'recv'])
    if not one_per_call:
        ops.append([0, 'proc', 1, 1])
        for _ in range(3):
            ops.append([0, 'proc', 1, 1])
            ops.append([0, 'recv'])
    return {'insts': [inst], 'ops': ops, 'one_per_call': one_per_call}


def run_shard(campaign, shard, nshards, seed, tier):
    if campaign == 'api':
        import apiuse
        return apiuse.run_api('C05', shard, nshards, seed, tier)
    part = Part()
    rng = random.Random('%s/%s/%s' % (seed, campaign, shard))
    quick = tier != 'thorough'
    if campaign == 'alphabet':
        idx = 0
        for (mode, bs, mfs) in cfgs(rng):
            a = rand_address(random.Random(mode), mode)
            inst = {'txa': a, 'rxa': None, 'params': {'blocksize': bs, 'max_frame_size': mfs, 'stmin': 3}}
            rid, ext, pfx = reach(inst)
            A = alphabet(pfx, rid, int(ext))
            seqs = [()] + [(x,) for x in range(len(A))] + list(itertools.product(range(len(A)), repeat=2))
            if not quick:
                seqs += list(itertools.product(range(len(A)), repeat=3))
            extra = 2500 if quick else 60000
            r2 = random.Random('%s/%s/%s/%d' % (seed, mode, bs, mfs))
            for _ in range(extra // 12):
                seqs.append(tuple(r2.randrange(len(A)) for _ in range(3 if quick else r2.choice([4, 5]))))
            for sq in seqs:
                idx += 1
                if idx % nshards != shard:
                    continue
                # a First Frame first so that sequences act on a reception in progress half of the time
                pre = [A[5]] if (idx // nshards) % 2 else []
                case = build_case(inst, pre + [A[i] for i in sq])
                part.hist('seq_len', len(sq))
                part.distinct((mode, bs, mfs, sq, bool(pre)))
                lc.run_case(part, campaign, case, oracle=oracle, theorem=THEOREMS)
            part.sample({'inst': inst, 'alphabet': [hx(x[2]) for x in A[:8]], 'sequences': 'all up to length %d' % (2 if quick else 3)})
    elif campaign == 'interrupts':
        for _ in range((400 if quick else 20000) // nshards + 1):
            case = gen_interrupts(rng)
            part.distinct(case)
            part.hist('interrupt_plan', 'msgs=%d/bs=%d' % (len(case['plan']), case['bs']))
            lc.run_case(part, campaign, case, oracle=oracle_interrupts, theorem=THEOREMS)
            part.sample({'inst': case['insts'][0], 'plan': case['plan']})
    else:
        n = (700 if quick else 60000) // nshards + 1
        for _ in range(n):
            a, _b = rand_inst_pair(rng)
            p = {'blocksize': rng.choice([0, 1, 2, 8]), 'max_frame_size': rng.choice([7, 100, 4095]), 'stmin': rng.choice([0, 1]),
                 'rx_consecutive_frame_timeout': rng.choice([1, 50, 1000])}
            inst = dict(a, params=p)
            rid, ext, pfx = reach(inst)
            ops = []
            for _i in range(rng.randint(5, 60)):
                r = rng.random()
                if r < 0.7:
                    g = rand_garbage(rng)
                    if rng.random() < 0.15:
                        ops.append([0, 'rx', rng.randint(0, 2**29 - 1), rng.randint(0, 1), hx(g)])
                    else:
                        ops.append([0, 'rx', rid, int(ext), hx(pfx + g)])
                elif r < 0.9:
                    ops.append([0, 'proc', 1, 1])
                    ops.append([0, 'recv'])
                else:
                    ops.append([0, 'tick', rng.choice([0, 1, 999999, 1000001, 60 * 10**6, 2 * 10**9])])
            ops += [[0, 'proc', 1, 1], [0, 'recv'], [0, 'proc', 1, 1], [0, 'recv']]
            case = {'insts': [inst], 'ops': ops, 'one_per_call': False}
            part.distinct(case)
            lc.run_case(part, campaign, case, oracle=oracle, theorem=THEOREMS)
            part.sample({'inst': inst, 'ops': ops[:6]})
    return part.result()


def run(ctx):
    run_sharded(ctx, 'C05', 'alphabet')
    run_sharded(ctx, 'C05', 'random')
    run_sharded(ctx, 'C05', 'interrupts')
    ctx.exhaustive['all alphabet sequences up to length %d for each of the 12 configurations' % (2 if ctx.quick else 3)] = True
    run_sharded(ctx, 'C05', 'api', nshards=2)
    import apiuse
    return RULE + apiuse.rule_text('C05'), ASSUME
