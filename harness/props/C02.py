"""C02 - emitted frames are exactly the reference ISO-15765-2 segmentation (campaign K2)."""
import random
from collections import Counter
from core import *
from gen import *
from runner import Part, run_sharded
from peers import PeerRun
import lc

THEOREMS = 'IsoTp.Props.C02'
RULE = ('sender against a scripted cooperative receiver (ContinueToSend at the First Frame and at every block end, random block size): '
        'payload lengths enumerated exhaustively 1..N (quick N=130, thorough N=4200) for each configuration class '
        '{8 link sizes} x {no prefix, prefix byte} x {min length none / <=8 / >8 / = link size} x {padding none, 0x00, 0xAA}, plus the '
        '4094..4097 boundary and lazily generated payloads of 2^16, 2^24, 2^32-1 bytes (first frames only) and sizes 2^32, 2^32+1, 2^40 '
        '(must be refused). Oracle: (id, ext, fd, brs, dlc, data) of every emitted frame == the extracted Coq reference segmentation '
        'Spec/Segment.v `seg`; the run is also replayed on the extracted model. non-trivial = distinct (class, length) pairs'
        ' (duplex) the layer receives whole messages, abandoned ones, garbage, stop_receiving() and reception timeouts while it transmits: its data frames are still the reference segmentation. (readdress) set_address() to an address with another prefix size on a live layer, then sends: reference segmentation under the new address, model instance built with the new address.'
        ' (canstack) isotp.CanStack on a fake can.BusABC: every can.Message handed to bus.send() is the reference frame (identifier, flags, data) and consistent for python-can (dlc = byte count).')
ASSUME = ['the scripted receiver answers every First Frame and block end at once (no deadline is missed)']


def classes():
    out = []
    for tx_dl in TX_DLS:
        for mode in ('Normal_11bits', 'Extended_29bits'):
            mls = [None, 4, 8] + ([12] if tx_dl >= 12 else []) + ([tx_dl] if tx_dl > 12 else [])
            for ml in mls:
                for pad in (None, 0x00, 0xAA):
                    out.append((tx_dl, mode, ml, pad))
    return out


def setup_spec(m, inst):
    """point the driver's current configuration at [inst] for `Q seg`"""
    m.p.stdin.write('NEWCFG\n' + '\n'.join(model_param_lines(inst['params'])) + '\nTXA ' + addr_fields(inst['txa']) + '\n')
    m.p.stdin.flush()


def run_send(inst, payload_hex, bs, gen=None, max_frames=None, tat=None):
    """Drive one send to completion against a cooperative receiver. Returns PeerRun."""
    pr = PeerRun([inst], links={0: 0})       # frames are collected on wire[0], never delivered automatically
    if gen is None:
        pr.send(0, payload_hex, tat)
    else:
        pr.op(0, 'sendgen', tat, gen[0], gen[1], gen[2])
    rid, ext, pfx = reach(inst)
    seen = 0
    cf_since = 0
    steps = 0
    while steps < 100000:
        steps += 1
        line = pr.proc(0)
        new = pr.wire[0][seen:]
        seen = len(pr.wire[0])
        need_cts = False
        for fr in new:
            d = unhx(fr[2])[len(pfx):]
            t = d[0] >> 4
            if t == 1:
                need_cts = True
                cf_since = 0
            elif t == 2:
                cf_since += 1
                if bs and cf_since >= bs:
                    need_cts = True
                    cf_since = 0
        if max_frames is not None and seen >= max_frames:
            break
        if not pr.impl[0].layer.transmitting():
            break
        if need_cts:
            pr.op(0, 'rx', rid, int(ext), hx(pfx + bytes([0x30, bs, 0])))
        elif not new:
            pr.tick_all(1000000)
    pr.close()
    return pr


def frames_of(pr):
    return [e[3:] for l in pr.lines for e in split_line(l)[0] if e.startswith('tx:')]


def run_shard(campaign, shard, nshards, seed, tier):
    if campaign == 'api':
        import apiuse
        return apiuse.run_api('C02', shard, nshards, seed, tier)
    part = Part()
    rng = random.Random('%s/%s/%s' % (seed, campaign, shard))
    quick = tier != 'thorough'
    m = lc.model()
    cls = classes()
    if campaign == 'lengths':
        N = 130 if quick else 4200
        for ci, (tx_dl, mode, ml, pad) in enumerate(cls):
            if ci % nshards != shard:
                continue
            a = rand_address(rng, mode)
            params = {'tx_data_length': tx_dl, 'blocksize': 0}
            if ml is not None:
                params['tx_data_min_length'] = ml
            if pad is not None:
                params['tx_padding'] = pad
            params['can_fd'] = rng.random() < (0.7 if tx_dl > 8 else 0.3)      # the link-layer size does not depend on the flag: both combinations are legal
            params['bitrate_switch'] = rng.random() < 0.5
            inst = {'txa': a, 'rxa': None, 'params': params}
            setup_spec(m, inst)
            lens = list(range(1, N + 1)) + ([4094, 4095, 4096, 4097] if (quick and ci % 6 == 0) else [])
            if not quick and ci % 3:
                lens = list(range(1, 400)) + list(range(4080, 4110))   # the full 1..4200 sweep on every third class
            for n in lens:
                payload = bytes((i * 7 + n) & 0xFF for i in range(n))
                bs = rng.choice([0, 0, 1, 3, 8, 16, 255])
                pr = run_send(inst, hx(payload), bs)
                got = frames_of(pr)
                exp = m.query('seg - ' + hx(payload)).split()
                part.d['evaluations'] += 1
                part.hist('class', 'tx_dl=%d/%s/min=%s/pad=%s' % (tx_dl, 'prefix' if mode != 'Normal_11bits' else 'noprefix', ml, pad))
                part.hist('frames_per_msg', min(len(exp), 50))
                part.distinct((ci, n))
                if got != exp:
                    k = next((i for i in range(min(len(got), len(exp))) if got[i] != exp[i]), min(len(got), len(exp)))
                    part.violation('oracle', campaign, 'C02:frame-differs-from-reference-segmentation',
                                   'len=%d: frame %d is %s, reference %s (emitted %d frames, reference %d)' % (
                                       n, k, got[k] if k < len(got) else None, exp[k] if k < len(exp) else None, len(got), len(exp)),
                                   pr.case if n < 200 else {'insts': pr.case['insts'], 'len': n})
                    break
                if n % 7 == 0 or n < 20:
                    ml_ = m.run_case(pr.case)
                    part.d['traces_validated'] += 1
                    d = first_diff(pr.lines, ml_)
                    if d is not None:
                        part.violation('correspondence', campaign, 'corr:lengths', 'model differs at op %d' % d, pr.case,
                                       {'impl_line': pr.lines[d], 'model_line': ml_[d], 'theorem_or_correspondence': THEOREMS})
                        break
            part.sample({'class': [tx_dl, mode, ml, pad], 'lengths': '1..%d' % N, 'address': a})
    elif campaign == 'huge':
        for ci, (tx_dl, mode, ml, pad) in enumerate(cls):
            if ci % nshards != shard or (quick and ci % 5):
                continue
            a = rand_address(rng, mode)
            params = {'tx_data_length': tx_dl}
            if ml is not None:
                params['tx_data_min_length'] = ml
            if tx_dl > 8:
                params['can_fd'] = True
            inst = {'txa': a, 'rxa': None, 'params': params}
            _, _, pfx = reach({'txa': mirror(a), 'rxa': None})
            plen = len(pfx)
            for size in (2**16, 2**24, 2**32 - 1, 2**32, 2**32 + 1, 2**40):
                pr = run_send(inst, None, 20, gen=(size, '-', 0x5A), max_frames=21)
                part.d['evaluations'] += 1
                part.distinct((ci, size))
                part.hist('huge_size', size)
                ev0 = split_line(pr.lines[0])[0]
                fr = [unhx(f.split(':')[5]) for f in frames_of(pr)]
                if size >= 2**32:
                    if ev0 != ['send:valueerror'] or fr:
                        part.violation('oracle', campaign, 'C02:size-2^32-accepted', 'size %d: %s, %d frames' % (size, ev0, len(fr)), pr.case)
                else:
                    ok = ev0 == ['send:ok'] and len(fr) == 21
                    if ok:
                        hdr = pfx + bytes([0x10, 0]) + size.to_bytes(4, 'big')
                        ok = fr[0] == hdr + bytes([0x5A]) * (tx_dl - 6 - plen)
                        for j in range(1, 21):
                            ok = ok and fr[j] == pfx + bytes([0x20 | (j % 16)]) + bytes([0x5A]) * (tx_dl - 1 - plen)
                    if not ok:
                        part.violation('oracle', campaign, 'C02:frame-differs-from-reference-segmentation',
                                       'size %d: first frames %s' % (size, [f.hex() for f in fr[:3]]), pr.case)
                ml_ = m.run_case(pr.case)
                part.d['traces_validated'] += 1
                d = first_diff(pr.lines, ml_)
                if d is not None:
                    part.violation('correspondence', campaign, 'corr:huge', 'model differs at op %d' % d, pr.case,
                                   {'impl_line': pr.lines[d], 'model_line': ml_[d], 'theorem_or_correspondence': THEOREMS})
            part.sample({'class': [tx_dl, mode, ml, pad], 'sizes': '2^16 2^24 2^32-1 2^32 2^32+1 2^40'})
    elif campaign == 'standby':
        # the rate limiter holds Single / First Frames in standby: the frames that finally go out are still the reference ones
        k = 0
        for tx_dl in (8, 16, 64):
            for mode in ('Normal_11bits', 'Mixed_11bits'):
                for n2 in (tx_dl - 1, tx_dl, 3 * tx_dl, 5 * tx_dl + 3):
                    k += 1
                    if k % nshards != shard:
                        continue
                    a = rand_address(rng, mode)
                    params = {'tx_data_length': tx_dl, 'stmin': 0, 'rate_limit_enable': True, 'rate_limit_max_bitrate': tx_dl * 8 * 8,
                              'rate_limit_window_size': 0.125, 'rx_flowcontrol_timeout': 10**6}
                    if tx_dl > 8:
                        params['can_fd'] = True
                    inst = {'txa': a, 'rxa': None, 'params': params}
                    setup_spec(m, inst)
                    rid, ext, pfx = reach(inst)
                    p1 = bytes(range(1, 4))
                    p2 = bytes((7 * i + 1) & 0xFF for i in range(n2))
                    pr = PeerRun([inst], links={0: 0})
                    pr.send(0, hx(p1)); pr.proc(0)
                    pr.send(0, hx(p2)); pr.proc(0)
                    for step in range(400):
                        pr.tick_all(rng.choice([1000000, 50 * 10**6, 126 * 10**6]))
                        pr.proc(0)
                        pr.op(0, 'rx', rid, int(ext), hx(pfx + bytes([0x30, 0, 0])))
                        pr.proc(0)
                        if not pr.impl[0].layer.transmitting():
                            break
                    pr.close()
                    got = frames_of(pr)
                    exp = m.query('seg - ' + hx(p1)).split() + m.query('seg - ' + hx(p2)).split()
                    part.d['evaluations'] += 1
                    part.distinct(('standby', tx_dl, mode, n2))
                    part.hist('class', 'standby/tx_dl=%d' % tx_dl)
                    if got != exp:
                        kk = next((i for i in range(min(len(got), len(exp))) if got[i] != exp[i]), min(len(got), len(exp)))
                        part.violation('oracle', campaign, 'C02:frame-differs-from-reference-segmentation',
                                       'after a rate-limiter standby: frame %d is %s, reference %s' % (kk, got[kk] if kk < len(got) else None, exp[kk] if kk < len(exp) else None), pr.case)
                        continue
                    ml_ = m.run_case(pr.case)
                    part.d['traces_validated'] += 1
                    d = first_diff(pr.lines, ml_)
                    if d is not None:
                        part.violation('correspondence', campaign, 'corr:standby', 'model differs at op %d' % d, pr.case,
                                       {'impl_line': pr.lines[d], 'model_line': ml_[d], 'theorem_or_correspondence': THEOREMS})
    elif campaign == 'duplex':
        # the layer receives (complete messages, interrupted ones, garbage, stop_receiving(), reception timeouts) while it transmits:
        # the data frames it emits are still exactly the reference segmentation of its own payloads
        n = (120 if quick else 6000) // nshards + 1
        for i in range(n):
            tx_dl = rng.choice([8, 8, 8, 12, 16, 64])
            mode = rng.choice(['Normal_11bits', 'Extended_29bits', 'Mixed_11bits', 'NormalFixed_29bits'])
            a = rand_address(rng, mode)
            params = {'tx_data_length': tx_dl, 'blocksize': rng.choice([0, 1, 2, 8]), 'stmin': 0,
                      'rx_consecutive_frame_timeout': rng.choice([1000, 20])}
            if tx_dl > 8:
                params['can_fd'] = True
            if rng.random() < 0.3:
                params['tx_padding'] = 0x55
            inst = {'txa': a, 'rxa': None, 'params': params}
            setup_spec(m, inst)
            rid, ext, pfx = reach(inst)
            plen = len(pfx)
            cf_cap = tx_dl - 1 - plen
            payloads = [bytes(rng.getrandbits(8) for _ in range(rng.choice([tx_dl, 3 * cf_cap, 17 * cf_cap + 3, 40 * cf_cap]))) for _ in range(rng.randint(1, 2))]
            bs = rng.choice([0, 1, 2, 5])
            st = rng.choice([0, 0, 1])
            pr = PeerRun([inst], links={0: 0})
            for pl in payloads:
                pr.send(0, hx(pl))
            incoming = []          # frames of the peer's own message still to deliver
            seen = 0
            cf_since = 0
            kinds = Counter()
            for step in range(3000):
                pr.proc(0)
                new = pr.wire[0][seen:]
                seen = len(pr.wire[0])
                need_cts = False
                for fr in new:
                    d = unhx(fr[2])[plen:]
                    t = d[0] >> 4
                    if t == 1:
                        need_cts, cf_since = True, 0
                    elif t == 2:
                        cf_since += 1
                        if bs and cf_since >= bs:
                            need_cts, cf_since = True, 0
                if not pr.impl[0].layer.transmitting() and not incoming:
                    break
                r = rng.random()
                if incoming and r < 0.6:
                    pr.op(0, 'rx', rid, int(ext), hx(incoming.pop(0))); kinds['peer-frame'] += 1
                elif r < 0.12:
                    L = rng.choice([9, 20, 50])
                    body = bytes(rng.getrandbits(8) for _ in range(L))
                    incoming = [pfx + bytes([0x10 | (L >> 8), L & 0xFF]) + body[:6 - plen]]
                    off, sn = 6 - plen, 1
                    while off < L:
                        incoming.append(pfx + bytes([0x20 | (sn & 0xF)]) + body[off:off + 7 - plen])
                        off += 7 - plen; sn += 1
                    if rng.random() < 0.3:
                        incoming = incoming[:rng.randint(1, len(incoming))]      # abandoned
                    kinds['peer-message'] += 1
                elif r < 0.16:
                    pr.op(0, 'rx', rid, int(ext), hx(pfx + bytes([0x03, 1, 2, 3]))); kinds['peer-sf'] += 1
                elif r < 0.19:
                    pr.op(0, 'rx', rid, int(ext), hx(pfx + bytes([rng.choice([0x40, 0xF0, 0x00])]))); kinds['garbage'] += 1
                elif r < 0.22:
                    pr.op(0, 'stop_receiving'); kinds['stop_receiving'] += 1
                elif r < 0.25:
                    pr.op(0, 'recv')
                elif r < 0.28 and params['rx_consecutive_frame_timeout'] == 20:
                    pr.tick_all(21 * 10**6); kinds['rx-timeout-tick'] += 1
                if need_cts:
                    pr.op(0, 'rx', rid, int(ext), hx(pfx + bytes([0x30, bs, st])))
                elif not new:
                    pr.tick_all(1000000)
            pr.close()
            got = [f for f in frames_of(pr) if (unhx(f.split(':')[5])[plen] >> 4) != 3]
            exp = []
            for pl in payloads:
                exp += m.query('seg - ' + hx(pl)).split()
            part.d['evaluations'] += 1
            part.distinct(('duplex', tx_dl, mode, tuple(len(x) for x in payloads), bs, tuple(sorted(kinds.items()))))
            part.hist('class', 'duplex/tx_dl=%d' % tx_dl)
            for kk_, vv in kinds.items():
                part.hist('duplex_interference', kk_, vv)
            errs = [e for l in pr.lines for e in split_line(l)[0] if e.startswith('err:') and ('FlowControl' in e or 'Overflow' in e or 'Wait' in e)]
            if got != exp and not errs:
                kk = next((j for j in range(min(len(got), len(exp))) if got[j] != exp[j]), min(len(got), len(exp)))
                part.violation('oracle', campaign, 'C02:frame-differs-from-reference-segmentation',
                               'while receiving at the same time: data frame %d is %s, reference %s (emitted %d, reference %d)' % (
                                   kk, got[kk] if kk < len(got) else None, exp[kk] if kk < len(exp) else None, len(got), len(exp)), pr.case)
                continue
            ml_ = m.run_case(pr.case)
            part.d['traces_validated'] += 1
            d = first_diff(pr.lines, ml_)
            if d is not None:
                part.violation('correspondence', campaign, 'corr:duplex', 'model differs at op %d' % d, {'insts': pr.case['insts'], 'ops': pr.case['ops'][:d + 1]},
                               {'impl_line': pr.lines[d], 'model_line': ml_[d], 'theorem_or_correspondence': THEOREMS})
    elif campaign == 'readdress':
        # set_address() on a live (idle) layer, then sends: the frames are the reference segmentation under the NEW address
        # (prefix byte, identifiers, capacities) - compared with the Spec and with a model instance configured with the new address
        from core import ImplInst
        n = (160 if quick else 6000) // nshards + 1
        for i in range(n):
            tx_dl = rng.choice([8, 8, 12, 64])
            m1, m2 = rng.choice(MODES), rng.choice(MODES)
            params = {'tx_data_length': tx_dl, 'blocksize': 0}
            if tx_dl > 8:
                params['can_fd'] = True
            old = {'txa': rand_address(rng, m1), 'rxa': None, 'params': params}
            inst = {'txa': rand_address(rng, m2), 'rxa': None, 'params': params}
            setup_spec(m, inst)
            rid, ext, pfx = reach(inst)
            plen = 1 if m2.startswith(('Extended', 'Mixed')) else 0
            sf_cap = (7 - plen) if tx_dl == 8 else (tx_dl - 2 - plen)
            pr = PeerRun([inst], links={0: 0})
            pr.impl[0] = ImplInst(old)                         # built with the old address ...
            if rng.random() < 0.5:                             # ... possibly used with it ...
                pr.impl[0].layer.send(bytes([1, 2, 3])); pr.impl[0].layer.process(); pr.impl[0].events = []
                pr.impl[0].nreq = 0
                pr.impl[0].layer = type(pr.impl[0].layer)(rxfn=pr.impl[0]._rxfn, txfn=pr.impl[0]._txfn, address=make_layer_address(old),
                                                          error_handler=pr.impl[0]._err, params=dict(params), post_send_callback=pr.impl[0]._post_send)
            pr.impl[0].layer.set_address(make_layer_address(inst))      # ... then re-addressed through the public call
            payloads = [bytes(rng.getrandbits(8) for _ in range(max(1, L))) for L in (sf_cap - 1, sf_cap, sf_cap + 1, rng.choice([3 * tx_dl, 7 - plen, 8 - plen]))]
            bad = False
            for pl in payloads:
                before = len(pr.wire[0])
                pr.send(0, hx(pl))
                for step in range(200):
                    pr.proc(0)
                    if not pr.impl[0].layer.transmitting():
                        break
                    pr.op(0, 'rx', rid, int(ext), hx(pfx + bytes([0x30, 0, 0])))
                got = ['%x:%d:%s' % (f[0], f[1], f[2]) for f in pr.wire[0][before:]]
                exp = ['%s:%s:%s' % (x.split(':')[0], x.split(':')[1], x.split(':')[5]) for x in m.query('seg - ' + hx(pl)).split()]
                part.d['evaluations'] += 1
                if got != exp:
                    part.violation('oracle', campaign, 'C02:frame-differs-from-reference-segmentation',
                                   'after set_address(%s -> %s), payload of %d bytes: frames %s, reference %s' % (m1, m2, len(pl), got[:3], exp[:3]),
                                   {'insts': [inst], 'constructed_with': old, 'ops': pr.case['ops']})
                    bad = True
                    break
            pr.close()
            part.distinct(('readdress', tx_dl, m1, m2))
            part.hist('class', 'readdress/%s->%s' % ('prefix' if m1.startswith(('Extended', 'Mixed')) else 'noprefix', 'prefix' if plen else 'noprefix'))
            if bad:
                continue
            ml_ = m.run_case(pr.case)
            part.d['traces_validated'] += 1
            d = first_diff(pr.lines, ml_)
            if d is not None:
                part.violation('correspondence', campaign, 'corr:readdress', 'model (built with the new address) differs at op %d' % d,
                               {'insts': [inst], 'constructed_with': old, 'ops': pr.case['ops'][:d + 1]},
                               {'impl_line': pr.lines[d], 'model_line': ml_[d], 'theorem_or_correspondence': THEOREMS})
    elif campaign == 'canstack':
        # the python-can glue (CanStack): the can.Message objects handed to bus.send() carry the reference frames unchanged -
        # identifier, flags, data - and are consistent for python-can (Message.dlc is the byte count of the data)
        import can, isotp, warnings

        class FakeBus(can.BusABC):
            def __init__(self):
                self.sent = []
                self.inbox = []
                self.channel_info = 'fake'
                self._is_shutdown = False

            def send(self, msg, timeout=None):
                self.sent.append(msg)

            def _recv_internal(self, timeout):
                return (self.inbox.pop(0) if self.inbox else None), False

            def recv(self, timeout=None):
                return self.inbox.pop(0) if self.inbox else None

            def shutdown(self):
                self._is_shutdown = True
        n = (40 if quick else 2000) // nshards + 1
        for i in range(n):
            tx_dl = rng.choice([8, 12, 16, 64])
            mode = rng.choice(MODES)
            a = rand_address(rng, mode)
            params = {'tx_data_length': tx_dl, 'blocksize': 0, 'stmin': 0}
            if tx_dl > 8:
                params['can_fd'] = rng.random() < 0.7        # the flag of the configuration reaches the bus as it is, whatever the frame length
                params['bitrate_switch'] = rng.random() < 0.5
            if rng.random() < 0.3:
                params['tx_padding'] = 0xAA
            inst = {'txa': a, 'rxa': None, 'params': params}
            setup_spec(m, inst)
            rid, ext, pfx = reach(inst)
            bus = FakeBus()
            with warnings.catch_warnings():
                warnings.simplefilter('ignore')
                stack = isotp.CanStack(bus, address=make_layer_address(inst), params=dict(params))
                payload = bytes(rng.getrandbits(8) for _ in range(rng.choice([3, tx_dl - 1, tx_dl + 5, 5 * tx_dl])))
                stack.send(payload)
                for step in range(60):
                    stack.process()
                    if not stack.transmitting():
                        break
                    bus.inbox.append(can.Message(arbitration_id=rid, data=pfx + bytes([0x30, 0, 0]), is_extended_id=bool(ext)))
            exp = m.query('seg - ' + hx(payload)).split()
            got = ['%x:%d:%d:%d:%s' % (x.arbitration_id, int(x.is_extended_id), int(x.is_fd), int(x.bitrate_switch), hx(bytes(x.data))) for x in bus.sent]
            want = ['%s:%s:%s:%s:%s' % tuple(e.split(':')[k_] for k_ in (0, 1, 2, 3, 5)) for e in exp]
            part.d['evaluations'] += 1
            part.distinct(('canstack', tx_dl, mode, len(payload)))
            part.hist('class', 'canstack/tx_dl=%d' % tx_dl)
            bad = [x for x in bus.sent if x.dlc != len(x.data)]
            if got != want:
                part.violation('oracle', campaign, 'C02:frame-differs-from-reference-segmentation',
                               'CanStack handed %s to bus.send(), reference %s' % (got[:2], want[:2]), {'inst': inst, 'len': len(payload)})
            elif bad:
                part.violation('oracle', campaign, 'C02:can-message-dlc-inconsistent',
                               'CanStack handed python-can a Message with dlc=%d for %d data bytes (python-can counts bytes)' % (bad[0].dlc, len(bad[0].data)),
                               {'inst': inst, 'len': len(payload)})
    return part.result()


def run(ctx):
    run_sharded(ctx, 'C02', 'standby')
    run_sharded(ctx, 'C02', 'duplex')
    run_sharded(ctx, 'C02', 'readdress')
    run_sharded(ctx, 'C02', 'canstack')
    run_sharded(ctx, 'C02', 'lengths')
    run_sharded(ctx, 'C02', 'huge')
    ctx.exhaustive['payload lengths 1..N for every configuration class'] = True
    run_sharded(ctx, 'C02', 'api', nshards=2)
    import apiuse
    return RULE + apiuse.rule_text('C02'), ASSUME
