"""C09 - addressing. Campaigns: K5 tables (is_for_me / ids / prefix / mirror, exhaustive per address),
through-layer filtering, functional sends around the single-frame limit."""
import random
import vclock  # noqa: F401,E402  (clock trampolines go in before the library binds anything)
import isotp
from core import *
from gen import *
from runner import Part, run_sharded
import lc

THEOREMS = 'IsoTp.Props.C09'
RULE = ('per random address (7 modes x full/rx-only/asymmetric): the expected rx id with every single bit flipped, the other id '
        'type, the tx id, random ids, all 256 first data bytes, empty data (exhaustive per address) compared impl.is_for_me vs the '
        'extracted model predicate (proved equivalent to the documented condition, theorem C09_iff); identifiers/prefix vs model; '
        'mirrored acceptance; frames through a layer mid-reception; functional/physical sends (explicit and through default_target_address_type; bytes and generator payloads) at every length around the single '
        'frame limit for the 8 link sizes. non-trivial = distinct (address, frame) pairs / distinct cases'
        ' (emitted) physical and functional sends, own multi-frame messages and receptions answered with Flow Control, interleaved, with the rate limiter holding frames back: every emitted frame carries the documented identifier (functional only for Single Frames of functional requests). Addresses also carry legal parameters their mode does not use.')
ASSUME = ['identifiers range over 0 <= id < 2^29 (CAN); non-integer address arguments are covered by C16']


def addr_variants(rng):
    """yield (label, address dict usable for rx, isotp address object)"""
    a = with_stray(rng, rand_address(rng), 0.3)
    yield 'full', a
    rx = dict(a, rx_only=True)
    for k in ('txid',):
        if rng.random() < 0.5:
            rx.pop(k, None)
    if a['mode'].startswith('Extended'):
        rx.pop('target_address', None) if rng.random() < 0.5 else None
    yield 'rx_only', rx


def frames_for(rng, a):
    m = a['mode']
    ext = '29' in m
    nb = 29 if ext else 11
    inst = {'txa': a, 'rxa': None}
    rid, _, pfx = reach(inst)
    frid, _, _ = reach(inst, functional=True)
    ids = {rid, frid}
    for b in range(29):
        ids.add(rid ^ (1 << b))
        ids.add(frid ^ (1 << b))
    if a.get('txid') is not None:
        ids.add(a['txid'])
    for _ in range(6):
        ids.add(rng.randint(0, (1 << nb) - 1))
    ids = [i for i in ids if 0 <= i < 2**29]
    out = []
    body = bytes([0x02, 0x11, 0x22])
    for i in ids:
        for e in (0, 1):
            out.append((i, e, pfx + body))
    out.append((rid, int(ext), b''))
    out.append((rid, int(ext), body))
    for b in range(256):
        out.append((rid, int(ext), bytes([b]) + body))
        if b % 16 == 0:
            out.append((frid, int(ext), bytes([b])))
    return out


def run_shard(campaign, shard, nshards, seed, tier):
    part = Part()
    rng = random.Random('%s/%s/%s' % (seed, campaign, shard))
    quick = tier != 'thorough'
    m = lc.model()
    if campaign == 'tables':
        naddr = (60 if quick else 3000) // nshards + 1
        for _ in range(naddr):
            for label, a in addr_variants(rng):
                obj = make_address(a)
                fr = frames_for(rng, a)
                qs = ['isforme %d %d %s %s' % (i, e, hx(d), addr_fields(a)) for (i, e, d) in fr]
                ans = m.queries(qs)
                part.hist('address_kind', a['mode'] + '/' + label)
                for (i, e, d), mo in zip(fr, ans):
                    part.d['evaluations'] += 1
                    im = obj.is_for_me(isotp.CanMessage(arbitration_id=i, data=d, extended_id=bool(e)))
                    part.hist('is_for_me', str(bool(im)))
                    if int(bool(im)) != int(mo):
                        part.violation('oracle', campaign, 'C09:is_for_me-differs-from-documented-condition:' + a['mode'],
                                       'is_for_me=%s but the documented condition (C09_iff) says %s' % (im, mo),
                                       {'address': a, 'frame': {'id': i, 'ext': e, 'data': hx(d)}})
                part.distinct({'a': a, 'n': len(fr)})
                part.d['traces_validated'] += 1
                if label == 'full':
                    ids = m.query('ids ' + addr_fields(a)).split()
                    P, F = isotp.TargetAddressType.Physical, isotp.TargetAddressType.Functional
                    got = [obj.get_tx_arbitration_id(P), obj.get_tx_arbitration_id(F), obj.get_rx_arbitration_id(P),
                           obj.get_rx_arbitration_id(F), hx(obj.get_tx_payload_prefix()), obj.get_rx_prefix_size()]
                    exp = [int(ids[0]), int(ids[1]), int(ids[2]), int(ids[3]), ids[4], int(ids[5])]
                    if got != exp:
                        part.violation('oracle', campaign, 'C09:emitted-id-or-prefix:' + a['mode'],
                                       'identifiers/prefix %s differ from the documented ones %s (C09_emit_id/C09_emit_prefix)' % (got, exp), {'address': a})
                    # mirrored peer accepts what this address emits (documentation-level oracle, no model involved)
                    peer = make_address(mirror(a))
                    for t in (P, F):
                        f = isotp.CanMessage(arbitration_id=obj.get_tx_arbitration_id(t), data=obj.get_tx_payload_prefix() + b'\x01\x55',
                                             extended_id=obj.is_tx_29bits())
                        if not peer.is_for_me(f):
                            part.violation('oracle', campaign, 'C09:mirror-rejects:' + a['mode'],
                                           'frame emitted for %s is not accepted by the mirrored address' % t, {'address': a})
                    part.sample({'address': a, 'frames': len(fr), 'ids': exp})
    elif campaign == 'layer':
        ncase = (150 if quick else 6000) // nshards + 1
        for _ in range(ncase):
            case = gen_layer_case(rng)
            part.distinct(case)
            lc.run_case(part, campaign, case, oracle=oracle_layer, theorem=THEOREMS + '.C09_ignore')
            part.sample({'ops': case['ops'][:6], 'address': case['insts'][0]['txa']})
    elif campaign == 'emitted':
        ncase = (160 if quick else 8000) // nshards + 1
        for _ in range(ncase):
            case = gen_emitted_case(rng)
            part.distinct(case)
            part.hist('emitted_mode', case['insts'][0]['txa']['mode'])
            lc.run_case(part, campaign, case, oracle=oracle_emitted, theorem=THEOREMS + '.C09_emit_id')
            part.sample({'ops': case['ops'][:8], 'address': case['insts'][0]['txa']})
    elif campaign == 'functional':
        combos = [(tx_dl, mode, None, ml) for tx_dl in TX_DLS for mode in MODES for ml in (None, 4, 8, 12, 16, 64) if ml is None or ml <= tx_dl]
        # asymmetric addresses whose transmit and receive halves differ in prefix size
        combos += [(tx_dl, tm, rm, None) for tx_dl in TX_DLS for (tm, rm) in (('Extended_11bits', 'Normal_11bits'), ('NormalFixed_29bits', 'Mixed_11bits'),
                                                                                 ('Normal_29bits', 'Extended_29bits'), ('Mixed_29bits', 'Normal_11bits'))]
        for idx, (tx_dl, mode, rxmode, ml) in enumerate(combos):
            if idx % nshards != shard:
                continue
            if quick and rxmode is None and mode not in ('Normal_11bits', 'Extended_29bits', 'Mixed_29bits') and ml not in (None, 16):
                continue
            a = rand_address(rng, mode)
            rxa = mirror(rand_address(rng, rxmode)) if rxmode else None
            plen = 1 if mode.startswith(('Extended', 'Mixed')) else 0
            cap = (7 - plen) if tx_dl == 8 else (tx_dl - 2 - plen)
            for n in sorted({1, 6 - plen, 7 - plen, 8 - plen, cap - 1, cap, cap + 1, cap + 2}):
                if n < 1:
                    continue
                for tat, dflt in (('F', None), ('P', None), ('F', 1), ('P', 1), (None, 1), (None, 0)):
                    # dflt: default_target_address_type of the layer; an explicit argument always wins, None takes the default
                    params = {'tx_data_length': tx_dl}
                    if dflt is not None:
                        params['default_target_address_type'] = dflt
                    eff = tat if tat is not None else ('F' if dflt == 1 else 'P')
                    if ml is not None:
                        params['tx_data_min_length'] = ml
                    if tx_dl > 8:
                        params['can_fd'] = True
                    for as_gen in (False, True):       # the payload as bytes and as a (generator, size) pair: the limit is on the size
                        send = [0, 'sendgen', tat, n, hx(bytes(range(1, n + 1))), None] if as_gen else [0, 'send', tat, hx(bytes(range(1, n + 1)))]
                        case = {'insts': [{'txa': a, 'rxa': rxa, 'params': params}], 'ops': [send, [0, 'proc', 1, 1]]}
                        part.hist('functional', '%s%s/tx_dl=%d/%s%s%s' % (tat, '' if dflt is None else '/default=%d' % dflt, tx_dl, 'fits' if n <= cap else 'toolong', '/asym' if rxmode else '', '/gen' if as_gen else ''))
                        part.distinct(case)
                        lc.run_case(part, campaign, case, oracle=lambda c, il, ii, cap=cap, n=n, tat=eff, a=a: oracle_functional(c, il, ii, cap, n, tat, a),
                                    theorem=THEOREMS + '.C09_func')
            part.sample({'tx_dl': tx_dl, 'mode': mode, 'min_len': ml, 'cap': cap})
    return part.result()


def gen_layer_case(rng):
    from streams import encode_stream
    a, _ = rand_inst_pair(rng)
    inst = dict(a, params={'blocksize': rng.choice([0, 1, 2, 8]), 'tx_data_length': rng.choice([8, 8, 16, 64]), 'can_fd': True})
    rid, ext, pfx = reach(inst)
    ops = []
    pay = bytes(rng.getrandbits(8) for _ in range(rng.choice([3, 20, 40])))
    stream = encode_stream(pay, rng.choice([8, 8, 12, 64]), pfx)
    nb = 29 if ext else 11
    # NormalFixed / Mixed 29 bits: bits 16.. select the physical or the functional identifier, both of which are mine; flip
    # only the address bytes there
    flipbits = 16 if inst['txa']['mode'] in ('NormalFixed_29bits', 'Mixed_29bits') or (inst.get('rxa') or {}).get('mode') in ('NormalFixed_29bits', 'Mixed_29bits') else nb
    for f in stream:
        # a few foreign frames before each genuine frame
        for _ in range(rng.randint(0, 3)):
            r = rng.random()
            if r < 0.5:
                ops.append([0, 'rx', rid ^ (1 << rng.randrange(flipbits)), int(ext), hx(f)])
            elif r < 0.7:
                ops.append([0, 'rx', rid, int(not ext), hx(f)])
            elif pfx:
                ops.append([0, 'rx', rid, int(ext), hx(bytes([pfx[0] ^ (1 << rng.randrange(8))]) + f[1:])])
            else:
                ops.append([0, 'rx', rid ^ rng.randint(1, 2**flipbits - 1), int(ext), hx(rand_garbage(rng))])      # any identifier but mine
            if rng.random() < 0.5:
                ops.append([0, 'proc', 1, 1])
        ops.append([0, 'rx', rid, int(ext), hx(f)])
        if rng.random() < 0.7:
            ops.append([0, 'proc', 1, 1])
    ops.append([0, 'proc', 1, 1])
    ops.append([0, 'recv'])
    return {'insts': [inst], 'ops': ops, 'nops': len(ops), 'expect': hx(pay), 'rid': rid, 'ext': int(ext), 'pfx': hx(pfx)}


def oracle_layer(case, lines, insts):
    """Foreign frames never disturb: the genuine message is delivered intact, no error reported,
    received_processed counts exactly the genuine frames."""
    fails = []
    if 'nops' in case and case['nops'] != len(case['ops']):
        return []       # shrinking candidate: the expectations below are about the complete case
    errs = [e for l in lines for e in split_line(l)[0] if e.startswith('err:') or e == 'crash']
    if errs:
        fails.append(('C09:foreign-frame-disturbs', 'errors %s while only foreign frames were interleaved' % errs))
    last = split_line(lines[-1])[0]
    if case['ops'][-1][1] == 'recv' and 'expect' in case and last != ['recv:' + case['expect']]:
        fails.append(('C09:foreign-frame-disturbs', 'delivered %s, expected %s' % (last, case['expect'])))
    genuine = 0
    processed = 0
    pfx = unhx(case['pfx']) if 'pfx' in case else b''
    for op, l in zip(case['ops'], lines):
        if op[1] == 'rx' and op[2] == case.get('rid') and int(op[3]) == case.get('ext') and unhx(op[4])[:len(pfx)] == pfx and (len(unhx(op[4])) > 0 or not pfx):
            genuine += 1
        if op[1] == 'proc':
            for e in split_line(l)[0]:
                if e.startswith('stats:'):
                    processed += int(e.split(':')[1].split(',')[1])
    if 'rid' in case and processed != genuine:
        fails.append(('C09:received_processed', 'received_processed total %d, genuine frames %d' % (processed, genuine)))
    return fails


def gen_emitted_case(rng):
    """physical and functional sends, own multi-frame messages, receptions answered with Flow Control, all interleaved, with the rate
    limiter holding frames back from time to time: every emitted frame carries the documented identifier"""
    from streams import encode_stream
    mode = rng.choice(['NormalFixed_29bits', 'Mixed_29bits', 'NormalFixed_29bits', 'Mixed_29bits', 'Normal_11bits', 'Extended_29bits', 'Mixed_11bits'])
    a = rand_address(rng, mode)
    params = {'blocksize': rng.choice([0, 1, 2]), 'stmin': 0}
    limited = rng.random() < 0.6
    if limited:
        params.update(rate_limit_enable=True, rate_limit_max_bitrate=64 * 8, rate_limit_window_size=0.125)
    inst = {'txa': a, 'rxa': None, 'params': params}
    rid, ext, pfx = reach(inst)
    ops = []
    tats = []
    incoming = []
    for step in range(rng.randint(8, 30)):
        r = rng.random()
        if r < 0.2:
            t = rng.choice(['F', 'P'])
            ops.append([0, 'send', t, hx(bytes(rng.getrandbits(8) for _ in range(rng.randint(1, 5))))])
            tats.append(t)
        elif r < 0.28:
            ops.append([0, 'send', 'P', hx(bytes(rng.getrandbits(8) for _ in range(rng.choice([9, 20]))))])
            tats.append('M')
        elif r < 0.4 and not incoming:
            incoming = encode_stream(bytes(rng.getrandbits(8) for _ in range(rng.choice([10, 25]))), 8, pfx)
        elif r < 0.6 and incoming:
            ops.append([0, 'rx', rid, int(ext), hx(incoming.pop(0))])
        elif r < 0.7:
            ops.append([0, 'rx', rid, int(ext), hx(pfx + bytes([0x30, 0, 0]))])
        elif r < 0.8:
            ops.append([0, 'tick', rng.choice([126 * 10**6, 10**6])])
        ops.append([0, 'proc', 1, 1])
    for _ in range(12):
        ops += [[0, 'tick', 126 * 10**6], [0, 'proc', 1, 1], [0, 'rx', rid, int(ext), hx(pfx + bytes([0x30, 0, 0]))], [0, 'proc', 1, 1]]
    return {'insts': [inst], 'ops': ops, 'nops': len(ops), 'tats': tats}


def oracle_emitted(case, lines, insts):
    inst = case['insts'][0]
    a = inst['txa']
    peer = {'txa': mirror(a), 'rxa': None}
    pid, pext, ppfx = reach(peer)                     # what the mirrored peer accepts: the documented identifiers of my frames
    fid, _, _ = reach(peer, functional=True) if a['mode'] in ('NormalFixed_29bits', 'Mixed_29bits') else (pid, None, None)
    fails = []
    sf_tats = [t for t in case.get('tats', []) if t != 'M']
    accepted = [split_line(l)[0] for op, l in zip(case['ops'], lines) if op[1] == 'send']
    k = 0
    tplen = len(ppfx)
    for l in lines:
        for e in split_line(l)[0]:
            if not e.startswith('tx:'):
                continue
            f = e.split(':')
            fid_ = int(f[1], 16)
            d = unhx(f[6])
            if int(f[2]) != int(pext) or d[:tplen] != ppfx:
                fails.append(('C09:emitted-frame-not-for-peer', e))
                continue
            t = d[tplen] >> 4
            if t == 0:
                exp = fid if (k < len(sf_tats) and sf_tats[k] == 'F') else pid
                k += 1
            else:
                exp = pid
            if fid_ != exp and case.get('nops') == len(case['ops']):
                fails.append(('C09:emitted-identifier', '%s frame emitted with identifier %x, documented %x' % (['Single', 'First', 'Consecutive', 'Flow Control'][t], fid_, exp)))
    return fails


def oracle_functional(case, lines, insts, cap, n, tat, a):
    fails = []
    ev0 = split_line(lines[0])[0]
    ev1 = split_line(lines[1])[0]
    if tat == 'F':
        if n <= cap and ev0 != ['send:ok']:
            fails.append(('C09:functional-refused-although-fits', 'len %d cap %d: %s' % (n, cap, ev0)))
        if n > cap and (ev0 != ['send:valueerror'] or any(e.startswith('tx:') for e in ev1)):
            fails.append(('C09:functional-multiframe-accepted', 'len %d cap %d: %s / %s' % (n, cap, ev0, ev1)))
        if n <= cap:
            inst = {'txa': mirror(a), 'rxa': None}
            fid, _, _ = reach(inst, functional=True)
            txs = [e for e in ev1 if e.startswith('tx:')]
            if len(txs) != 1 or int(txs[0].split(':')[1], 16) != fid:
                fails.append(('C09:functional-id', 'frames %s, expected one frame with id %x' % (txs, fid)))
    else:
        if ev0 != ['send:ok']:
            fails.append(('C09:physical-refused', str(ev0)))
        else:
            pid, _, _ = reach({'txa': mirror(a), 'rxa': None})
            txs = [e for e in ev1 if e.startswith('tx:')]
            if not txs or int(txs[0].split(':')[1], 16) != pid:
                fails.append(('C09:physical-id', 'frames %s, expected the first frame with the physical id %x' % (txs[:1], pid)))
    return fails


def run(ctx):
    for c in ('tables', 'layer', 'functional', 'emitted'):
        run_sharded(ctx, 'C09', c)
    ctx.exhaustive['per-address frame table (all single-bit id flips, both id types, all 256 first bytes)'] = True
    return RULE, ASSUME
