"""C10 - full duplex: both peers send multi-frame messages to each other at the same time."""
import random
from core import *
from gen import *
from runner import Part, run_sharded
import lc
import C01

THEOREMS = 'IsoTp.Props.C10'
RULE = ('two real layers sending multi-frame messages to each other simultaneously under random interleavings of '
        '{A.process, A.process(tx only), B.process, B.process(tx only), deliver 1-4 frames on either link, ticks}; small scopes '
        '(1-2 messages per direction, 1-4 consecutive frames, blocksize 0/1/2, prefix on/off) and larger random ones with stmin>0. '
        'Oracle: both directions deliver everything in order exactly once, no error, all requests succeed, quiescence reached. '
        'Each recorded run is replayed on the extracted model. non-trivial = distinct (configuration, lengths, schedule seed)')
ASSUME = C01.ASSUME + ['process(do_tx=False) is not part of the schedule alphabet (as in the property)']


def gen_duplex(rng, tier, small):
    a, b = rand_inst_pair(rng)
    pa, pb = rand_params(rng), rand_params(rng)
    for p in (pa, pb):
        for k in ('listen_mode', 'default_target_address_type', 'rate_limit_enable', 'rate_limit_max_bitrate', 'rate_limit_window_size', 'wftmax', 'override_receiver_stmin'):
            p.pop(k, None)
        p['rx_flowcontrol_timeout'] = 1000
        p['rx_consecutive_frame_timeout'] = 1000
        p['max_frame_size'] = 65535
        if small:
            p['blocksize'] = rng.choice([0, 1, 2])
            p['stmin'] = 0
            p['tx_data_length'] = 8
            p.pop('tx_data_min_length', None)
            p.pop('can_fd', None); p.pop('bitrate_switch', None)
    def mk(p, plen):
        tx_dl = p.get('tx_data_length', 8)
        ff, cf = tx_dl - 2 - plen, tx_dl - 1 - plen
        n = rng.randint(1, 2) if small else rng.randint(1, 4)
        out = []
        for _ in range(n):
            L = ff + rng.randint(1, 4) * cf - rng.randint(0, cf - 1) if small else rng.choice([ff + 1, ff + 20 * cf, rng.randint(1, 2500)])
            out.append(bytes(rng.getrandbits(8) for _ in range(max(1, L))))
        return out
    pla = 1 if a['txa']['mode'].startswith(('Extended', 'Mixed')) else 0
    plb = 1 if b['txa']['mode'].startswith(('Extended', 'Mixed')) else 0
    return dict(a, params=pa), dict(b, params=pb), mk(pa, pla), mk(pb, plb)


def run_shard(campaign, shard, nshards, seed, tier):
    if campaign == 'api':
        import apiuse
        return apiuse.run_api('C10', shard, nshards, seed, tier)
    part = Part()
    rng = random.Random('%s/%s/%s' % (seed, campaign, shard))
    quick = tier != 'thorough'
    small = campaign == 'small'
    n = ((200 if small else 60) if quick else (20000 if small else 3000)) // nshards + 1
    for i in range(n):
        A, B, ma, mb = gen_duplex(rng, tier, small)
        sched = rng.choice(['random', 'txonly', 'random', 'one'])
        pr = C01.run_transfer(rng, A, B, ma, sched, msgs_back=mb)
        part.hist('sched', sched)
        part.hist('scope', '%dx%d msgs' % (len(ma), len(mb)))
        part.hist('blocksizes', '%s/%s' % (A['params'].get('blocksize', 8), B['params'].get('blocksize', 8)))
        fails = [(s.replace('C01:', 'C10:'), d) for s, d in C01.oracle_transfer(pr, ma, mb)]
        if not pr.quiescent():
            fails.append(('C10:no-progress', 'transfer incomplete and nothing moves (A %s B %s)' % (pr.impl[0].status(), pr.impl[1].status())))
        sample = {'A': A, 'B': B, 'lens_A': [len(m) for m in ma], 'lens_B': [len(m) for m in mb], 'sched': sched, 'ops': len(pr.case['ops'])}
        C01.check_against_model(part, campaign, pr, fails, sample, THEOREMS)
        part.sample(sample)
    return part.result()


def run(ctx):
    run_sharded(ctx, 'C10', 'small')
    run_sharded(ctx, 'C10', 'large')
    run_sharded(ctx, 'C10', 'api', nshards=2)
    import apiuse
    return RULE + apiuse.rule_text('C10'), ASSUME
