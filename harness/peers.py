"""Interactive runner for several implementation layers joined by FIFO links.

High-level actions are turned into low-level case ops *while the implementation runs* (the
frames put on a link are the ones the implementation emitted).  The recorded case (with concrete
rx frames) is afterwards replayed on the model for the correspondence check.
"""
import time as _time
from core import ImplInst, split_line, _REAL


class PeerRun:
    def __init__(self, insts, links=None, taps=None):
        """links: dict src -> dst (who receives what src emits); taps: dict src -> [listener idx]"""
        self.case = {'insts': insts, 'ops': []}
        self.lines = []
        self.impl = [ImplInst(i) for i in insts]
        self.links = links if links is not None else {0: 1, 1: 0}
        self.taps = taps or {}
        self.wire = {src: [] for src in self.links}     # frames in flight from src
        self.sent_log = {src: [] for src in self.links}  # every frame ever emitted by src (id, ext, hex)
        self.delivered = {k: [] for k in range(len(insts))}  # recv() results per instance
        self.errors = {k: [] for k in range(len(insts))}
        self.done = {k: [] for k in range(len(insts))}
        self.crashed = False

    def close(self):
        _time.perf_counter_ns, _time.perf_counter = _REAL

    # ------------------------------------------------------------ low level
    def op(self, *op):
        op = list(op)
        k = op[0]
        line = self.impl[k].run_op(op)
        self.case['ops'].append(op)
        self.lines.append(line)
        evs, _ = split_line(line)
        for e in evs:
            if e.startswith('tx:') and k in self.wire:
                p = e.split(':')
                fr = (int(p[1], 16), int(p[2]), p[6])
                self.wire[k].append(fr)
                self.sent_log[k].append(fr)
            elif e.startswith('err:'):
                self.errors[k].append(e[4:])
            elif e.startswith('done:'):
                self.done[k].append(tuple(int(x) for x in e.split(':')[1:]))
            elif e.startswith('recv:') and e != 'recv:none':
                self.delivered[k].append(e[5:])
            elif e == 'crash':
                self.crashed = True
        return line

    # ------------------------------------------------------------ high level
    def send(self, k, payload_hex, tat=None):
        return self.op(k, 'send', tat, payload_hex)

    def proc(self, k, rx=1, tx=1):
        return self.op(k, 'proc', rx, tx)

    def tick_all(self, ns):
        for k in range(len(self.impl)):
            self.op(k, 'tick', ns)

    def deliver(self, src, n=1, fault=None):
        """Move up to n frames from src's wire to the inbox of its destination (and taps)."""
        moved = 0
        while moved < n and self.wire[src]:
            fr = self.wire[src].pop(0)
            moved += 1
            if fault == 'drop':
                fault = None
                continue
            reps = 2 if fault == 'dup' else 1
            fault = None
            for _ in range(reps):
                for dst in [self.links[src]] + list(self.taps.get(src, [])):
                    self.op(dst, 'rx', fr[0], fr[1], fr[2])
        return moved

    def recv_all(self, k):
        while True:
            line = self.op(k, 'recv')
            if 'recv:none' in line:
                break

    def status(self, k):
        return split_line(self.lines[-1])[1] if self.lines else ''

    def quiescent(self):
        if any(self.wire[s] for s in self.wire):
            return False
        for im in self.impl:
            l = im.layer
            if l.transmitting() or l.is_rx_active() or im.inbox:
                return False
        return True

    def run_until_quiescent(self, rng=None, max_steps=20000, tick_ns=0, order=None):
        """Round-robin (or random) schedule: deliver everything, process everyone."""
        steps = 0
        n = len(self.impl)
        while steps < max_steps:
            steps += 1
            progressed = False
            for src in list(self.wire):
                if self.wire[src]:
                    self.deliver(src, len(self.wire[src]))
                    progressed = True
            for k in range(n):
                before = len(self.lines)
                line = self.proc(k)
                evs = split_line(line)[0]
                if any(not e.startswith('stats:0,0,0,0') for e in evs):
                    progressed = True
            if tick_ns:
                self.tick_all(tick_ns)
            if not progressed and self.quiescent():
                break
            if not progressed and not tick_ns:
                # nothing moves without time passing (stmin / limiter): advance the clock
                self.tick_all(1000000)
        return steps
