"""Virtual clock substituted for time.perf_counter_ns / time.perf_counter.

The library looks both functions up as attributes of the `time` module at call
time (isotp/tools.py Timer, isotp/protocol.py RateLimiter), so replacing the
module attributes is enough; no source hook is needed.
perf_counter() returns an exact Fraction so that clock differences are exact.
"""
import time
from fractions import Fraction


class VClock:
    def __init__(self, start_ns=10**9):
        self.ns = int(start_ns)
        self._saved = None

    def perf_counter_ns(self):
        return self.ns

    def perf_counter(self):
        return Fraction(self.ns, 10**9)

    def tick(self, d_ns):
        assert d_ns >= 0
        self.ns += int(d_ns)

    def install(self):
        if self._saved is None:
            self._saved = (time.perf_counter_ns, time.perf_counter)
        time.perf_counter_ns = self.perf_counter_ns
        time.perf_counter = self.perf_counter
        return self

    def uninstall(self):
        if self._saved is not None:
            time.perf_counter_ns, time.perf_counter = self._saved
            self._saved = None

    def __enter__(self):
        return self.install()

    def __exit__(self, *a):
        self.uninstall()
