"""Virtual clock substituted for time.perf_counter_ns / time.perf_counter.

The library looks both functions up as attributes of the `time` module at call
time (isotp/tools.py Timer, isotp/protocol.py RateLimiter), so replacing the
module attributes is enough; no source hook is needed.
perf_counter() returns an exact Fraction so that clock differences are exact.

So that a harmless rewrite of the library cannot silently escape the virtual clock, this module (imported before the
library everywhere in the harness) first puts trampolines into the `time` module: code that binds a clock function at import
time (`from time import perf_counter_ns`) binds the trampoline, which calls whatever is installed in the `time` module at
call time.  (A rewrite that moves to another clock source - time.monotonic_ns - is not followed: the standard library reads
that one at call time as well, and freezing it would stall its timeouts.)
"""
import time
from fractions import Fraction

_REAL_NS, _REAL_S = time.perf_counter_ns, time.perf_counter


def _tramp_ns():
    f = time.perf_counter_ns
    return _REAL_NS() if f is _tramp_ns else f()


def _tramp_s():
    f = time.perf_counter
    return _REAL_S() if f is _tramp_s else f()


if getattr(time, '_verif_trampolines', None) is None:
    time.perf_counter_ns, time.perf_counter = _tramp_ns, _tramp_s
    time._verif_trampolines = (_tramp_ns, _tramp_s)
else:       # module imported twice under two names: reuse the trampolines already in place
    _tramp_ns, _tramp_s = time._verif_trampolines


class VClock:
    def __init__(self, start_ns=10**9):
        self.ns = int(start_ns)
        self._saved = None

    def perf_counter_ns(self):
        return self.ns

    def perf_counter(self):
        return Fraction(self.ns, 10**9)

    def tick(self, d_ns):
        assert d_ns >= 0
        self.ns += int(d_ns)

    def install(self):
        if self._saved is None:
            self._saved = (time.perf_counter_ns, time.perf_counter)
        time.perf_counter_ns = self.perf_counter_ns
        time.perf_counter = self.perf_counter
        return self

    def uninstall(self):
        if self._saved is not None:
            time.perf_counter_ns, time.perf_counter = self._saved
            self._saved = None

    def __enter__(self):
        return self.install()

    def __exit__(self, *a):
        self.uninstall()
