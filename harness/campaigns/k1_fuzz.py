"""K1: random operation sequences on one layer (sends, well-formed streams, flow control,
garbage, foreign frames, ticks, process variants, stop/reset) - model fidelity campaign."""
import random
from gen import *
from streams import encode_stream
from core import hx


def gen_case(rng, nops=None, profile='mixed'):
    a, _b = rand_inst_pair(rng)
    inst = dict(a)
    inst['params'] = rand_params(rng)
    inst['t0'] = rng.choice([10**9, 123456789012, 5])
    p = inst['params']
    rid, ext, pfx = reach(inst)
    frid, _, fpfx = reach(inst, functional=True)
    ops = []
    nops = nops or rng.randint(5, 60)
    tcr = p.get('rx_consecutive_frame_timeout', 1000) * 10**6
    tbs = p.get('rx_flowcontrol_timeout', 1000) * 10**6
    stmin_ns = [0, 1000, 100000, 1000000, 5 * 10**6, 127 * 10**6]
    pending_stream = []

    def rxop(data, rid_=None, ext_=None):
        ops.append([0, 'rx', rid if rid_ is None else rid_, int(ext if ext_ is None else ext_), hx(data)])

    def proc():
        r = rng.random()
        if r < 0.8:
            ops.append([0, 'proc', 1, 1])
        elif r < 0.9:
            ops.append([0, 'proc', 0, 1])
        else:
            ops.append([0, 'proc', 1, 0])

    for _ in range(nops):
        r = rng.random()
        if r < 0.14:
            n = rng.choice([0, 1, 5, 6, 7, 8, 10, 20, 62, 63, 100, 300, rng.randint(0, 200)])
            data = bytes(rng.getrandbits(8) for _ in range(n))
            ops.append([0, 'send', rng.choice([None, None, 'P', 'F']), hx(data)])
        elif r < 0.18:
            size = rng.choice([0, 1, 7, 8, 20, 50, 4095, 4096, 70000, 2**32 - 1, 2**32, -1])
            have = rng.choice([0, 1, 6, 7, 19, 20, 21, 50, 60])
            fill = rng.choice([None, None, 0x5A]) if size <= 5000 else None
            ops.append([0, 'sendgen', rng.choice([None, 'P', 'F']), size, hx(bytes(rng.getrandbits(8) for _ in range(have))), fill])
        elif r < 0.30:
            # start (or continue) a well formed stream
            if not pending_stream:
                n = rng.choice([1, 6, 7, 8, 12, 20, 61, 62, 63, 100, rng.randint(1, 300)])
                pay = bytes(rng.getrandbits(8) for _ in range(n))
                pending_stream.extend(encode_stream(pay, rng.choice(TX_DLS), pfx, rng.choice(['min', 'pad8', 'padfd', 'full'])))
            k = rng.randint(1, 4)
            for _i in range(k):
                if pending_stream:
                    rxop(pending_stream.pop(0))
        elif r < 0.42:
            rxop(pfx + fc_frame(rng.choice([0, 0, 0, 1, 2, 3]), rng.choice([0, 1, 2, 3, 8, 255]), rng.choice([0, 0, 1, 0x7F, 0x80, 0xF1, 0xF9, 0xFA])) + bytes(rng.choice([0, 0, 5])))
        elif r < 0.50:
            g = rand_garbage(rng)
            rxop(pfx + g if rng.random() < 0.8 else g)
        elif r < 0.54:
            # foreign / near-miss frames
            rxop(pfx + rand_garbage(rng), rid_=rid ^ (1 << rng.randrange(29 if ext else 11)) if rng.random() < 0.7 else rid, ext_=ext if rng.random() < 0.5 else (not ext))
        elif r < 0.57:
            rxop(fpfx + rand_garbage(rng, 8), rid_=frid)
        elif r < 0.80:
            proc()
        elif r < 0.92:
            base = rng.choice([tcr, tbs, rng.choice(stmin_ns), 5 * 10**6, 10**9])
            d = rng.choice([0, 1, base // 3, base - 1, base + 1, base * 2, 777])
            ops.append([0, 'tick', max(0, d)])
        elif r < 0.95:
            ops.append([0, 'recv'])
        elif r < 0.97:
            ops.append([0, 'stop_sending'])
        elif r < 0.99:
            ops.append([0, 'stop_receiving'])
        else:
            ops.append([0, 'reset'])
    ops.append([0, 'proc', 1, 1])
    ops.append([0, 'recv'])
    return {'insts': [inst], 'ops': ops}
