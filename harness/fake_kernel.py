"""Fake kernel ISO-TP socket substituted for socket.socket inside isotp.tpsock.

It only *stores bytes*: every setsockopt/getsockopt/bind/send/recv/close call is
logged with its raw arguments and the per-option byte images are kept with the
kernel's defaults (net/can/isotp.c isotp_init()).  The interpretation of those
bytes is done by the extracted Coq Spec (Spec/Kernel.v), not here.
"""
import socket as _socket_module

_RealSocket = _socket_module.socket

SOL_CAN_ISOTP = 106
OPT_SIZES = {1: 12, 2: 3, 3: 4, 4: 4, 5: 3}
# kernel defaults: flags=0 frame_txtime=50000(CAN_ISOTP_DEFAULT_FRAME_TXTIME) ext=0 txpad=0xCC rxpad=0xCC rx_ext=0
DEFAULTS = {
    1: bytes([0, 0, 0, 0]) + (50000).to_bytes(4, 'little') + bytes([0x00, 0xCC, 0xCC, 0x00]),
    2: bytes([0, 0, 0]),
    3: bytes(4),
    4: bytes(4),
    5: bytes([16, 8, 0]),
}


CREATED = []


class FakeKernelSocket(_RealSocket):
    """Subclass of socket.socket (so isinstance checks pass) that never touches the OS."""
    log = None  # set per instance

    def __init__(self, family=None, type=None, proto=None, *a, **kw):
        self.ctor = (family, type, proto)
        CREATED.append(self)
        del CREATED[:-4]            # the harness asks for the one the wrapper has just created, without looking into the wrapper
        self.log = []
        self.store = dict(DEFAULTS)
        self.bound_to = None
        self.closed_ = False
        self._timeout = None

    def setsockopt(self, level, optname, value):
        self.log.append(('setsockopt', level, optname, bytes(value)))
        if level == SOL_CAN_ISOTP and optname in OPT_SIZES and len(value) == OPT_SIZES[optname]:
            self.store[optname] = bytes(value)
        else:
            raise OSError(22, 'Invalid argument')

    def getsockopt(self, level, optname, buflen=None):
        self.log.append(('getsockopt', level, optname, buflen))
        if level == SOL_CAN_ISOTP and optname in self.store:
            return self.store[optname][:buflen]
        raise OSError(92, 'Protocol not available')

    def bind(self, addr):
        self.log.append(('bind', addr))
        self.bound_to = addr

    def send(self, data, flags=0):
        self.log.append(('send', bytes(data), flags))
        return len(data)

    def recv(self, bufsize, flags=0):
        self.log.append(('recv', bufsize, flags))
        return b''

    def close(self):
        self.log.append(('close',))
        self.closed_ = True

    def settimeout(self, v):
        self._timeout = v

    def gettimeout(self):
        return self._timeout

    def fileno(self):
        return -1

    def __del__(self):
        pass

    def __repr__(self):
        return '<FakeKernelSocket>'


def install():
    """Make isotp.tpsock create FakeKernelSocket objects. Returns an undo function."""
    import isotp.tpsock as tp
    saved = tp.socket_module.socket
    tp.socket_module.socket = FakeKernelSocket
    return lambda: setattr(tp.socket_module, 'socket', saved)
