"""Rules about the sender's Wait budget that can be judged on any trace of one layer (used by the C04 and C12 oracles)."""
from core import split_line, unhx
from gen import reach


def wait_budget_fails(case, lines, sig):
    """MaximumWaitFrameReachedError needs more than wftmax Wait frames since the First Frame of the message: count (an upper bound of)
    the Wait frames the layer can have handled for the message in progress - every frame for it whose N_PCI byte is 0x31 read by a
    process() call from the one that emitted the latest First Frame on - and compare with wftmax when the error is reported."""
    inst = case['insts'][0]
    wft = inst['params'].get('wftmax', 0)
    rid, ext, pfx = reach(inst)
    tplen = 1 if inst['txa']['mode'].startswith(('Extended', 'Mixed')) else 0
    fed = []
    consumed = 0
    since_ff = 0
    fails = []
    for opi, (op, l) in enumerate(zip(case['ops'], lines)):
        evs = split_line(l)[0]
        if op[1] == 'rx':
            raw = unhx(op[4])
            mine = int(op[2]) == rid and int(op[3]) == int(ext) and raw[:len(pfx)] == pfx
            fed.append(bool(mine and len(raw) > len(pfx) and raw[len(pfx)] == 0x31))
            continue
        r = sum(int(e[6:].split(',')[0]) for e in evs if e.startswith('stats:'))
        waits = sum(1 for w in fed[consumed:consumed + r] if w)
        consumed += r
        ff = any(e.startswith('tx:') and len(unhx(e.split(':')[6])) > tplen and unhx(e.split(':')[6])[tplen] >> 4 == 1 for e in evs)
        nerr = sum(1 for e in evs if e == 'err:MaximumWaitFrameReachedError')
        if nerr and not ff and since_ff + waits <= wft:
            fails.append((sig, 'MaximumWaitFrameReachedError at op %d although at most %d Wait frames were read since the First Frame of the message (wftmax %d)' % (
                opi, since_ff + waits, wft)))
            break
        since_ff = waits if ff else since_ff + waits
    return fails
