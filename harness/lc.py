"""Layer-correspondence helper: run generated cases on implementation and model, compare the
property's projection of the traces, evaluate the property's oracle on the implementation."""
import json
from core import ModelProc, run_impl, first_diff, split_line
from runner import ddmin_ops

_model = None


def model():
    global _model
    if _model is None:
        _model = ModelProc()
    return _model


def project_default(lines):
    return lines


def classify_events(part, lines):
    for l in lines:
        evs, _ = split_line(l)
        for e in evs:
            k = e.split(':')
            if k[0] == 'err':
                part.hist('events', e)
            elif k[0] in ('tx', 'done', 'recv', 'send', 'crash'):
                part.hist('events', k[0] + (':' + k[-1] if k[0] in ('done', 'send') else ''))


def run_case(part, campaign, case, oracle=None, projection=None, theorem=None):
    """Returns True when the case raised nothing."""
    projection = projection or project_default
    part.d['evaluations'] += 1
    impl_lines, insts = run_impl(case)
    model_lines = model().run_case(case)
    part.d['traces_validated'] += 1
    classify_events(part, impl_lines)
    part.hist('ops_per_case', min(200, len(case['ops']) // 10 * 10))
    ok = True
    # property oracle on the implementation
    if oracle is not None:
        fails = oracle(case, impl_lines, insts)
        if fails:
            ok = False
            sig, detail = fails[0]

            def still(c):
                try:
                    il, ii = run_impl(c)
                    f = oracle(c, il, ii)
                    return bool(f) and f[0][0] == sig
                except Exception:
                    return False
            small = ddmin_ops(case, still)
            il, ii = run_impl(small)
            f2 = oracle(small, il, ii)
            part.violation('oracle', campaign, sig, (f2 or fails)[0][1], small,
                           {'impl_trace': il, 'model_trace': model().run_case(small)})
    d = first_diff(projection(impl_lines), projection(model_lines))
    if d is not None and ok:
        ok = False

        def differs(c):
            try:
                il, _ = run_impl(c)
                ml = model().run_case(c)
                return first_diff(projection(il), projection(ml)) is not None
            except Exception:
                return False
        small = ddmin_ops(case, differs)
        il, ii = run_impl(small)
        ml = model().run_case(small)
        # does the (shrunk) disagreement break the property's oracle?
        f = oracle(small, il, ii) if oracle is not None else []
        if f:
            part.violation('oracle', campaign, f[0][0], f[0][1], small, {'impl_trace': il, 'model_trace': ml})
        else:
            dd = first_diff(projection(il), projection(ml))
            part.violation('correspondence', campaign, 'corr:' + campaign,
                           'model and implementation disagree at op %s' % dd, small,
                           {'impl_trace': il, 'model_trace': ml,
                            'theorem_or_correspondence': theorem or ('correspondence campaign ' + campaign)})
    return ok
