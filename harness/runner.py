"""Generic machinery of ./check: proof step, campaign execution (sharded over processes),
comparison impl/model, oracles, shrinking, known findings, evidence."""
import os
import re
import sys
import json
import time
import glob
import random
import shutil
import hashlib
import tempfile
import subprocess
import multiprocessing
from collections import Counter

HERE = os.path.dirname(os.path.abspath(__file__))
VERIF = os.path.dirname(HERE)
COQ = os.path.join(VERIF, 'coq')
sys.path.insert(0, HERE)
sys.path.insert(0, os.path.join(HERE, 'campaigns'))
sys.path.insert(0, os.path.join(HERE, 'props'))

TRUSTED_BASE = [
    'Coq 8.16.1 kernel (coqc; vm_compute for finite-domain lemmas and case evaluation; no native_compute)',
    'axioms: none declared by the development; Print Assumptions of every property theorem must be '
    '"Closed under the global context" (PrimFloat/Uint63 kernel primitives allowed for the float tables)',
    'extraction: ExtrOcamlBasic only (bool option unit list prod sumbool sumor -> OCaml natives), no Extract Constant; '
    'Z/positive/nat stay inductive; OCaml 4.13.1 ocamlfind ocamlopt',
    'hand-written ocaml/driver.ml (parsing/printing only)',
    'hand translation Python -> Gallina (coq/theories/Model), validated by the correspondence campaigns on every run',
    'Python harness: virtual clock, list-backed rxfn/txfn, event canonicalisation, generators, shrinker',
    'clock constant during one process() call (virtual clock advances only between calls)',
]

HYGIENE = re.compile(r'\b(Admitted|admit|Axiom|Axioms|Parameter|Parameters|Conjecture|Hypothesis|Variable)\b|Unset\s+Guard|'
                     r'bypass_check|type-in-type|impredicative-set|Admit\s+Obligations')


def strip_comments(src):
    out, depth, i = [], 0, 0
    while i < len(src):
        if src.startswith('(*', i):
            depth += 1
            i += 2
        elif src.startswith('*)', i) and depth:
            depth -= 1
            i += 2
        else:
            if not depth:
                out.append(src[i])
            i += 1
    return ''.join(out)


def hygiene_scan():
    """No Admitted/admit/Axiom/Parameter/... anywhere in the development (comments stripped).
    Variable/Hypothesis are allowed only inside a Section."""
    bad = []
    for path in sorted(glob.glob(os.path.join(COQ, 'theories', '**', '*.v'), recursive=True)):
        src = strip_comments(open(path).read())
        insec = 0
        for n, line in enumerate(src.split('\n'), 1):
            if re.match(r'\s*Section\b', line):
                insec += 1
            if re.match(r'\s*End\b', line) and insec:
                insec -= 1
            m = HYGIENE.search(line)
            if m:
                if m.group(1) in ('Variable', 'Hypothesis') and insec:
                    continue
                bad.append('%s:%d: %s' % (os.path.relpath(path, VERIF), n, line.strip()[:120]))
    return bad


def ensure_built(log):
    """Full .vo build (no-op when up to date) and the extracted driver; serialised by a lock."""
    import fcntl
    lock = open(os.path.join(VERIF, '.build.lock'), 'w')
    fcntl.flock(lock, fcntl.LOCK_EX)
    try:
        files = sorted(os.path.relpath(p, COQ) for p in glob.glob(os.path.join(COQ, 'theories', '**', '*.v'), recursive=True))
        listed = os.path.join(COQ, '.vfiles')
        if not os.path.exists(os.path.join(COQ, 'Makefile')) or not os.path.exists(listed) or open(listed).read().split() != files:
            subprocess.run(['coq_makefile', '-f', '_CoqProject', '-o', 'Makefile'] + files, cwd=COQ, check=True,
                           stdout=subprocess.DEVNULL)
            open(listed, 'w').write('\n'.join(files))
        t = time.time()
        r = subprocess.run(['timeout', '1800', 'make', '-j16', '-C', COQ], stdout=subprocess.PIPE, stderr=subprocess.STDOUT, text=True)
        log['make_s'] = round(time.time() - t, 1)
        if r.returncode != 0:
            return False, r.stdout[-4000:]
        drv = os.path.join(VERIF, 'ocaml', 'model_driver')
        srcs = glob.glob(os.path.join(COQ, 'theories', 'Model', '*.v')) + glob.glob(os.path.join(COQ, 'theories', 'Spec', '*.v')) + \
            [os.path.join(COQ, 'theories', 'Extract', 'Extract.v'), os.path.join(VERIF, 'ocaml', 'driver.ml')]
        if not os.path.exists(drv) or os.path.getmtime(drv) < max(os.path.getmtime(s) for s in srcs):
            r = subprocess.run(['timeout', '600', os.path.join(VERIF, 'ocaml', 'build.sh')], stdout=subprocess.PIPE, stderr=subprocess.STDOUT, text=True)
            if r.returncode != 0:
                return False, r.stdout[-4000:]
        return True, ''
    finally:
        fcntl.flock(lock, fcntl.LOCK_UN)
        lock.close()


def proof_step(pid, tier):
    """Re-check Props/<pid>.v from scratch in a private directory and read Print Assumptions."""
    res = {'obligations': 0, 'discharged': 0, 'theorems': [], 'problems': [], 'axioms': []}
    log = {}
    ok, msg = ensure_built(log)
    res.update(log)
    if not ok:
        res['problems'].append('build failed: ' + msg[-1500:])
        return res
    bad = hygiene_scan()
    if bad:
        res['problems'].append('hygiene: ' + '; '.join(bad[:5]))
    src = os.path.join(COQ, 'theories', 'Props', pid + '.v')
    text = strip_comments(open(src).read())
    thms = re.findall(r'^\s*Theorem\s+(\w+)', text, re.M)
    printed = re.findall(r'^\s*Print Assumptions\s+(\w+)', text, re.M)
    res['theorems'] = thms
    res['obligations'] = len(thms)
    missing = [t for t in thms if t not in printed]
    if missing:
        res['problems'].append('no Print Assumptions for: ' + ', '.join(missing))
    tmp = tempfile.mkdtemp(prefix='verif-proof-')
    try:
        t = time.time()
        r = subprocess.run(['timeout', '900', 'coqc', '-Q', 'theories', 'IsoTp', '-o', os.path.join(tmp, pid + '.vo'), src],
                           cwd=COQ, stdout=subprocess.PIPE, stderr=subprocess.STDOUT, text=True)
        res['coqc_s'] = round(time.time() - t, 1)
        res['checker_cmd'] = 'make -C coq (full .vo build) && coqc -Q theories IsoTp theories/Props/%s.v' % pid
        if r.returncode != 0:
            res['problems'].append('coqc failed on Props/%s.v: %s' % (pid, r.stdout[-1500:]))
            return res
        out = r.stdout
        # one output block per Print Assumptions: either "Closed under the global context" or "Axioms:" + entries
        closed = 0
        prim_blocks = 0
        cur = None
        blocks = []
        for l in out.split('\n'):
            if l.startswith('Closed under the global context'):
                closed += 1
                cur = None
            elif l.startswith('Axioms:'):
                cur = []
                blocks.append(cur)
            elif cur is not None:
                if l and not l[0].isspace():
                    cur.append(l.split(' ')[0])
        prim = re.compile(r'^(PrimFloat\.|Uint63\.|PrimInt63\.|FloatOps\.|float$|int$)')
        for names in blocks:
            bad_names = [n for n in names if not prim.match(n)]
            for n in names:
                if n not in res['axioms']:
                    res['axioms'].append(n)
            if bad_names:
                res['problems'].append('theorem depends on axiom: ' + ', '.join(bad_names))
            else:
                prim_blocks += 1
        res['discharged'] = min(len(thms), closed + prim_blocks)
        if closed + prim_blocks < len(printed):
            res['problems'].append('only %d of %d Print Assumptions outputs are closed' % (closed + prim_blocks, len(printed)))
        if tier == 'thorough':
            t = time.time()
            vo = os.path.join(COQ, 'theories', 'Props', pid + '.vo')
            r = subprocess.run(['timeout', '1500', 'coqchk', '-silent', '-o', '-Q', 'theories', 'IsoTp', 'IsoTp.Props.' + pid],
                               cwd=COQ, stdout=subprocess.PIPE, stderr=subprocess.STDOUT, text=True)
            res['coqchk_s'] = round(time.time() - t, 1)
            res['coqchk_tail'] = r.stdout[-1200:]
            if r.returncode != 0:
                res['problems'].append('coqchk failed: ' + r.stdout[-800:])
    finally:
        shutil.rmtree(tmp, ignore_errors=True)
    return res


# ------------------------------------------------------------------------------------------------
class Findings:
    def __init__(self):
        path = os.path.join(VERIF, 'known_findings.json')
        self.entries = json.load(open(path)) if os.path.exists(path) else []

    def open_for(self, pid):
        return [e for e in self.entries if e.get('status') == 'open' and e.get('property') == pid]

    def match(self, pid, signature):
        for e in self.open_for(pid):
            if e.get('signature') == signature:
                return e
        return None


def ddmin_ops(case, fails, budget=120):
    """Delta-debugging over the op list; [fails(case)] is the predicate to preserve."""
    ops = list(case['ops'])
    n = 2
    calls = 0
    while len(ops) >= 2 and calls < budget:
        chunk = max(1, len(ops) // n)
        reduced = False
        for i in range(0, len(ops), chunk):
            cand = ops[:i] + ops[i + chunk:]
            calls += 1
            if cand and fails(dict(case, ops=cand)):
                ops = cand
                n = max(n - 1, 2)
                reduced = True
                break
            if calls >= budget:
                break
        if not reduced:
            if chunk == 1:
                break
            n = min(len(ops), n * 2)
    return dict(case, ops=ops)


class Ctx:
    """Per-run context handed to the property modules."""

    def __init__(self, pid, tier, seed):
        self.pid, self.tier, self.seed = pid, tier, seed
        self.quick = tier != 'thorough'
        self.violations = []      # dicts
        self.known = []
        self.stats = Counter()
        self.hist = {}
        self.samples = []
        self.notes = []
        self.evaluations = 0
        self.distinct = set()
        self.traces_validated = 0
        self.exhaustive = {}
        self.findings = Findings()
        self.t0 = time.time()

    def merge(self, part):
        self.evaluations += part.get('evaluations', 0)
        self.traces_validated += part.get('traces_validated', 0)
        self.stats.update(part.get('stats', {}))
        for k, h in part.get('hist', {}).items():
            self.hist.setdefault(k, Counter()).update(h)
        self.distinct.update(part.get('distinct', []))
        for s in part.get('samples', []):
            if len(self.samples) < 6:
                self.samples.append(s)
        for v in part.get('violations', []):
            self.add_violation(v)

    def add_violation(self, v):
        e = self.findings.match(self.pid, v.get('signature'))
        if e is not None:
            if e['signature'] not in [k['signature'] for k in self.known]:
                self.known.append(e)
            return
        self.violations.append(v)


def shard_worker(args):
    modname, campaign, shard, nshards, seed, tier = args
    import importlib
    sys.path.insert(0, HERE)
    mod = importlib.import_module(modname)
    return mod.run_shard(campaign, shard, nshards, seed, tier)


def run_sharded(ctx, modname, campaign, nshards=None):
    nshards = nshards or (4 if ctx.quick else 16)
    args = [(modname, campaign, k, nshards, ctx.seed, ctx.tier) for k in range(nshards)]
    if nshards == 1:
        parts = [shard_worker(args[0])]
    else:
        budget = float(os.environ.get('VERIF_CAMPAIGN_TIMEOUT', 1500 if ctx.quick else 6 * 3600))
        with multiprocessing.get_context('fork').Pool(min(nshards, 16)) as pool:
            res = pool.map_async(shard_worker, args)
            try:
                parts = res.get(timeout=budget)
            except multiprocessing.TimeoutError:
                pool.terminate()
                hung = Part()
                hung.violation('hang', campaign, 'campaign-did-not-terminate',
                               'campaign %s of %s did not finish within %d s: an operation of the implementation (or of the model) '
                               'blocks or loops; no smaller input isolated' % (campaign, modname, budget), None,
                               {'theorem_or_correspondence': 'termination of campaign %s/%s' % (modname, campaign)})
                parts = [hung.result()]
    for p in parts:
        ctx.merge(p)


class Part:
    """Accumulator used inside a shard."""

    def __init__(self):
        self.d = {'evaluations': 0, 'traces_validated': 0, 'stats': Counter(), 'hist': {}, 'distinct': set(),
                  'samples': [], 'violations': []}

    def count(self, key, n=1):
        self.d['stats'][key] += n

    def hist(self, name, key, n=1):
        self.d['hist'].setdefault(name, Counter())[key] += n

    def distinct(self, obj):
        self.d['distinct'].add(hashlib.sha1(json.dumps(obj, sort_keys=True, default=str).encode()).hexdigest()[:16])

    def sample(self, obj):
        if len(self.d['samples']) < 2:
            self.d['samples'].append(obj)

    def violation(self, kind, campaign, signature, detail, case=None, extra=None):
        if len(self.d['violations']) < 5:
            v = {'kind': kind, 'campaign': campaign, 'signature': signature, 'detail': detail, 'case': case}
            if extra:
                v.update(extra)
            self.d['violations'].append(v)

    def result(self):
        d = dict(self.d)
        d['distinct'] = list(d['distinct'])
        d['hist'] = {k: dict(v) for k, v in d['hist'].items()}
        d['stats'] = dict(d['stats'])
        return d


def write_replay(pid, seed, idx, v, theorem=None):
    d = os.path.join(EVIDENCE_DIR or os.path.join(VERIF, 'evidence'), 'replays')
    os.makedirs(d, exist_ok=True)
    path = os.path.join(d, '%s-%s-%d.json' % (pid, seed, idx))
    v = dict(v, property=pid, seed=seed)
    if theorem:
        v['theorem_or_correspondence'] = theorem
    json.dump(v, open(path, 'w'), indent=1, default=str)
    return path


EVIDENCE_DIR = None


def finish(ctx, proof, level_rule, assumptions, extra_cov=None):
    """Print KNOWN-FINDING / VIOLATION lines, write evidence, return exit code."""
    pid = ctx.pid
    nviol = 0
    for p in proof['problems']:
        v = {'kind': 'proof', 'campaign': 'proof-step', 'signature': 'proof:' + p[:60], 'detail': p,
             'theorem_or_correspondence': 'IsoTp.Props.%s (%s)' % (pid, ', '.join(proof.get('theorems', [])))}
        path = write_replay(pid, ctx.seed, nviol, v)
        print('VIOLATION property=%s replay=%s no-failing-input-found' % (pid, path))
        nviol += 1
    for e in ctx.known:
        print('KNOWN-FINDING: property=%s %s' % (pid, e.get('what', e.get('signature'))))
    for v in ctx.violations[:10]:
        path = write_replay(pid, ctx.seed, nviol, v)
        if v['kind'] == 'oracle':
            print('VIOLATION property=%s replay=%s' % (pid, path))
        else:
            print('VIOLATION property=%s replay=%s no-failing-input-found' % (pid, path))
        nviol += 1
    cov = {
        'obligations': proof['obligations'], 'discharged': proof['discharged'],
        'checker_cmd': proof.get('checker_cmd', 'coqc'), 'trusted_base': TRUSTED_BASE + assumptions,
        'theorems': proof.get('theorems', []),
        'print_assumptions': 'Closed under the global context' if not proof['axioms'] else 'kernel primitives only: ' + ', '.join(sorted(set(proof['axioms']))),
        'evaluations': ctx.evaluations, 'distinct_nontrivial': len(ctx.distinct),
        'traces_validated_against_impl': ctx.traces_validated,
        'rule': level_rule, 'samples': ctx.samples[:6] or [{'note': 'no case sampled'}],
        'counters': dict(ctx.stats), 'input_distribution': {k: dict(sorted(v.items(), key=lambda kv: -kv[1])[:40]) for k, v in ctx.hist.items()},
        'exhaustive': bool(ctx.exhaustive) and all(ctx.exhaustive.values()), 'exhaustive_parts': ctx.exhaustive,
        'proof_times_s': {k: proof[k] for k in ('make_s', 'coqc_s', 'coqchk_s') if k in proof},
        'coqchk_output_tail': proof.get('coqchk_tail', 'not run in this tier'),
        'notes': ctx.notes,
    }
    if extra_cov:
        cov.update(extra_cov)
    ev = {'property_id': pid, 'tier': ctx.tier, 'seed': ctx.seed, 'level': 'proof', 'coverage': cov,
          'assumptions': assumptions, 'wall_s': round(time.time() - ctx.t0, 2), 'violations': nviol}
    evdir = EVIDENCE_DIR or os.path.join(VERIF, 'evidence')
    os.makedirs(evdir, exist_ok=True)
    json.dump(ev, open(os.path.join(evdir, pid + '.json'), 'w'), indent=1, default=str)
    return 1 if nviol else 0
