import os
import sys
import json
import argparse
import importlib

HERE = os.path.dirname(os.path.abspath(__file__))
sys.path.insert(0, HERE)
sys.path.insert(0, os.path.join(HERE, 'props'))
sys.path.insert(0, os.path.join(HERE, 'campaigns'))
import runner  # noqa: E402


def main():
    ap = argparse.ArgumentParser()
    ap.add_argument('pid')
    ap.add_argument('--tier', default=os.environ.get('VERIF_TIER', 'quick'))
    ap.add_argument('--replay')
    ap.add_argument('--no-proof', action='store_true', help='development only: skip the proof step')
    a = ap.parse_args()
    seed = int(os.environ.get('VERIF_SEED', '20260930'))
    tier = 'thorough' if a.tier == 'thorough' else 'quick'
    mod = importlib.import_module(a.pid)
    if a.replay:
        v = json.load(open(a.replay))
        sys.exit(mod.replay(v) if hasattr(mod, 'replay') else generic_replay(v))
    ctx = runner.Ctx(a.pid, tier, seed)
    # replay files of an earlier run with the same seed must not be mistaken for this run's
    import glob
    for sub in ('replays', os.path.join('noproof', 'replays')):
        for old in glob.glob(os.path.join(runner.VERIF, 'evidence', sub, '%s-%s-*.json' % (a.pid, seed))):
            if (sub == 'replays') != bool(a.no_proof):
                try:
                    os.remove(old)
                except OSError:
                    pass
    if a.no_proof:
        runner.EVIDENCE_DIR = os.path.join(runner.VERIF, 'evidence', 'noproof')      # development runs never overwrite the evidence of record
        proof = {'obligations': 0, 'discharged': 0, 'problems': [], 'axioms': [], 'theorems': []}
    else:
        proof = runner.proof_step(a.pid, tier)
    try:
        rule, assume = mod.run(ctx)
    except BaseException as e:      # an exception inside a campaign: the implementation (or the harness on it) misbehaved
        import traceback
        tb = traceback.format_exc()
        rule, assume = getattr(mod, 'RULE', ''), getattr(mod, 'ASSUME', [])
        ctx.violations.append({'kind': 'harness-exception', 'campaign': 'run', 'signature': 'exception:' + type(e).__name__,
                               'detail': 'a campaign of %s stopped with %s: %s' % (a.pid, type(e).__name__, str(e)[:300]),
                               'traceback': tb[-3000:], 'case': None,
                               'theorem_or_correspondence': 'campaigns of %s could not be completed' % a.pid})
    rc = runner.finish(ctx, proof, rule, assume, getattr(mod, 'EXTRA_COV', None))
    print('%s tier=%s seed=%d evaluations=%d theorems=%d/%d violations=%d wall=%.1fs' % (
        a.pid, tier, seed, ctx.evaluations, proof['discharged'], proof['obligations'], rc, __import__('time').time() - ctx.t0))
    sys.exit(rc)


def generic_replay(v):
    """Re-run a recorded case on the current tree and print both traces."""
    from core import run_impl, ModelProc, first_diff
    case = v.get('case')
    if not case or 'ops' not in case:
        print(json.dumps(v, indent=1)[:3000])
        return 0
    il, _ = run_impl(case)
    ml = ModelProc().run_case(case)
    for op, x, y in zip(case['ops'], il, ml):
        print(op, '\n  impl :', x, '\n  model:', y)
    d = first_diff(il, ml)
    print('first difference at op', d)
    return 1 if d is not None else 0


if __name__ == '__main__':
    main()
