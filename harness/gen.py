"""Generators of configurations, addresses and frames shared by the campaigns.
Every random choice comes from the random.Random instance passed in."""
from core import MODES

TX_DLS = [8, 12, 16, 20, 24, 32, 48, 64]
MIN_LENS = [1, 2, 3, 4, 5, 6, 7, 8, 12, 16, 20, 24, 32, 48, 64]
VALID_STMIN = list(range(0, 0x80)) + list(range(0xF1, 0xFA))


def rand_address(rng, mode=None):
    """A full (non partial) valid address dict."""
    mode = mode or rng.choice(MODES)
    is29 = '29' in mode
    idmax = 0x1FFFFFFF if is29 else 0x7FF
    a = {'mode': mode}
    # boundary values (0x00, 0xFF, identifier 0 / maximum) are drawn far more often than a uniform choice would
    byte = lambda: rng.choice([0x00, 0x00, 0xFF, rng.randint(0, 255), rng.randint(0, 255), rng.randint(0, 255), rng.randint(0, 255)])
    if mode in ('Normal_11bits', 'Normal_29bits', 'Extended_11bits', 'Extended_29bits', 'Mixed_11bits'):
        a['txid'] = rng.choice([0, idmax, rng.randint(0, idmax), rng.randint(0, idmax), rng.randint(0, idmax), rng.randint(0, idmax)])
        a['rxid'] = rng.choice([x for x in [rng.randint(0, idmax), a['txid'] ^ (1 << rng.randrange(11))] if x != a['txid'] and 0 <= x <= idmax] or [(a['txid'] + 1) % (idmax + 1)])
    if mode in ('NormalFixed_29bits', 'Extended_11bits', 'Extended_29bits', 'Mixed_29bits'):
        a['target_address'] = byte()
        a['source_address'] = byte()
    if mode in ('Mixed_11bits', 'Mixed_29bits'):
        a['address_extension'] = byte()
    if mode in ('NormalFixed_29bits', 'Mixed_29bits') and rng.random() < 0.5:
        # custom identifier bases: both, or only one of them (the other keeps its standard value)
        which = rng.choice(['both', 'both', 'physical', 'functional'])
        if which in ('both', 'physical'):
            a['physical_id'] = rng.randint(0, 0x1FFFFFFF)
        if which in ('both', 'functional'):
            a['functional_id'] = rng.randint(0, 0x1FFFFFFF)
    return a


def with_stray(rng, a, prob=0.4):
    """Adds parameters that are legal but unused in the address's mode (an address_extension in a Normal mode, target / source
    address bytes where the mode does not look at them): they must change nothing anywhere."""
    if rng.random() >= prob:
        return a
    a = dict(a)
    byte = lambda: rng.choice([0x00, 0xFF, rng.randint(0, 255), rng.randint(0, 255)])
    m = a['mode']
    if m not in ('Mixed_11bits', 'Mixed_29bits') and rng.random() < 0.7:
        a['address_extension'] = byte()
    if m in ('Normal_11bits', 'Normal_29bits', 'Mixed_11bits'):
        if rng.random() < 0.5:
            a['target_address'] = byte()
        if rng.random() < 0.5:
            a['source_address'] = byte()
    return a


def mirror(a):
    """The address of the peer that talks to [a] (documentation: addressing.rst)."""
    m = dict(a)
    if 'txid' in a or 'rxid' in a:
        m['txid'], m['rxid'] = a.get('rxid'), a.get('txid')
    if a['mode'] in ('NormalFixed_29bits', 'Extended_11bits', 'Extended_29bits', 'Mixed_29bits'):
        m['target_address'], m['source_address'] = a.get('source_address'), a.get('target_address')
    return m


def rand_inst_pair(rng, asym_prob=0.2):
    """(inst A address part, inst B address part): dicts with txa/rxa keys, mirrored."""
    if rng.random() < asym_prob:
        t, r = rand_address(rng), rand_address(rng)
        # direction A->B uses t, direction B->A uses r
        a = {'txa': t, 'rxa': mirror(r)}
        b = {'txa': r, 'rxa': mirror(t)}
        return a, b
    t = rand_address(rng)
    return {'txa': t, 'rxa': None}, {'txa': mirror(t), 'rxa': None}


def rx_addr_of(inst):
    return inst['rxa'] if inst.get('rxa') is not None else inst['txa']


def tx_addr_of(inst):
    return inst['txa']


def phys_base(a, functional=False):
    if a['mode'] == 'NormalFixed_29bits':
        d = 0x18DB0000 if functional else 0x18DA0000
    else:
        d = 0x18CD0000 if functional else 0x18CE0000
    v = a.get('functional_id' if functional else 'physical_id')
    return d if v is None else (v & 0x1FFF0000)


def reach(inst, functional=False):
    """(arbitration id, extended flag, prefix bytes) a peer must use so that [inst] accepts the frame
    (written from addressing.rst, independently of the library)."""
    a = rx_addr_of(inst)
    m = a['mode']
    ext = '29' in m
    if m in ('Normal_11bits', 'Normal_29bits'):
        return a['rxid'], ext, b''
    if m in ('Extended_11bits', 'Extended_29bits'):
        return a['rxid'], ext, bytes([a['source_address']])
    if m == 'Mixed_11bits':
        return a['rxid'], ext, bytes([a['address_extension']])
    rid = phys_base(a, functional) | (a['source_address'] << 8) | a['target_address']
    if m == 'NormalFixed_29bits':
        return rid, ext, b''
    return rid, ext, bytes([a['address_extension']])


def rand_params(rng, profile='any'):
    p = {}
    tx_dl = rng.choice(TX_DLS) if rng.random() < 0.6 else 8
    p['tx_data_length'] = tx_dl
    if rng.random() < 0.4:
        p['tx_data_min_length'] = rng.choice([m for m in MIN_LENS if m <= tx_dl])
    if rng.random() < 0.4:
        p['tx_padding'] = rng.choice([0, 0xAA, 0x55, 0xFF, rng.randint(0, 255)])
    p['blocksize'] = rng.choice([0, 1, 2, 3, 8, 15, 16, 17, 255, rng.randint(0, 255)])
    p['stmin'] = rng.choice([0, 0, 1, 5, 0x7F, 0xF1, 0xF9, rng.choice(VALID_STMIN)])
    if tx_dl > 8 or rng.random() < 0.3:
        p['can_fd'] = rng.random() < 0.8
        p['bitrate_switch'] = rng.random() < 0.5
    p['max_frame_size'] = rng.choice([4095, 4095, 100, 7, 65535, 10**6, rng.randint(0, 5000)])
    p['rx_flowcontrol_timeout'] = rng.choice([1000, 1, 7, 200, 1001, 9999])
    p['rx_consecutive_frame_timeout'] = rng.choice([1000, 1, 7, 200, 1001, 9999])
    p['wftmax'] = rng.choice([0, 0, 1, 3])
    if rng.random() < 0.2:
        p['override_receiver_stmin'] = rng.choice([0, 0.0003, 0.05, 0.001])
    if rng.random() < 0.15:
        p['listen_mode'] = True
    if rng.random() < 0.25:
        p['rate_limit_enable'] = True
        window = rng.choice([1.0, 0.5, 0.25, 0.125, 2.0, 0.0625])
        # budget in bits: at least one frame, a multiple of 1/window so that bitrate is an int
        bits = max(tx_dl * 8, rng.choice([64, 512, 520, 1024, 4096, 100000]))
        bitrate = int(bits / window)
        if bitrate * window < tx_dl * 8:
            bitrate += int(1 / window) + 1
        p['rate_limit_max_bitrate'] = bitrate
        p['rate_limit_window_size'] = window
    if rng.random() < 0.1:
        p['default_target_address_type'] = 1
    return p


# ------------------------------------------------------------------ frames
def fc_frame(status, bs, stmin, extra=b''):
    return bytes([0x30 | (status & 0xF), bs & 0xFF, stmin & 0xFF]) + extra


def rand_garbage(rng, maxlen=64):
    n = rng.choice([0, 1, 2, 3, 7, 8, 9, 12, 16, 20, 24, 32, 48, 64, rng.randint(0, maxlen)])
    b = bytearray(rng.getrandbits(8) for _ in range(n))
    if n and rng.random() < 0.7:
        b[0] = (rng.choice([0, 1, 2, 3, rng.randint(0, 15)]) << 4) | rng.randint(0, 15)
    return bytes(b)
