"""Exhaustive comparison of the finite float tables: the Python expressions used by the harness
(and by the implementation) against the Coq PrimFloat definitions, evaluated inside coqc."""
import os
import subprocess
import tempfile
import shutil
import time as _time
import vclock  # noqa: F401,E402  (clock trampolines go in before the library binds anything)
import isotp
from core import ms_to_ns, sec_to_ns, VERIF
from vclock import VClock

COQ = os.path.join(VERIF, 'coq')


def impl_timer_ns(ms):
    """what the implementation's Timer really holds for a millisecond parameter"""
    from isotp.tools import Timer
    return Timer(timeout=float(ms) / 1000).timeout


def impl_stmin_ns(b):
    from isotp.protocol import PDU
    from isotp.tools import Timer
    try:
        pdu = PDU(isotp.CanMessage(arbitration_id=1, data=bytes([0x30, 0, b])))
    except ValueError:
        return None
    t = Timer(timeout=0)
    t.set_timeout(pdu.stmin_sec)
    return t.timeout


def run_coq(src, timeout=300):
    tmp = tempfile.mkdtemp(prefix='verif-tables-')
    try:
        path = os.path.join(tmp, 'cases.v')
        open(path, 'w').write(src)
        r = subprocess.run(['timeout', str(timeout), 'coqc', '-Q', os.path.join(COQ, 'theories'), 'IsoTp', path],
                           stdout=subprocess.PIPE, stderr=subprocess.STDOUT, text=True, cwd=tmp)
        return r.returncode, r.stdout
    finally:
        shutil.rmtree(tmp, ignore_errors=True)


def check_to_ns_table(ctx, hi=20000):
    """0..hi ms: implementation Timer == harness ms_to_ns == Coq FloatTables.to_ns. Returns True when all agree."""
    ok = True
    exc = []
    for ms in range(hi + 1):
        v = impl_timer_ns(ms)
        if v != ms_to_ns(ms):
            ok = False
            ctx.add_violation({'kind': 'oracle', 'campaign': 'to_ns-table', 'signature': 'C07:timer-conversion',
                               'detail': 'Timer(timeout=%d/1000) holds %d ns, expected int(float(ms)/1000*1e9) = %d' % (ms, v, ms_to_ns(ms)),
                               'case': {'ms': ms}})
            break
        if v != ms * 10**6:
            exc.append((ms, v))
    ctx.evaluations += hi + 1
    ctx.stats['to_ns_table_entries'] = hi + 1
    ctx.stats['to_ns_entries_1ns_short'] = len(exc)
    lst = '; '.join('(%d, %d)' % e for e in exc)
    src = '''From Coq Require Import ZArith List Bool. Import ListNotations. Open Scope Z_scope.
From IsoTp Require Import Model.FloatTables.
Definition exc : list (Z * Z) := [%s].
Fixpoint lookup (k : Z) (l : list (Z * Z)) : option Z :=
  match l with [] => None | (a, b) :: r => if a =? k then Some b else lookup k r end.
Definition agree := forallb (fun ms => to_ns ms =? match lookup ms exc with Some v => v | None => ms * 1000000 end) (zrange 0 (Z.to_nat %d)).
Eval vm_compute in agree.
''' % (lst, hi + 1)
    rc, out = run_coq(src)
    good = rc == 0 and '= true' in out
    if not good:
        ok = False
        ctx.add_violation({'kind': 'correspondence', 'campaign': 'to_ns-table', 'signature': 'corr:to_ns-table',
                           'detail': 'Coq FloatTables.to_ns differs from the Python conversion: ' + out[-400:],
                           'theorem_or_correspondence': 'IsoTp.Model.FloatTables.to_ns_bounds_table / harness ms_to_ns'})
    ctx.traces_validated += 1
    return ok


def check_stmin_table(ctx):
    ok = True
    vals = []
    for b in range(256):
        v = impl_stmin_ns(b)
        valid = (0 <= b <= 0x7F) or (0xF1 <= b <= 0xF9)
        if (v is not None) != valid:
            ok = False
            ctx.add_violation({'kind': 'oracle', 'campaign': 'stmin-table', 'signature': 'C08:stmin-byte-validity',
                               'detail': 'STmin byte 0x%02x accepted=%s, documented valid=%s' % (b, v is not None, valid), 'case': {'byte': b}})
        vals.append(0 if v is None else v)
        exp = b * 10**6 if b <= 0x7F else ((b - 0xF0) * 10**5 if 0xF1 <= b <= 0xF9 else 0)
        if valid and v != exp:
            ok = False
            ctx.add_violation({'kind': 'oracle', 'campaign': 'stmin-table', 'signature': 'C08:stmin-decoding',
                               'detail': 'STmin byte 0x%02x decoded to %s ns, documented %d ns' % (b, v, exp), 'case': {'byte': b}})
    ctx.evaluations += 256
    src = '''From Coq Require Import ZArith List Bool. Import ListNotations. Open Scope Z_scope.
From IsoTp Require Import Model.FloatTables Model.Layer.
Definition py : list Z := [%s].
Definition agree := forallb (fun x => (stmin_float_ns (fst x) =? snd x) && (Layer.stmin_ns (fst x) =? snd x)) (combine (zrange 0 (Z.to_nat 256)) py).
Eval vm_compute in agree.
''' % '; '.join(str(v) for v in vals)
    rc, out = run_coq(src)
    if not (rc == 0 and '= true' in out):
        ok = False
        ctx.add_violation({'kind': 'correspondence', 'campaign': 'stmin-table', 'signature': 'corr:stmin-table',
                           'detail': 'Coq stmin tables differ from the implementation: ' + out[-400:],
                           'theorem_or_correspondence': 'IsoTp.Model.FloatTables.stmin_table'})
    ctx.traces_validated += 1
    return ok
