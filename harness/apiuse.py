"""Scenarios about HOW THE PUBLIC API IS USED (user calls between passes, argument kinds, objects shared between calls, threads
blocked in calls): small deterministic Python programs against the real library on the virtual clock, each with an oracle stated in
terms of the property it belongs to.  They are not replayed on the Coq model (the model has no load_params / clear_rx_queue /
set_address operations); what they check is that such calls leave the modelled behaviour alone.  run_api() is the 'api' campaign of
the properties listed in SCENARIOS."""
import vclock  # noqa: F401  (clock trampolines before the library)
import random
import threading
import time as _time
import isotp
from vclock import VClock
from runner import Part

PHYS = dict(txid=0x111, rxid=0x222)


def mk(params, clock, sent, inbox, errors=None, addr=None, cls=None):
    a = addr or isotp.Address(isotp.AddressingMode.Normal_11bits, **PHYS)
    cls = cls or isotp.TransportLayerLogic
    return cls(rxfn=lambda *_: inbox.pop(0) if inbox else None, txfn=sent.append, address=a, params=dict(params),
               error_handler=(errors.append if errors is not None else None))


def fcmsg(bs=0, st=0, status=0):
    return isotp.CanMessage(arbitration_id=0x222, data=bytes([0x30 | status, bs, st]))


def frames_of(sent, only_data=True):
    return [bytes(m.data) for m in sent if not only_data or (bytes(m.data)[0] >> 4) != 3]


def reference_frames(params, payload, steps=400):
    """what a fresh layer with the same parameters emits for the payload given as bytes, against a peer that grants everything at once"""
    clock = VClock().install()
    try:
        sent, inbox = [], []
        l = mk(params, clock, sent, inbox)
        l.send(bytes(payload))
        for _ in range(steps):
            l.process()
            if not l.transmitting():
                break
            inbox.append(fcmsg())
            clock.tick(10**6)
        return frames_of(sent)
    finally:
        clock.uninstall()


# ---------------------------------------------------------------- C01 / C04
def reload_midstream(rng):
    """load_params() called by the user between two Consecutive Frames of a paced transfer (e.g. after a params.set()): the transfer
    goes on and completes with exactly the reference frames"""
    n = rng.choice([30, 45, 80])
    payload = bytes(rng.getrandbits(8) for _ in range(n))
    params = {'stmin': 0, 'blocksize': 0}
    if rng.random() < 0.5:
        params.update(rate_limit_enable=True, rate_limit_max_bitrate=64 * 8 * 4, rate_limit_window_size=0.125)
    ref = reference_frames({'stmin': 0, 'blocksize': 0}, payload)
    clock = VClock().install()
    fails = []
    try:
        sent, inbox, errors, done = [], [], [], []
        l = mk(params, clock, sent, inbox, errors)
        l.send(payload)
        l.process()
        inbox.append(fcmsg(0, 5))          # unlimited block, 5 ms between frames
        reload_at = rng.randint(1, max(1, len(ref) - 3))
        for step in range(400):
            l.process()
            if not l.transmitting():
                break
            if len(frames_of(sent)) - 1 == reload_at:
                if rng.random() < 0.5:
                    l.params.set('blocksize', rng.choice([0, 4]))
                l.load_params()
                reload_at = -1
            clock.tick(5100000)
        got = frames_of(sent)
        if l.transmitting() or got != ref or errors:
            fails.append(('transfer-disturbed-by-load_params', 'load_params() between two Consecutive Frames: %d of %d frames emitted, still transmitting=%s, errors %s' % (
                len(got), len(ref), l.transmitting(), [type(e).__name__ for e in errors[:3]])))
    finally:
        clock.uninstall()
    return fails, {'scenario': 'reload_midstream', 'n': n, 'params': params}


# ---------------------------------------------------------------- C02 / C17
def tuple_iterable(rng):
    """send((source, size)) where source is a re-iterable container, not a generator: refused with ValueError - or, if a library
    version accepts it, segmented exactly like the same bytes"""
    n = rng.choice([20, 45, 100])
    values = [rng.getrandbits(8) for _ in range(n + rng.choice([0, 0, 5]))]
    source = rng.choice([list, bytes, bytearray, tuple])(values)
    size = rng.choice([n, n, max(8, n - 3)])
    params = {'tx_data_length': rng.choice([8, 16])}
    if params['tx_data_length'] > 8:
        params['can_fd'] = True
    ref = reference_frames(params, bytes(values[:size]))
    clock = VClock().install()
    fails = []
    try:
        sent, inbox, errors = [], [], []
        l = mk(params, clock, sent, inbox, errors)
        try:
            l.send((source, size))
            accepted = True
        except ValueError:
            accepted = False
        if accepted:
            for _ in range(400):
                l.process()
                if not l.transmitting():
                    break
                inbox.append(fcmsg())
                clock.tick(10**6)
            got = frames_of(sent)
            if got != ref:
                k = next((i for i in range(min(len(got), len(ref))) if got[i] != ref[i]), min(len(got), len(ref)))
                fails.append(('container-payload-missegmented', 'send((%s of %d values, %d)) accepted: frame %d is %s, the same bytes give %s' % (
                    type(source).__name__, len(values), size, k, got[k].hex() if k < len(got) else None, ref[k].hex() if k < len(ref) else None)))
    finally:
        clock.uninstall()
    return fails, {'scenario': 'tuple_iterable', 'type': type(source).__name__, 'size': size}


def huge_bytes_payload(rng):
    """a bytes-like payload of 2^32 bytes or more cannot be announced by a First Frame: send() refuses it with ValueError, whatever the
    kind of the payload (the (generator, size) form is covered by the huge campaign)"""
    fails = []
    try:
        data = bytes(2**32 + rng.choice([0, 1, 5]))      # zero pages, never touched
    except MemoryError:
        return [], {'scenario': 'huge_bytes_payload', 'skipped': 'no memory for the payload object'}
    clock = VClock().install()
    try:
        sent, inbox = [], []
        l = mk({}, clock, sent, inbox)
        try:
            l.send(data)
            out = 'accepted'
        except ValueError:
            out = 'valueerror'
        except Exception as e:
            out = type(e).__name__
        if out != 'valueerror':
            l.process()
            first = bytes(sent[0].data).hex() if sent else None
            fails.append(('size-2^32-accepted', 'send(bytes(%d)): %s; first frame %s' % (len(data), out, first)))
    finally:
        clock.uninstall()
        del data
    return fails, {'scenario': 'huge_bytes_payload'}


def no_buffering(rng):
    """a (generator, size) payload is streamed: while a 1 MB transfer is under way the library holds on to a few kilobytes, not to the
    values it has already sent"""
    import tracemalloc
    import gc
    size = 1024 * 1024
    clock = VClock().install()
    fails = []
    try:
        inbox = []
        l = isotp.TransportLayerLogic(rxfn=lambda: inbox.pop(0) if inbox else None, txfn=lambda m: None,
                                      address=isotp.Address(isotp.AddressingMode.Normal_11bits, **PHYS),
                                      params={'tx_data_length': 64, 'can_fd': True, 'stmin': 0})

        def g():
            for i in range(size):
                yield i & 0xFF
        gc.collect()
        tracemalloc.start()
        base = tracemalloc.get_traced_memory()[0]
        l.send((g(), size))
        l.process()
        peak_retained = 0
        for step in range(400):
            inbox.append(fcmsg(200, 0))             # blocks of 200 frames: the transfer spans many passes
            l.process()
            if not l.transmitting():
                break
            if step % 8 == 0:
                gc.collect()
                peak_retained = max(peak_retained, tracemalloc.get_traced_memory()[0] - base)
        tracemalloc.stop()
        if peak_retained > 256 * 1024:
            fails.append(('payload-buffered', 'streaming %d bytes from a generator: %d bytes still held by the library after the frames were handed over' % (size, peak_retained)))
    finally:
        clock.uninstall()
    return fails, {'scenario': 'no_buffering'}


# ---------------------------------------------------------------- C03
def blocked_recv(rng):
    """a consumer thread is already blocked in recv(block=True, timeout) when clear_rx_queue() / reset() is called; the message received
    afterwards is handed to that consumer"""
    payload = bytes(rng.getrandbits(8) for _ in range(rng.choice([3, 20])))
    sent, inbox = [], []
    clock = VClock().install()
    fails = []
    try:
        l = mk({'blocksize': 0}, clock, sent, inbox)
        out = {}

        def consumer():
            out['got'] = l.recv(block=True, timeout=3.0)
        t = threading.Thread(target=consumer, daemon=True)
        t.start()
        _time.sleep(0.05)
        which = rng.choice(['clear_rx_queue', 'reset'])
        getattr(l, which)()
        if len(payload) <= 7:
            inbox.append(isotp.CanMessage(arbitration_id=0x222, data=bytes([len(payload)]) + payload))
        else:
            inbox.append(isotp.CanMessage(arbitration_id=0x222, data=bytes([0x10, len(payload)]) + payload[:6]))
            rest, sn = payload[6:], 1
            while rest:
                inbox.append(isotp.CanMessage(arbitration_id=0x222, data=bytes([0x20 | sn]) + rest[:7]))
                rest, sn = rest[7:], (sn + 1) & 0xF
        for _ in range(10):
            l.process()
        t.join(4.0)
        got = out.get('got')
        if t.is_alive() or got is None or bytes(got) != payload:
            fails.append(('blocked-consumer-missed-the-message', 'a consumer blocked in recv(block=True) before %s(): got %r for a %d-byte message (available()=%s)' % (
                which, None if got is None else bytes(got).hex(), len(payload), l.available())))
    finally:
        clock.uninstall()
    return fails, {'scenario': 'blocked_recv', 'len': len(payload)}


# ---------------------------------------------------------------- C05
def clear_midreception(rng):
    """clear_rx_queue() (drops payloads already delivered to the queue) called in the middle of a reception: the reception in progress
    is not touched - the message is delivered whole, nothing else"""
    n = rng.choice([20, 45])
    payload = bytes(rng.getrandbits(8) for _ in range(n))
    frames = [bytes([0x10, n]) + payload[:6]]
    rest, sn = payload[6:], 1
    while rest:
        frames.append(bytes([0x20 | sn]) + rest[:7])
        rest, sn = rest[7:], (sn + 1) & 0xF
    cut = rng.randint(1, len(frames) - 1)
    sent, inbox, errors = [], [], []
    clock = VClock().install()
    fails = []
    try:
        l = mk({'blocksize': 0}, clock, sent, inbox, errors)
        delivered = []
        for i, f in enumerate(frames + [bytes([0x20 | sn]) + bytes(7)]):       # one stray in-sequence Consecutive Frame at the end
            if i == cut:
                l.clear_rx_queue()
            inbox.append(isotp.CanMessage(arbitration_id=0x222, data=f))
            l.process()
            while l.available():
                delivered.append(bytes(l.recv()))
        if delivered != [payload]:
            fails.append(('unjustified-delivery', 'clear_rx_queue() before frame %d of %d: delivered %s, the traffic justifies exactly the %d-byte message' % (
                cut, len(frames), [d.hex()[:16] for d in delivered], n)))
    finally:
        clock.uninstall()
    return fails, {'scenario': 'clear_midreception', 'n': n, 'cut': cut}


# ---------------------------------------------------------------- C07
def retimed(rng):
    """rx_consecutive_frame_timeout changed with params.set() during a reception: every Consecutive Frame restarts the deadline with the
    value in force at that moment"""
    t1, t2 = 200, 10
    n = 40
    payload = bytes(range(n))
    frames = [bytes([0x10, n]) + payload[:6]]
    rest, sn = payload[6:], 1
    while rest:
        frames.append(bytes([0x20 | sn]) + rest[:7])
        rest, sn = rest[7:], (sn + 1) & 0xF
    late = rng.random() < 0.5
    sent, inbox, errors = [], [], []
    clock = VClock().install()
    fails = []
    try:
        l = mk({'blocksize': 0, 'rx_consecutive_frame_timeout': t1}, clock, sent, inbox, errors)
        def feed(f):
            inbox.append(isotp.CanMessage(arbitration_id=0x222, data=f)); l.process()
        feed(frames[0]); feed(frames[1])
        l.params.set('rx_consecutive_frame_timeout', t2)
        clock.tick(5 * 10**6)
        feed(frames[2])                     # in time for both values; restarts the deadline with the new value
        clock.tick((50 if late else 8) * 10**6)
        for f in frames[3:]:
            feed(f)
        got = l.recv()
        names = [type(e).__name__ for e in errors]
        if late and ('ConsecutiveFrameTimeoutError' not in names or got is not None):
            fails.append(('missed-consecutive-frame-timeout', 'timeout set to %d ms during the reception, next frame after 50 ms: errors %s, delivered %s' % (t2, names[:3], got is not None)))
        if not late and (names or got is None or bytes(got) != payload):
            fails.append(('timeout-before-deadline', 'timeout set to %d ms during the reception, next frame after 8 ms: errors %s, delivered %s' % (t2, names[:3], got is not None)))
    finally:
        clock.uninstall()
    return fails, {'scenario': 'retimed', 'late': late}


# ---------------------------------------------------------------- C08
def slow_generator(rng):
    """a generator that takes (virtual) time to produce its values: the separation time is measured between the instants at which
    successive Consecutive Frames are handed to the CAN layer, whatever the time spent producing their bytes"""
    stmin_ms = rng.choice([5, 10])
    n = 60
    clock = VClock().install()
    fails = []
    try:
        stamps = []
        inbox = []
        costs = [rng.choice([0, 0, 3, 4]) * 10**6 for _ in range(n)]

        def g():
            for i in range(n):
                if i % 7 == 0:
                    clock.tick(costs[i])        # producing this frame's bytes takes time
                yield i
        l = isotp.TransportLayerLogic(rxfn=lambda: inbox.pop(0) if inbox else None, txfn=lambda m: stamps.append((clock.ns, bytes(m.data))),
                                      address=isotp.Address(isotp.AddressingMode.Normal_11bits, **PHYS), params={'stmin': 0})
        l.send((g(), n))
        l.process()
        inbox.append(fcmsg(0, stmin_ms))
        for _ in range(3000):
            l.process()
            if not l.transmitting():
                break
            clock.tick(rng.choice([200000, 900000, 1100000]))
        cfs = [t for t, d in stamps if d[0] >> 4 == 2]
        gaps = [b - a for a, b in zip(cfs, cfs[1:])]
        if l.transmitting() or not gaps:
            fails.append(('transfer-not-completed', 'generator transfer did not finish'))
        elif min(gaps) < stmin_ms * 10**6:
            fails.append(('stmin-not-respected', 'consecutive frames handed to the CAN layer %d ns apart, separation time %d ms (generator producing values takes up to 4 ms)' % (min(gaps), stmin_ms)))
    finally:
        clock.uninstall()
    return fails, {'scenario': 'slow_generator', 'stmin_ms': stmin_ms}


def stmin_raised_under_limiter(rng):
    """a block granted with separation time 0 is spread over several passes by the rate limiter; a ContinueToSend in mid-block raises the
    separation time: from the next frame on, successive Consecutive Frames are at least that far apart"""
    clock = VClock().install()
    fails = []
    try:
        stamps, inbox = [], []
        W = 0.0625
        l = isotp.TransportLayerLogic(rxfn=lambda: inbox.pop(0) if inbox else None, txfn=lambda m: stamps.append((clock.ns, bytes(m.data))),
                                      address=isotp.Address(isotp.AddressingMode.Normal_11bits, **PHYS),
                                      params={'rate_limit_enable': True, 'rate_limit_max_bitrate': int(2 * 64 / W), 'rate_limit_window_size': W, 'stmin': 0})
        l.send(bytes(range(80)))
        l.process()
        inbox.append(fcmsg(0, 0))
        x_ms = rng.choice([100, 127])       # longer than the limiter window, so that the limiter alone cannot produce the gap
        raised_at = None
        for step in range(4000):
            l.process()
            if not l.transmitting():
                break
            ncf = sum(1 for t, d in stamps if d[0] >> 4 == 2)
            if raised_at is None and ncf >= rng.choice([2, 3]):
                inbox.append(fcmsg(0, x_ms))
                raised_at = ncf
            clock.tick(rng.choice([1000000, 5100000, 21000000]))
        cfs = [t for t, d in stamps if d[0] >> 4 == 2]
        gaps = [b - a for a, b in zip(cfs, cfs[1:])][max(0, (raised_at or 1) - 1):]
        if l.transmitting() or raised_at is None:
            fails.append(('transfer-not-completed', 'rate-limited transfer did not finish'))
        elif gaps and min(gaps) < x_ms * 10**6:
            fails.append(('stmin-not-respected', 'separation time raised from 0 to %d ms in mid-block under the rate limiter: later frames %d ns apart' % (x_ms, min(gaps))))
    finally:
        clock.uninstall()
    return fails, {'scenario': 'stmin_raised_under_limiter'}


def early_wait_func(rng):
    """started layer with a user wait_func that returns early (an interruptible wait, a sleeper capped at 1 ms): the separation time is
    enforced by the clock, not by trusting the sleep - successive Consecutive Frames still reach the CAN layer at least STmin apart"""
    import queue
    stamps = []
    qin = queue.Queue()

    def rxfn(timeout):
        try:
            return qin.get(timeout=timeout) if timeout else qin.get_nowait()
        except queue.Empty:
            return None

    def txfn(m):
        d = bytes(m.data)
        if d[0] >> 4 == 2:
            stamps.append(_time.perf_counter())
        if d[0] >> 4 == 1:
            qin.put(isotp.CanMessage(arbitration_id=0x222, data=bytes([0x30, 0, 40])))       # everything granted, 40 ms apart
    a = isotp.Address(isotp.AddressingMode.Normal_11bits, txid=0x111, rxid=0x222)
    L = isotp.TransportLayer(rxfn=rxfn, txfn=txfn, address=a, params={'wait_func': lambda d: _time.sleep(min(d, 0.001))}, read_timeout=0.02)
    fails = []
    try:
        L.start()
        L.send(bytes(range(48)))                    # First Frame + 6 Consecutive Frames
        t0 = _time.time()
        while _time.time() - t0 < 3.0 and L.transmitting():
            _time.sleep(0.01)
        gaps = [b - a_ for a_, b in zip(stamps, stamps[1:])]
        if L.transmitting() or len(stamps) != 6:
            fails.append(('transfer-not-completed', 'paced transfer with an early-returning wait_func: %d of 6 Consecutive Frames after 3 s' % len(stamps)))
        elif min(gaps) < 0.039:
            fails.append(('stmin-not-respected', 'wait_func returning after 1 ms: Consecutive Frames %.1f ms apart, separation time 40 ms' % (min(gaps) * 1000)))
    finally:
        L.stop()
    return fails, {'scenario': 'early_wait_func'}


# ---------------------------------------------------------------- C10
def positional_process(rng):
    """process(rx_timeout, do_rx, do_tx) called with positional arguments on the threaded class (not started): same meaning as on the
    logic class - a receive-only pass transmits nothing, a transmit-only pass reads nothing"""
    fails = []
    for cls in (isotp.TransportLayerLogic, isotp.TransportLayer):
        sent, inbox = [], []
        clock = VClock().install()
        try:
            l = mk({'blocksize': 0}, clock, sent, inbox, cls=cls)
            l.send(bytes(range(20)))
            inbox.append(isotp.CanMessage(arbitration_id=0x222, data=bytes([3, 1, 2, 3])))
            l.process(0.0, True, False)             # receive only
            a = (len(sent), len(inbox))
            l.process(0.0, False, True)             # transmit only
            b = (len(sent), len(inbox))
            if a != (0, 0) or b != (1, 0):
                fails.append(('positional-pass-flags-swapped', '%s.process(0.0, True, False) then (0.0, False, True): frames sent / left unread after each: %s, %s; expected (0, 0), (1, 0)' % (cls.__name__, a, b)))
        finally:
            clock.uninstall()
    return fails, {'scenario': 'positional_process'}


# ---------------------------------------------------------------- C12
def set_address_standby(rng):
    """set_address() (even with the same address) while the rate limiter holds the first frame of a request back: the request still
    ends exactly once, successfully only after its frame(s) were really handed to the CAN layer"""
    multi = rng.random() < 0.5
    params = {'rate_limit_enable': True, 'rate_limit_max_bitrate': 64 * 8, 'rate_limit_window_size': 0.125, 'stmin': 0}
    clock = VClock().install()
    fails = []
    try:
        sent, inbox, errors, done = [], [], [], []
        a = isotp.Address(isotp.AddressingMode.Normal_11bits, **PHYS)
        l = isotp.TransportLayerLogic(rxfn=lambda: inbox.pop(0) if inbox else None, txfn=sent.append, address=a, params=params,
                                      error_handler=errors.append,
                                      post_send_callback=lambda req: setattr(req, 'complete', (lambda ok, _o=req.complete, _r=len(done): (done.append(bool(ok)), _o(ok))[1])))
        done_before = len(done)
        l.send(bytes([1, 2, 3, 4, 5, 6, 7]))        # a full 8-byte frame: uses up the window
        l.process()
        second = bytes(range(20)) if multi else bytes([9, 8, 7])
        l.send(second)
        l.process()                                 # first frame of the second request held back
        n_before = len(sent)
        l.set_address(a if rng.random() < 0.5 else isotp.Address(isotp.AddressingMode.Normal_11bits, **PHYS))
        ok_early = None
        for step in range(40):
            l.process()
            if len(done) >= 2 and ok_early is None:
                ok_early = (done[1], len(frames_of(sent)))
            if multi and any(bytes(m.data)[0] >> 4 == 1 for m in sent):
                inbox.append(fcmsg())
            clock.tick(126 * 10**6)
        data_frames = frames_of(sent)
        need = 2 if not multi else 1 + 1 + 2        # SF + (SF | FF + 2 CF)
        if l.transmitting() or len(done) != 2 or not all(done) or len(data_frames) != need:
            fails.append(('request-outcome-wrong-after-set_address', 'set_address() while the limiter holds the %s of a request: completions %s, %d data frames emitted (expected %d), transmitting=%s' % (
                'First Frame' if multi else 'Single Frame', done, len(data_frames), need, l.transmitting())))
        elif ok_early and ok_early[0] and ok_early[1] < need:
            fails.append(('success-before-last-frame', 'request reported successful after %d of %d frames' % (ok_early[1], need)))
    finally:
        clock.uninstall()
    return fails, {'scenario': 'set_address_standby', 'multi': multi}


def stop_sending_while_streaming(rng):
    """stop_sending() from another thread while the worker of a started layer streams Consecutive Frames paced by STmin: the request is
    aborted - the caller blocked in send() gets BlockingSendFailure and the rest of the message is not emitted"""
    import queue
    out_frames = []
    qin = queue.Queue()

    def rxfn(timeout):
        try:
            return qin.get(timeout=timeout) if timeout else qin.get_nowait()
        except queue.Empty:
            return None

    def txfn(m):
        out_frames.append(bytes(m.data))
        if bytes(m.data)[0] >> 4 == 1:
            qin.put(isotp.CanMessage(arbitration_id=0x222, data=bytes([0x30, 0, 50])))       # everything granted, 50 ms apart
    a = isotp.Address(isotp.AddressingMode.Normal_11bits, txid=0x111, rxid=0x222)
    L = isotp.TransportLayer(rxfn=rxfn, txfn=txfn, address=a, params={'blocking_send': True}, read_timeout=0.02)
    fails = []
    res = {}

    def caller():
        try:
            L.send(bytes(range(150)), send_timeout=5.0)
            res['out'] = 'ok'
        except isotp.BlockingSendFailure:
            res['out'] = 'failure'
        except isotp.BlockingSendTimeout:
            res['out'] = 'timeout'
        except Exception as e:
            res['out'] = type(e).__name__
    try:
        L.start()
        t = threading.Thread(target=caller, daemon=True)
        t.start()
        t0 = _time.time()
        while _time.time() - t0 < 2.0 and sum(1 for d in out_frames if d[0] >> 4 == 2) < 3:
            _time.sleep(0.005)
        L.stop_sending()
        t.join(2.0)
        _time.sleep(0.1)
        ncf = sum(1 for d in out_frames if d[0] >> 4 == 2)
        if t.is_alive() or res.get('out') != 'failure' or ncf >= 21:
            fails.append(('abort-ignored', 'stop_sending() during the streaming of Consecutive Frames: send() outcome %s (still blocked: %s), %d of 21 Consecutive Frames emitted' % (res.get('out'), t.is_alive(), ncf)))
    finally:
        L.stop()
    return fails, {'scenario': 'stop_sending_while_streaming'}


# ---------------------------------------------------------------- C13
def send_before_start(rng):
    """payloads handed to send() before start() (or while start() is still bringing the threads up) are transmitted once the layer runs"""
    import queue
    qab, qba = queue.Queue(), queue.Queue()

    def rx(q):
        def f(timeout):
            try:
                return q.get(timeout=timeout) if timeout else q.get_nowait()
            except queue.Empty:
                return None
        return f
    a = isotp.Address(isotp.AddressingMode.Normal_11bits, txid=0x111, rxid=0x222)
    b = isotp.Address(isotp.AddressingMode.Normal_11bits, txid=0x222, rxid=0x111)
    A = isotp.TransportLayer(rxfn=rx(qba), txfn=qab.put, address=a, params={'blocksize': 0}, read_timeout=0.02)
    B = isotp.TransportLayer(rxfn=rx(qab), txfn=qba.put, address=b, params={'blocksize': 0}, read_timeout=0.02)
    payloads = [bytes([1, 2, 3]), bytes(range(30))][:rng.choice([1, 2])]
    fails = []
    try:
        B.start()
        for p in payloads:
            A.send(p)
        A.start()
        got = []
        for _ in payloads:
            d = B.recv(block=True, timeout=2.0)
            got.append(None if d is None else bytes(d))
        if got != payloads:
            fails.append(('not-exactly-once', 'payloads handed to send() before start(): the peer received %s, expected %d payloads' % ([None if g is None else len(g) for g in got], len(payloads))))
    finally:
        A.stop(); B.stop()
    return fails, {'scenario': 'send_before_start', 'n': len(payloads)}


# ---------------------------------------------------------------- C14
def legacy_sleep_timing(rng):
    """a v1.x style rxfn() without parameter together with a long idle sleep timing: stop() still returns within its bound and leaves no
    thread of the layer behind"""
    import queue
    q = queue.Queue()

    def rxfn():
        try:
            return q.get_nowait()
        except queue.Empty:
            return None
    base = set(threading.enumerate())
    a = isotp.Address(isotp.AddressingMode.Normal_11bits, txid=0x111, rxid=0x222)
    L = isotp.TransportLayer(rxfn=rxfn, txfn=lambda m: None, address=a, params={}, read_timeout=0.02)
    L.set_sleep_timing(rng.choice([1.5, 2.5]), 0.001)
    fails = []
    L.start()
    _time.sleep(0.15)
    t0 = _time.time()
    L.stop()
    el = _time.time() - t0
    _time.sleep(0.05)
    alive = [t for t in threading.enumerate() if t not in base and t.is_alive()]
    if alive:
        _time.sleep(0.3)
        alive = [t for t in threading.enumerate() if t not in base and t.is_alive()]
    if el > 2.2 or alive:
        fails.append(('thread-leak' if alive else 'stop-not-bounded', 'legacy rxfn() + set_sleep_timing(idle > 1 s): stop() took %.2f s, %d thread(s) of the layer still alive' % (el, len(alive))))
        if alive:
            _time.sleep(3.0)        # let the straggler go before the next scenario
    return fails, {'scenario': 'legacy_sleep_timing'}


def stop_with_backlog(rng):
    """stop() while the worker is busy (held in a slow txfn) and frames are waiting to be read, on a layer with a read timeout above
    one second: stop() still returns within its bound and no thread of the layer survives it"""
    import queue
    q = queue.Queue()
    base = set(threading.enumerate())
    hold = threading.Event()

    def rxfn(timeout):
        try:
            return q.get(timeout=timeout) if timeout else q.get_nowait()
        except queue.Empty:
            return None

    def txfn(m):
        hold.set()
        _time.sleep(0.3)
    a = isotp.Address(isotp.AddressingMode.Normal_11bits, txid=0x111, rxid=0x222)
    L = isotp.TransportLayer(rxfn=rxfn, txfn=txfn, address=a, params={'blocksize': 0}, read_timeout=1.3)
    fails = []
    L.start()
    _time.sleep(0.05)
    q.put(isotp.CanMessage(arbitration_id=0x222, data=bytes([0x10, 40, 1, 2, 3, 4, 5, 6])))
    hold.wait(2.0)                                  # the worker is inside txfn, emitting the Flow Control
    for sn in (1, 2, 3):
        q.put(isotp.CanMessage(arbitration_id=0x222, data=bytes([0x20 | sn]) + bytes(7)))
    _time.sleep(0.1)                                # the reader thread has handed them on; the worker is still in txfn
    t0 = _time.time()
    L.stop()
    el = _time.time() - t0
    _time.sleep(0.05)
    alive = [t for t in threading.enumerate() if t not in base and t.is_alive()]
    if alive:
        _time.sleep(0.4)
        alive = [t for t in threading.enumerate() if t not in base and t.is_alive()]
    if el > 2.5 or alive:
        fails.append(('thread-leak' if alive else 'stop-not-bounded', 'read_timeout 1.3 s, stop() with frames waiting while the worker is in txfn: stop() took %.2f s, %d thread(s) of the layer still alive' % (el, len(alive))))
        if alive:
            _time.sleep(1.5)
    return fails, {'scenario': 'stop_with_backlog'}


# ---------------------------------------------------------------- C11
def threaded_receiver_times_out(rng):
    """a started layer that only receives: the last Consecutive Frame of a message is lost and nothing else arrives - the reception is
    still abandoned with ConsecutiveFrameTimeoutError once the deadline has passed (the worker does not sleep through it)"""
    import queue
    q = queue.Queue()

    def rxfn(timeout):
        try:
            return q.get(timeout=timeout) if timeout else q.get_nowait()
        except queue.Empty:
            return None
    errors = []
    a = isotp.Address(isotp.AddressingMode.Normal_11bits, txid=0x111, rxid=0x222)
    L = isotp.TransportLayer(rxfn=rxfn, txfn=lambda m: None, address=a, params={'blocksize': 0, 'rx_consecutive_frame_timeout': 100},
                             error_handler=errors.append, read_timeout=rng.choice([0.02, 0.05]))
    fails = []
    try:
        L.start()
        q.put(isotp.CanMessage(arbitration_id=0x222, data=bytes([0x10, 20, 1, 2, 3, 4, 5, 6])))
        q.put(isotp.CanMessage(arbitration_id=0x222, data=bytes([0x21]) + bytes(7)))
        t0 = _time.time()
        while _time.time() - t0 < 1.5 and not errors:
            _time.sleep(0.02)
        names = [type(e).__name__ for e in errors]
        _time.sleep(0.05)
        if names != ['ConsecutiveFrameTimeoutError'] or L.is_rx_active() or L.available():
            fails.append(('lost-frame-not-reported', 'last Consecutive Frame lost, silence for 1.5 s (timeout 100 ms): errors %s, is_rx_active()=%s, available()=%s' % (names[:3], L.is_rx_active(), L.available())))
    finally:
        L.stop()
    return fails, {'scenario': 'threaded_receiver_times_out'}


# ---------------------------------------------------------------- C15
def bystander_layer(rng):
    """a second layer object lives in the same process (its limiter off, or on with its own budget) and is processed in turn: the limited
    sender's bursts still obey ITS budget, and its queue drains"""
    frame_bits = 64
    per_window = rng.choice([2, 3])
    W = 0.125
    params = {'rate_limit_enable': True, 'rate_limit_max_bitrate': int(per_window * frame_bits / W), 'rate_limit_window_size': W, 'stmin': 0}
    other = {} if rng.random() < 0.5 else {'rate_limit_enable': True, 'rate_limit_max_bitrate': int(4 * frame_bits / W), 'rate_limit_window_size': W}
    clock = VClock().install()
    fails = []
    try:
        stamps, s2, inbox, inbox2 = [], [], [], []
        l = isotp.TransportLayerLogic(rxfn=lambda: None, txfn=lambda m: stamps.append(clock.ns), address=isotp.Address(isotp.AddressingMode.Normal_11bits, **PHYS), params=params)
        o = isotp.TransportLayerLogic(rxfn=lambda: None, txfn=s2.append, address=isotp.Address(isotp.AddressingMode.Normal_11bits, txid=0x333, rxid=0x444), params=other)
        nmsg = 12
        for i in range(nmsg):
            l.send(bytes([i, 1, 2, 3, 4, 5, 6]))
        if other:
            for i in range(6):
                o.send(bytes([i, 9, 9]))
        Wn = int(W * 10**9)
        for step in range(4000):
            l.process(); o.process()
            if not l.transmitting():
                break
            clock.tick(rng.choice([700000, 4900000, 5100000, Wn // 3]))
        bound = per_window * frame_bits + frame_bits
        worst = 0
        for i, s in enumerate(stamps):
            bits = sum(frame_bits for t in stamps[i:] if t - s <= Wn - 5 * 10**6)
            worst = max(worst, bits)
        if l.transmitting() or len(stamps) != nmsg:
            fails.append(('transfer-stalled', 'with a second layer object processed alongside, the limited sender emitted %d of %d frames in %d ms' % (len(stamps), nmsg, (clock.ns - 10**9) // 10**6)))
        elif worst > bound:
            fails.append(('burst-exceeds-budget', 'with a second layer object processed alongside: %d bits within one window, budget %d + one frame' % (worst, per_window * frame_bits)))
    finally:
        clock.uninstall()
    return fails, {'scenario': 'bystander_layer', 'other_limited': bool(other)}


# ---------------------------------------------------------------- C04
def txfn_raises(rng):
    """txfn raises on the frame after which the sender waits for a Flow Control (a full transmit buffer); the application catches the
    exception and keeps calling process(): the wait still ends - FlowControlTimeoutError, request failed, next message sent"""
    clock = VClock().install()
    fails = []
    try:
        sent, inbox, errors = [], [], []
        at = rng.choice(['ff', 'block_end'])
        state = {'n': 0, 'raised': False}

        def txfn(m):
            d = bytes(m.data)
            state['n'] += 1
            hit = (at == 'ff' and d[0] >> 4 == 1) or (at == 'block_end' and d[0] >> 4 == 2 and (d[0] & 0xF) == 2)
            if hit and not state['raised']:
                state['raised'] = True
                raise OSError('transmit buffer full')
            sent.append(m)
        l = isotp.TransportLayerLogic(rxfn=lambda: inbox.pop(0) if inbox else None, txfn=txfn, address=isotp.Address(isotp.AddressingMode.Normal_11bits, **PHYS),
                                      params={'rx_flowcontrol_timeout': 50, 'stmin': 0}, error_handler=errors.append)
        l.send(bytes(range(40)))
        l.send(bytes([7, 7, 7]))
        escaped = 0
        for step in range(60):
            try:
                l.process()
            except OSError:
                escaped += 1
            if at == 'block_end' and step == 1:
                inbox.append(fcmsg(2, 0))       # a block of two, then the sender waits again
            clock.tick(10 * 10**6)
        names = [type(e).__name__ for e in errors]
        last_sf = any(bytes(m.data)[:4] == bytes([3, 7, 7, 7]) for m in sent)
        if l.transmitting() or 'FlowControlTimeoutError' not in names or not last_sf or escaped != 1:
            fails.append(('transmitter-wedged', 'txfn raised once on the %s: exceptions escaped %d, errors %s, still transmitting=%s, next message sent=%s' % (
                'First Frame' if at == 'ff' else 'last frame of a block', escaped, names[:3], l.transmitting(), last_sf)))
    finally:
        clock.uninstall()
    return fails, {'scenario': 'txfn_raises', 'at': at}


def overflow_while_streaming(rng):
    """started layer, Consecutive Frames streamed by the worker at STmin 50 ms: a Flow Control Overflow (or Wait with wftmax 0) arriving
    between two of them is read and obeyed at once - OverflowError, the rest of the message is not emitted"""
    import queue
    out_frames, errors = [], []
    qin = queue.Queue()

    def rxfn(timeout):
        try:
            return qin.get(timeout=timeout) if timeout else qin.get_nowait()
        except queue.Empty:
            return None

    def txfn(m):
        out_frames.append(bytes(m.data))
        if bytes(m.data)[0] >> 4 == 1:
            qin.put(isotp.CanMessage(arbitration_id=0x222, data=bytes([0x30, 0, 50])))
    a = isotp.Address(isotp.AddressingMode.Normal_11bits, txid=0x111, rxid=0x222)
    L = isotp.TransportLayer(rxfn=rxfn, txfn=txfn, address=a, params={}, error_handler=errors.append, read_timeout=0.02)
    fails = []
    try:
        L.start()
        L.send(bytes(range(150)))
        t0 = _time.time()
        while _time.time() - t0 < 2.0 and sum(1 for d in out_frames if d[0] >> 4 == 2) < 3:
            _time.sleep(0.002)
        at = sum(1 for d in out_frames if d[0] >> 4 == 2)
        qin.put(isotp.CanMessage(arbitration_id=0x222, data=bytes([0x32, 0, 0])))
        _time.sleep(0.4)
        ncf = sum(1 for d in out_frames if d[0] >> 4 == 2)
        names = [type(e).__name__ for e in errors]
        if 'OverflowError' not in names or ncf > at + 3 or L.transmitting():
            fails.append(('overflow-ignored', 'Flow Control Overflow after Consecutive Frame %d of 21 (STmin 50 ms): %d Consecutive Frames emitted 0.4 s later, errors %s, transmitting()=%s' % (at, ncf, names[:2], L.transmitting())))
    finally:
        L.stop()
    return fails, {'scenario': 'overflow_while_streaming'}


# ---------------------------------------------------------------- C15
def slow_txfn(rng):
    """txfn takes (virtual) time - a slow bus write - so the clock moves inside one process() pass: every frame is booked at the instant
    it is handed over, and the sliding-window bound holds on those instants"""
    W = 0.125
    Wn = int(W * 10**9)
    frame_bits = 64
    per_window = rng.choice([3, 6])
    clock = VClock().install()
    fails = []
    try:
        stamps, inbox = [], []
        costs = [rng.choice([0, 0, 0, 20, 40]) * 10**6 for _ in range(200)]

        def txfn(m):
            if bytes(m.data)[0] >> 4 != 3:
                clock.tick(costs[len(stamps) % len(costs)])
                stamps.append(clock.ns)
        l = isotp.TransportLayerLogic(rxfn=lambda: inbox.pop(0) if inbox else None, txfn=txfn, address=isotp.Address(isotp.AddressingMode.Normal_11bits, **PHYS),
                                      params={'rate_limit_enable': True, 'rate_limit_max_bitrate': int(per_window * frame_bits / W), 'rate_limit_window_size': W, 'stmin': 0})
        l.send(bytes(range(120)))
        l.process()
        inbox.append(fcmsg(0, 0))
        for step in range(3000):
            l.process()
            if not l.transmitting():
                break
            clock.tick(rng.choice([300000, 2 * 10**6, 5100000]))
        bound = per_window * frame_bits + frame_bits
        worst = max((sum(frame_bits for t in stamps[i:] if t - s0 <= Wn - 5 * 10**6) for i, s0 in enumerate(stamps)), default=0)
        if l.transmitting():
            fails.append(('transfer-stalled', 'a 120-byte transfer with a slow txfn did not finish'))
        elif worst > bound:
            fails.append(('burst-exceeds-budget', 'txfn taking up to 40 ms: %d bits handed over within one window, budget %d + one frame' % (worst, per_window * frame_bits)))
    finally:
        clock.uninstall()
    return fails, {'scenario': 'slow_txfn', 'per_window': per_window}


# ---------------------------------------------------------------- C03 / C06
def fc_not_throttled(rng):
    """the rate limiter applies to the data the layer sends, not to the Flow Control it owes: with the window used up by its own
    frames, an incoming segmented message is still answered at once and received without any error"""
    clock = VClock().install()
    fails = []
    try:
        sent, inbox, errors = [], [], []
        l = mk({'rate_limit_enable': True, 'rate_limit_max_bitrate': 64, 'rate_limit_window_size': 2.0, 'blocksize': rng.choice([0, 2]), 'rx_consecutive_frame_timeout': 300},
               clock, sent, inbox, errors)
        l.send(bytes(7)); l.send(bytes(7))
        l.process()
        clock.tick(100 * 10**6)
        n = 30
        payload = bytes(rng.getrandbits(8) for _ in range(n))
        frames = [bytes([0x10, n]) + payload[:6]]
        rest, sn = payload[6:], 1
        while rest:
            frames.append(bytes([0x20 | sn]) + rest[:7]); rest, sn = rest[7:], (sn + 1) & 0xF
        got = None
        for f in frames:
            inbox.append(isotp.CanMessage(arbitration_id=0x222, data=f))
            l.process()
            clock.tick(100 * 10**6)
        l.process()
        got = l.recv()
        fcs = [bytes(m.data) for m in sent if bytes(m.data)[0] >> 4 == 3]
        if got is None or bytes(got) != payload or errors or not fcs:
            fails.append(('reception-disturbed-by-rate-limiter', 'window used up by own frames, then a %d-byte message arrives: delivered=%s, Flow Controls sent %d, errors %s' % (
                n, got is not None, len(fcs), [type(e).__name__ for e in errors[:3]])))
    finally:
        clock.uninstall()
    return fails, {'scenario': 'fc_not_throttled'}


def very_long_reception(rng):
    """one reception of more than 65536 Consecutive Frames with a block size that is not a power of two: a Flow Control after the First
    Frame and after every blocksize-th Consecutive Frame, none elsewhere, the payload delivered whole"""
    bs = rng.choice([3, 5, 7])
    ncf = 65536 + rng.choice([40, 300])
    n = 6 + 7 * ncf
    clock = VClock().install()
    fails = []
    try:
        sent, inbox, errors = [], [], []
        l = mk({'blocksize': bs, 'max_frame_size': n, 'stmin': 0}, clock, sent, inbox, errors)
        inbox.append(isotp.CanMessage(arbitration_id=0x222, data=bytes([0x10, 0]) + n.to_bytes(4, 'big') + bytes([0xA0, 0xA1])))
        # the First Frame of the escape form carries 2 payload bytes on an 8-byte frame
        n_total = 2 + 7 * ncf
        inbox[0] = isotp.CanMessage(arbitration_id=0x222, data=bytes([0x10, 0]) + n_total.to_bytes(4, 'big') + bytes([0xA0, 0xA1]))
        l.params.set('max_frame_size', n_total)
        l.process()
        bad = None
        for k in range(1, ncf + 1):
            before = len(sent)
            inbox.append(isotp.CanMessage(arbitration_id=0x222, data=bytes([0x20 | (k & 0xF)]) + bytes([k & 0xFF] * 7)))
            l.process()
            want = 1 if (k % bs == 0 and k != ncf) else 0
            if len(sent) - before != want and bad is None:
                bad = (k, len(sent) - before, want)
                break
        got = l.recv() if bad is None else None
        if bad is not None or errors or got is None or len(got) != n_total:
            fails.append(('flow-control-differs', 'reception of %d Consecutive Frames, blocksize %d: %s; errors %s; delivered %s bytes of %d' % (
                ncf, bs, 'after Consecutive Frame %d the layer emitted %d frames, expected %d' % bad if bad else 'flow control as expected',
                [type(e).__name__ for e in errors[:2]], None if got is None else len(got), n_total)))
    finally:
        clock.uninstall()
    return fails, {'scenario': 'very_long_reception', 'bs': bs, 'ncf': ncf}


def raising_handler_interrupt(rng):
    """an error handler that raises (the application catches the exception around process() and carries on): a reception interrupted by
    a Single Frame or a First Frame is abandoned all the same - the Consecutive Frames of the old message that still arrive are not
    assembled into a delivery"""
    clock = VClock().install()
    fails = []
    try:
        sent, inbox = [], []

        def handler(e):
            raise RuntimeError('handler does not like ' + type(e).__name__)
        l = isotp.TransportLayerLogic(rxfn=lambda: inbox.pop(0) if inbox else None, txfn=sent.append, address=isotp.Address(isotp.AddressingMode.Normal_11bits, **PHYS),
                                      params={'blocksize': 0}, error_handler=handler)
        n = 27
        payload = bytes(range(n))
        frames = [bytes([0x10, n]) + payload[:6]]
        rest, sn = payload[6:], 1
        while rest:
            frames.append(bytes([0x20 | sn]) + rest[:7]); rest, sn = rest[7:], (sn + 1) & 0xF
        cut = rng.randint(1, len(frames) - 1)
        intr = bytes([3, 0xA1, 0xA2, 0xA3]) if rng.random() < 0.5 else bytes([0x10, 9, 1, 2, 3, 4, 5, 6])
        delivered = []
        for f in frames[:cut] + [intr] + frames[cut:]:
            inbox.append(isotp.CanMessage(arbitration_id=0x222, data=f))
            for _ in range(2):
                try:
                    l.process()
                except RuntimeError:
                    pass
            while l.available():
                delivered.append(bytes(l.recv()))
        if payload in delivered:
            fails.append(('aborted-message-delivered', 'reception interrupted by %s after frame %d, error handler raising: the interrupted %d-byte message was delivered all the same' % (
                'a Single Frame' if intr[0] >> 4 == 0 else 'a First Frame', cut, n)))
    finally:
        clock.uninstall()
    return fails, {'scenario': 'raising_handler_interrupt'}


# ---------------------------------------------------------------- C03 (threaded)
def idle_stop_receiving_threaded(rng):
    """stop_receiving() on a started layer that is receiving nothing is a no-op: the next segmented message, sent slowly (gaps longer than
    the read timeout), is delivered"""
    import queue
    qab, qba = queue.Queue(), queue.Queue()

    def rx(q):
        def f(timeout):
            try:
                return q.get(timeout=timeout) if timeout else q.get_nowait()
            except queue.Empty:
                return None
        return f
    b = isotp.Address(isotp.AddressingMode.Normal_11bits, txid=0x222, rxid=0x111)
    B = isotp.TransportLayer(rxfn=rx(qab), txfn=qba.put, address=b, params={'blocksize': 0}, read_timeout=0.02)
    fails = []
    errors = []
    try:
        B.start()
        B.stop_receiving()
        _time.sleep(0.05)
        n = 20
        payload = bytes(range(n))
        frames = [bytes([0x10, n]) + payload[:6], bytes([0x21]) + payload[6:13], bytes([0x22]) + payload[13:20]]
        for f in frames:
            qab.put(isotp.CanMessage(arbitration_id=0x111, data=f))
            _time.sleep(0.08)
        got = B.recv(block=True, timeout=2.0)
        if got is None or bytes(got) != payload:
            fails.append(('delivery-differs', 'stop_receiving() while idle on a started layer, then a slow 20-byte message: delivered %s' % (None if got is None else bytes(got).hex())))
    finally:
        B.stop()
    return fails, {'scenario': 'idle_stop_receiving_threaded'}


# ---------------------------------------------------------------- C07
def legacy_rx_deadline(rng):
    """a v1.x style rxfn() without parameter in which time passes all the same (it wraps a blocking read): the N_Cr deadline is judged
    after every frame read, also for the second and later frames of one process() pass"""
    clock = VClock().install()
    fails = []
    try:
        sent, errors = [], []
        n = 30
        payload = bytes(range(n))
        frames = [bytes([0x10, n]) + payload[:6]]
        rest, sn = payload[6:], 1
        while rest:
            frames.append(bytes([0x20 | sn]) + rest[:7]); rest, sn = rest[7:], (sn + 1) & 0xF
        late = rng.random() < 0.5
        script = [(0, frames[0]), (0, frames[1]), ((150 if late else 50) * 10**6, frames[2])] + [(0, f) for f in frames[3:]]

        def rxfn():
            if not script:
                return None
            wait, f = script.pop(0)
            clock.tick(wait)            # the read blocked for that long
            return isotp.CanMessage(arbitration_id=0x222, data=f)
        l = isotp.TransportLayerLogic(rxfn=rxfn, txfn=sent.append, address=isotp.Address(isotp.AddressingMode.Normal_11bits, **PHYS),
                                      params={'blocksize': 0, 'rx_consecutive_frame_timeout': 100}, error_handler=errors.append)
        for _ in range(6):
            l.process()
        got = l.recv()
        names = [type(e).__name__ for e in errors]
        if late and ('ConsecutiveFrameTimeoutError' not in names or got is not None):
            fails.append(('missed-consecutive-frame-timeout', 'legacy rxfn(), third frame read 150 ms after the second within one pass (timeout 100 ms): errors %s, delivered %s' % (names[:3], got is not None)))
        if not late and (names or got is None or bytes(got) != payload):
            fails.append(('timeout-before-deadline', 'legacy rxfn(), gap 50 ms (timeout 100 ms): errors %s, delivered %s' % (names[:3], got is not None)))
    finally:
        clock.uninstall()
    return fails, {'scenario': 'legacy_rx_deadline', 'late': late}


# ---------------------------------------------------------------- C11
def dup_fc_during_standby(rng):
    """a duplicated ContinueToSend of the message just finished arrives while the First Frame of the next message is held back by the rate
    limiter: it is reported as unexpected and changes nothing - the next message goes out whole once its own Flow Control arrives"""
    clock = VClock().install()
    fails = []
    try:
        sent, inbox, errors = [], [], []
        l = mk({'rate_limit_enable': True, 'rate_limit_max_bitrate': int(3 * 64 / 0.125), 'rate_limit_window_size': 0.125, 'stmin': 0, 'rx_flowcontrol_timeout': 2000},
               clock, sent, inbox, errors)
        a_msg, b_msg = bytes(range(20)), bytes(range(100, 120))
        l.send(a_msg); l.send(b_msg)
        l.process()                              # First Frame of A
        inbox.append(fcmsg(0, 0))
        l.process()                              # its two Consecutive Frames: window used up, First Frame of B parked
        inbox.append(fcmsg(0, 0))                # the duplicate
        l.process()
        granted_b = False
        for step in range(60):
            clock.tick(30 * 10**6)
            l.process()
            ffs = [m for m in sent if bytes(m.data)[0] >> 4 == 1]
            if len(ffs) == 2 and not granted_b:
                inbox.append(fcmsg(0, 0)); granted_b = True
        ref = reference_frames({'stmin': 0}, a_msg) + reference_frames({'stmin': 0}, b_msg)
        got = frames_of(sent)
        names = [type(e).__name__ for e in errors]
        if got != ref or l.transmitting() or names != ['UnexpectedFlowControlError']:
            fails.append(('more-than-one-message-lost', 'duplicated ContinueToSend while the next First Frame is held by the rate limiter: %d of %d data frames emitted, errors %s, transmitting()=%s' % (
                len(got), len(ref), names[:3], l.transmitting())))
    finally:
        clock.uninstall()
    return fails, {'scenario': 'dup_fc_during_standby'}


# ---------------------------------------------------------------- C13 (functional)
def functional_to_threaded(rng):
    """a started layer with NormalFixed / Mixed 29-bit addressing receives a functionally addressed Single Frame (its functional
    identifier differs from the physical one): delivered like any other payload"""
    import queue
    q = queue.Queue()

    def rxfn(timeout):
        try:
            return q.get(timeout=timeout) if timeout else q.get_nowait()
        except queue.Empty:
            return None
    M = isotp.AddressingMode
    mixed = rng.random() < 0.5
    if mixed:
        a = isotp.Address(M.Mixed_29bits, target_address=0x10, source_address=0x20, address_extension=0x99)
        fid, data = 0x18CD2010, bytes([0x99, 3, 1, 2, 3])
    else:
        a = isotp.Address(M.NormalFixed_29bits, target_address=0x10, source_address=0x20)
        fid, data = 0x18DB2010, bytes([3, 1, 2, 3])
    L = isotp.TransportLayer(rxfn=rxfn, txfn=lambda m: None, address=a, params={}, read_timeout=0.02)
    fails = []
    try:
        L.start()
        msg = isotp.CanMessage(arbitration_id=fid, data=data, extended_id=True)
        if not a.is_for_me(msg):
            return [], {'scenario': 'functional_to_threaded', 'skipped': True}
        q.put(msg)
        got = L.recv(block=True, timeout=2.0)
        if got is None or bytes(got) != bytes([1, 2, 3]):
            fails.append(('not-exactly-once', 'functionally addressed Single Frame (id %x) put on the bus of a started %s layer: delivered %r' % (fid, 'Mixed_29bits' if mixed else 'NormalFixed_29bits', got)))
    finally:
        L.stop()
    return fails, {'scenario': 'functional_to_threaded', 'mixed': mixed}


# ---------------------------------------------------------------- C14 (crash)
def start_after_worker_crash(rng):
    """the worker thread dies on its own (txfn raised): the layer still counts as started - start() is refused with RuntimeError, and
    stop() leaves no thread of the layer behind"""
    import queue
    q = queue.Queue()
    base = set(threading.enumerate())

    def rxfn(timeout):
        try:
            return q.get(timeout=timeout) if timeout else q.get_nowait()
        except queue.Empty:
            return None
    state = {'raised': False}

    def txfn(m):
        if not state['raised']:
            state['raised'] = True
            raise OSError('bus off')
    a = isotp.Address(isotp.AddressingMode.Normal_11bits, txid=0x111, rxid=0x222)
    L = isotp.TransportLayer(rxfn=rxfn, txfn=txfn, address=a, params={}, read_timeout=0.05)
    fails = []
    import logging as _logging
    _logging.getLogger('isotp').setLevel(_logging.CRITICAL + 1)
    hook = threading.excepthook
    threading.excepthook = lambda args: None        # the crash of the worker is the scenario, not something to print
    L.start()
    L.send(bytes([1, 2, 3]))
    _time.sleep(0.3)                                # the worker has crashed by now
    threading.excepthook = hook
    try:
        L.start()
        second = 'ok'
    except RuntimeError:
        second = 'runtimeerror'
    except Exception as e:
        second = type(e).__name__
    _time.sleep(0.03)
    L.stop()
    _time.sleep(0.1)
    alive = [t for t in threading.enumerate() if t not in base and t.is_alive()]
    if alive:
        _time.sleep(0.4)
        alive = [t for t in threading.enumerate() if t not in base and t.is_alive()]
    if second != 'runtimeerror' or alive:
        fails.append(('thread-leak' if alive else 'wrong-exception', 'start() on a started layer whose worker died: %s; after stop() %d thread(s) of the layer still alive' % (second, len(alive))))
        if alive:
            _time.sleep(1.0)
    return fails, {'scenario': 'start_after_worker_crash'}


# ---------------------------------------------------------------- C18
def listen_switch(rng):
    """listen_mode switched on with params.set() after a First Frame (or the end of a block) was read by a receive-only pass: from that
    moment the layer emits nothing - the Flow Control still pending is not sent"""
    clock = VClock().install()
    fails = []
    try:
        sent, inbox, errors = [], [], []
        big = rng.random() < 0.3
        l = mk({'blocksize': 2, 'max_frame_size': 30 if big else 4095}, clock, sent, inbox, errors)
        n = 40
        inbox.append(isotp.CanMessage(arbitration_id=0x222, data=bytes([0x10, n, 1, 2, 3, 4, 5, 6])))
        l.process(do_tx=False)
        l.params.set('listen_mode', True)
        for _ in range(3):
            l.process()
        if sent:
            fails.append(('listener-transmitted', 'listen_mode switched on while a Flow Control (%s) was pending: the layer emitted %s' % ('Overflow' if big else 'ContinueToSend', bytes(sent[0].data).hex())))
    finally:
        clock.uninstall()
    return fails, {'scenario': 'listen_switch'}


# ---------------------------------------------------------------- C19 / C20
def failed_kernel_bind(rng):
    """the kernel refuses bind() (OSError, e.g. an unknown interface): the wrapper is not bound - the option setters still write their
    bytes, a later bind() with a good interface works and only then are the setters refused"""
    import fake_kernel
    undo = fake_kernel.install()
    fails = []
    try:
        mode = rng.choice(['Normal_11bits', 'Extended_11bits', 'Mixed_29bits'])
        M = isotp.AddressingMode
        if mode == 'Normal_11bits':
            addr = isotp.Address(M.Normal_11bits, txid=0x111, rxid=0x222)
        elif mode == 'Extended_11bits':
            addr = isotp.Address(M.Extended_11bits, txid=0x111, rxid=0x222, target_address=0x10, source_address=0x20)
        else:
            addr = isotp.Address(M.Mixed_29bits, target_address=0x10, source_address=0x20, address_extension=0x99)
        sock = isotp.socket()
        fk = fake_kernel.CREATED[-1]       # the kernel socket the wrapper has just created
        orig_bind = fk.bind
        state = {'fail': True}

        def bind(a):
            if state['fail']:
                fk.log.append(('bind-refused', a))
                raise OSError(19, 'No such device')
            return orig_bind(a)
        fk.bind = bind
        try:
            sock.bind('nosuchcan', addr)
            first = 'ok'
        except OSError:
            first = 'oserror'
        except Exception as e:
            first = type(e).__name__
        n0 = len(fk.log)
        try:
            sock.set_opts(txpad=0x33)
            sock.set_fc_opts(bs=4)
            setters = 'ok'
        except Exception as e:
            setters = type(e).__name__
        wrote = sum(1 for c in fk.log[n0:] if c[0] == 'setsockopt')
        state['fail'] = False
        try:
            sock.bind('vcan0', addr)
            second = 'ok'
        except Exception as e:
            second = type(e).__name__
        try:
            sock.set_opts(txpad=0x44)
            after = 'ok'
        except RuntimeError:
            after = 'runtimeerror'
        except Exception as e:
            after = type(e).__name__
        if (first, setters, second, after) != ('oserror', 'ok', 'ok', 'runtimeerror') or wrote < 2 or not sock.bound:
            fails.append(('wrapper-state-after-refused-bind', '%s address, kernel bind() refused once: bind -> %s, setters -> %s (%d setsockopt), second bind -> %s, setter after it -> %s, bound=%s; '
                          'expected oserror / ok (>= 2) / ok / runtimeerror / True' % (mode, first, setters, wrote, second, after, sock.bound)))
    finally:
        undo()
    return fails, {'scenario': 'failed_kernel_bind'}


SCENARIOS = {
    'C01': [reload_midstream], 'C04': [reload_midstream, txfn_raises, overflow_while_streaming], 'C02': [tuple_iterable, huge_bytes_payload], 'C17': [tuple_iterable, no_buffering], 'C03': [blocked_recv, fc_not_throttled, idle_stop_receiving_threaded, very_long_reception], 'C06': [fc_not_throttled, raising_handler_interrupt],
    'C05': [clear_midreception], 'C07': [retimed, legacy_rx_deadline], 'C08': [slow_generator, stmin_raised_under_limiter, early_wait_func], 'C10': [positional_process, very_long_reception], 'C12': [set_address_standby, stop_sending_while_streaming],
    'C13': [send_before_start, functional_to_threaded], 'C14': [legacy_sleep_timing, stop_with_backlog, start_after_worker_crash], 'C11': [threaded_receiver_times_out, dup_fc_during_standby], 'C18': [listen_switch], 'C15': [bystander_layer, slow_txfn], 'C19': [failed_kernel_bind], 'C20': [failed_kernel_bind],
}
REPS = {'early_wait_func': 2, 'huge_bytes_payload': 2, 'no_buffering': 1, 'functional_to_threaded': 4, 'start_after_worker_crash': 1, 'overflow_while_streaming': 2, 'stop_sending_while_streaming': 2, 'very_long_reception': 1, 'stop_with_backlog': 1, 'threaded_receiver_times_out': 2, 'idle_stop_receiving_threaded': 2, 'failed_kernel_bind': 6, 'blocked_recv': 4, 'send_before_start': 3, 'legacy_sleep_timing': 1, 'positional_process': 1}
TEXT = {f.__name__: ' '.join(f.__doc__.split()) for fs in SCENARIOS.values() for f in fs}


def rule_text(pid):
    return ' (api) ' + ' / '.join('%s: %s' % (f.__name__, TEXT[f.__name__]) for f in SCENARIOS.get(pid, []))


def run_api(pid, shard, nshards, seed, tier):
    part = Part()
    rng = random.Random('%s/api/%s/%s' % (seed, pid, shard))
    for f in SCENARIOS.get(pid, []):
        reps = REPS.get(f.__name__, 12) * (1 if tier != 'thorough' else 10)
        for k in range(reps):
            if k % nshards != shard:
                continue
            part.d['evaluations'] += 1
            try:
                fails, info = f(rng)
            except Exception as e:      # an exception escaping a public call in a legal usage pattern
                fails, info = [('exception-escaped', '%s in scenario %s: %s' % (type(e).__name__, f.__name__, e))], {'scenario': f.__name__}
            part.distinct(dict(info, k=k))
            part.hist('api', f.__name__)
            if fails:
                part.violation('oracle', 'api', '%s:%s' % (pid, fails[0][0]), fails[0][1], info)
            part.sample(info)
    return part.result()
