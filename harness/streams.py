"""Harness-side construction of well-formed ISO-TP streams (used to *drive* layers in the
fuzz campaigns; the reference encoder used as an oracle is the extracted Coq Spec)."""

FD_SIZES = [8, 12, 16, 20, 24, 32, 48, 64]


def next_fd(n):
    if n <= 8:
        return n
    for s in FD_SIZES:
        if n <= s:
            return s
    raise ValueError(n)


def encode_stream(payload, tx_dl=8, prefix=b'', last='min', pad=0xCC, force_escape_ff=False):
    """List of frame data (bytes). last in {'min','pad8','padfd','full'} controls last-frame padding."""
    payload = bytes(payload)
    n = len(payload)
    pl = len(prefix)

    def target(n_):
        if last == 'min':
            return next_fd(n_)
        if last == 'pad8':
            return max(8, next_fd(n_))
        if last == 'padfd':
            return next_fd(n_)
        return tx_dl

    def finish(d):
        return d + bytes([pad]) * (target(len(d)) - len(d))

    # Single Frame: length in the first byte only if the whole CAN frame is at most 8 bytes (CAN_DL <= 8)
    if n + pl <= 7 and target(pl + 1 + n) <= 8:
        return [finish(prefix + bytes([n]) + payload)]
    if tx_dl > 8 and n <= tx_dl - 2 - pl:
        return [finish(prefix + bytes([0, n]) + payload)]
    frames = []
    if n <= 4095 and not force_escape_ff:
        k = tx_dl - 2 - pl
        frames.append(prefix + bytes([0x10 | (n >> 8), n & 0xFF]) + payload[:k])
    else:
        k = tx_dl - 6 - pl
        frames.append(prefix + bytes([0x10, 0]) + n.to_bytes(4, 'big') + payload[:k])
    pos = k
    sn = 1
    c = tx_dl - 1 - pl
    while pos < n:
        chunk = payload[pos:pos + c]
        pos += len(chunk)
        d = prefix + bytes([0x20 | sn]) + chunk
        frames.append(finish(d) if pos >= n else d)
        sn = (sn + 1) & 0xF
    return frames
