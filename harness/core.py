"""Core of the correspondence harness: cases, the two runners, comparison.

A *case* is a JSON-serialisable dict:
  {"insts": [{"params": {...isotp params...}, "txa": {...}, "rxa": {...}|None, "t0": ns}, ...],
   "ops":   [[k, "send", tat, hex] | [k, "sendgen", tat, size, hex, fill] | [k, "rx", id, ext, hex]
             | [k, "proc", do_rx, do_tx] | [k, "tick", ns] | [k, "recv"] | [k, "stop_sending"]
             | [k, "stop_receiving"] | [k, "reset"], ...]}
It is executed (a) on the implementation in /repo with a virtual clock and
list-backed callbacks, (b) on the OCaml program extracted from the Coq model.
Both print one canonical text line per op; the lines are compared.
"""
import os
import sys
import json
import logging
import subprocess
from fractions import Fraction

HERE = os.path.dirname(os.path.abspath(__file__))
VERIF = os.path.dirname(HERE)
DRIVER = os.path.join(VERIF, 'ocaml', 'model_driver')

logging.getLogger('isotp').setLevel(logging.CRITICAL + 1)
logging.getLogger('isotp').addHandler(logging.NullHandler())
logging.getLogger('isotp').propagate = False

import vclock  # noqa: F401,E402  (clock trampolines go in before the library binds anything)
import isotp  # noqa: E402  (PYTHONPATH=/repo)
from vclock import VClock  # noqa: E402

MODES = ['Normal_11bits', 'Normal_29bits', 'NormalFixed_29bits', 'Extended_11bits', 'Extended_29bits',
         'Mixed_11bits', 'Mixed_29bits']
ADDR_KEYS = ['txid', 'rxid', 'target_address', 'source_address', 'address_extension', 'physical_id',
             'functional_id']


# ---------------------------------------------------------------- conversions
def ms_to_ns(ms):
    """The value tools.Timer holds for Timer(timeout=float(ms)/1000): int(timeout*1e9).
    Compared exhaustively with the Coq definition FloatTables.to_ns (coqtables.py)."""
    return int(float(ms) / 1000 * 1e9)


def sec_to_ns(sec):
    return int(float(sec) * 1e9)


def limiter_model_params(bitrate, window):
    """Exact rational budget (the float product, as the implementation computes it) and the
    window as the largest integer ns count not exceeding it."""
    b = Fraction(float(bitrate) * float(window))
    wns = Fraction(float(window)) * 10**9
    return b.numerator, b.denominator, wns.numerator // wns.denominator


def limiter_exact(bitrate, window, max_bits=10**7):
    """True when every float operation of the limiter is exact for integer bit totals up to
    max_bits (the model uses exact rationals; see DESIGN section 3)."""
    fb, fw = float(bitrate), float(window)
    prod = fb * fw
    if Fraction(prod) != Fraction(fb) * Fraction(fw):
        return False
    # B - total must be exact: B a dyadic with denominator d; B*d and total*d < 2^53
    B = Fraction(prod)
    return B.denominator * max(B.numerator // B.denominator + 1, max_bits) < 2**52


def model_param_lines(params):
    """isotp params dict -> 'P k v' lines for the model driver (defaults as in Params.__init__)."""
    d = dict(stmin=0, blocksize=8, override_receiver_stmin=None, rx_flowcontrol_timeout=1000,
             rx_consecutive_frame_timeout=1000, tx_padding=None, wftmax=0, tx_data_length=8,
             tx_data_min_length=None, max_frame_size=4095, can_fd=False, bitrate_switch=False,
             default_target_address_type=0, rate_limit_max_bitrate=100000000, rate_limit_window_size=0.2,
             rate_limit_enable=False, listen_mode=False)
    d.update(params)
    bn, bd, wns = limiter_model_params(d['rate_limit_max_bitrate'], d['rate_limit_window_size'])
    ov = d['override_receiver_stmin']
    vals = [
        ('stmin', d['stmin']), ('blocksize', d['blocksize']),
        ('override_ns', 'none' if ov is None else sec_to_ns(ov)),
        ('tbs_ns', ms_to_ns(d['rx_flowcontrol_timeout'])), ('tcr_ns', ms_to_ns(d['rx_consecutive_frame_timeout'])),
        ('padding', 'none' if d['tx_padding'] is None else d['tx_padding']), ('wftmax', d['wftmax']),
        ('tx_dl', d['tx_data_length']), ('min_len', 'none' if d['tx_data_min_length'] is None else d['tx_data_min_length']),
        ('max_frame_size', d['max_frame_size']), ('can_fd', int(d['can_fd'])), ('brs', int(d['bitrate_switch'])),
        ('default_tat', 'F' if int(getattr(d['default_target_address_type'], 'value', d['default_target_address_type'])) == 1 else 'P'),
        ('lim_enable', int(d['rate_limit_enable'])), ('lim_bn', bn), ('lim_bd', bd), ('lim_window_ns', wns),
        ('listen', int(d['listen_mode'])),
    ]
    return ['P %s %s' % kv for kv in vals]


def addr_fields(a):
    """address dict -> the 10 driver fields"""
    f = lambda v: '-' if v is None else str(v)
    return ' '.join([a['mode']] + [f(a.get(k)) for k in ADDR_KEYS] + [str(int(bool(a.get('rx_only')))), str(int(bool(a.get('tx_only'))))])


def make_address(a):
    kw = {k: a[k] for k in ADDR_KEYS if a.get(k) is not None}
    if a.get('rx_only'):
        kw['rx_only'] = True
    if a.get('tx_only'):
        kw['tx_only'] = True
    return isotp.Address(isotp.AddressingMode[a['mode']], **kw)


def make_layer_address(inst):
    if inst.get('rxa') is None:
        return make_address(inst['txa'])
    return isotp.AsymmetricAddress(tx_addr=make_address(dict(inst['txa'], tx_only=True)),
                                   rx_addr=make_address(dict(inst['rxa'], rx_only=True)))


def hx(b):
    b = bytes(b)
    return b.hex() if b else '-'


def unhx(s):
    return b'' if s == '-' else bytes.fromhex(s)


# ---------------------------------------------------------------- model runner
def case_to_model_text(case):
    lines = ['BEGIN']
    for k, inst in enumerate(case['insts']):
        lines.append('NEWCFG')
        lines += model_param_lines(inst['params'])
        if inst.get('rxa') is None:
            lines.append('TXA ' + addr_fields(inst['txa']))
        else:
            lines.append('TXA ' + addr_fields(dict(inst['txa'], tx_only=True)))
            lines.append('RXA ' + addr_fields(dict(inst['rxa'], rx_only=True)))
        lines.append('INIT %d %d' % (k, inst.get('t0', 10**9)))
    for op in case['ops']:
        lines.append('OP ' + ' '.join(str(int(x)) if isinstance(x, bool) else ('-' if x is None else str(x)) for x in op))
    return lines


class ModelProc:
    """Persistent model driver process; run_case returns one output line per op."""

    def __init__(self):
        self.p = subprocess.Popen([DRIVER], stdin=subprocess.PIPE, stdout=subprocess.PIPE, text=True, bufsize=1 << 20)

    def run_case(self, case):
        lines = case_to_model_text(case)
        out = []
        CH = 150
        for i in range(0, len(lines), CH):
            chunk = lines[i:i + CH]
            self.p.stdin.write('\n'.join(chunk) + '\n')
            self.p.stdin.flush()
            for _ in range(sum(1 for l in chunk if l.startswith('OP '))):
                l = self.p.stdout.readline()
                if not l:
                    raise RuntimeError('model driver died; case=%s' % json.dumps(case)[:2000])
                out.append(l.rstrip('\n'))
        assert len(out) == len(case['ops']), (len(out), len(case['ops']))
        return out

    def query(self, q):
        self.p.stdin.write('Q ' + q + '\n')
        self.p.stdin.flush()
        return self.p.stdout.readline().rstrip('\n')

    def queries(self, qs):
        self.p.stdin.write(''.join('Q ' + q + '\n' for q in qs))
        self.p.stdin.flush()
        return [self.p.stdout.readline().rstrip('\n') for _ in qs]

    def close(self):
        try:
            self.p.stdin.close()
            self.p.wait(timeout=5)
        except Exception:
            self.p.kill()


# ---------------------------------------------------------------- implementation runner
class ImplInst:
    def __init__(self, inst, layer_cls=None):
        self.clock = VClock(inst.get('t0', 10**9))
        self.clock.install()
        self.inbox = []
        self.events = []
        self.nreq = 0
        self.pulls = []     # instrumented generators: number of values pulled, per sendgen
        cls = layer_cls or isotp.TransportLayerLogic
        # every kind of callable is a legal error handler: bound method, functools.partial, object with __call__ (chosen by the
        # configuration, so that a replay makes the same choice)
        # one instance in four runs with its logger at DEBUG (records go to a NullHandler): the trace lines are built then, and building
        # them must never let an exception escape either
        logging.getLogger('isotp').setLevel(logging.DEBUG if len(json.dumps(inst, sort_keys=True, default=str)) % 4 == 0 else logging.CRITICAL + 1)
        kind = len(json.dumps(inst['params'], sort_keys=True, default=str)) % 3
        if kind == 1:
            import functools
            handler = functools.partial(ImplInst._err, self)
        elif kind == 2:
            owner = self

            class _Handler:
                def __call__(self, e):
                    owner._err(e)
            handler = _Handler()
        else:
            handler = self._err
        self.layer = cls(rxfn=self._rxfn, txfn=self._txfn, address=make_layer_address(inst),
                         error_handler=handler, params=dict(inst['params']), post_send_callback=self._post_send)

    def _rxfn(self):
        return self.inbox.pop(0) if self.inbox else None

    def _txfn(self, m):
        self.events.append('tx:%x:%d:%d:%d:%d:%s' % (m.arbitration_id, int(m.is_extended_id), int(m.is_fd),
                                                       int(m.bitrate_switch), m.dlc, hx(m.data)))

    def _err(self, e):
        self.events.append('err:' + type(e).__name__)

    def _post_send(self, req):
        rid = self.nreq
        self.nreq += 1
        orig = req.complete

        def complete(success, _rid=rid, _orig=orig):
            self.events.append('done:%d:%d' % (_rid, int(bool(success))))
            _orig(success)
        req.complete = complete

    def status(self):
        l = self.layer
        txs = 'C' if l.is_tx_transmitting_cf() else ('T' if l.is_tx_throttled() else '-')
        d = l.next_cf_delay()
        ncd = 'none' if d is None else str(int(round(float(d) * 1e9)))
        return 'rx=%d tx=%s trans=%d avail=%d ncd=%s' % (int(l.is_rx_active()), txs, int(l.transmitting()), int(l.available()), ncd)

    def run_op(self, op):
        self.clock.install()
        self.events = []
        extra = []
        name = op[1]
        l = self.layer
        try:
            if name == 'send':
                tat = {None: None, '-': None, 'P': 0, 'F': 1}[op[2]]
                data = unhx(op[3])
                # the documented argument types take turns (chosen by the content, so that a replay makes the same choice): bytes or
                # bytearray payload, target address type as int or as enum member
                k = (len(data) * 7 + (data[0] if data else 0)) % 4
                if k == 1:
                    data = bytearray(data)
                if tat is not None and k == 2:
                    tat = isotp.TargetAddressType(tat)
                try:
                    l.send(data, tat)
                    extra.append('send:ok')
                except ValueError:
                    extra.append('send:valueerror')
            elif name == 'sendgen':
                tat = {None: None, '-': None, 'P': 0, 'F': 1}[op[2]]
                items = list(unhx(op[4]))
                fill = None if op[5] in (None, '-') else int(op[5])
                counter = [0]
                self.pulls.append(counter)

                def g(items=items, fill=fill, counter=counter):
                    for x in items:
                        counter[0] += 1
                        yield x
                    while fill is not None:
                        counter[0] += 1
                        yield fill
                try:
                    l.send((g(), int(op[3])), tat)
                    extra.append('send:ok')
                except ValueError:
                    extra.append('send:valueerror')
            elif name == 'rx':
                fdata = unhx(op[4])
                if len(fdata) % 3 == 1:
                    fdata = bytearray(fdata)        # python-can hands over bytearray, the queue-based examples bytes
                self.inbox.append(isotp.CanMessage(arbitration_id=int(op[2]), data=fdata, extended_id=bool(int(op[3]))))
            elif name == 'proc':
                st = l.process(do_rx=bool(int(op[2])), do_tx=bool(int(op[3])))
                extra.append('stats:%d,%d,%d,%d' % (st.received, st.received_processed, st.sent, st.frame_received))
            elif name == 'tick':
                self.clock.tick(int(op[2]))
            elif name == 'recv':
                r = l.recv()
                extra.append('recv:none' if r is None else 'recv:' + hx(r))
            elif name == 'stop_sending':
                l.stop_sending()
            elif name == 'stop_receiving':
                l.stop_receiving()
            elif name == 'reset':
                l.reset()
            else:
                raise AssertionError('unknown op %r' % (op,))
        except AssertionError:
            raise
        except Exception as e:  # an exception escaping a public call
            self.events.append('crash')
            self.last_exception = e
        return ' '.join(self.events + extra) + ' | ' + self.status()


def run_impl(case, layer_cls=None):
    """Run the case on /repo's implementation. Returns (lines, insts)."""
    clock_guard = VClock()
    try:
        insts = [ImplInst(i, layer_cls) for i in case['insts']]
        out = []
        for op in case['ops']:
            out.append(insts[int(op[0])].run_op(op))
        return out, insts
    finally:
        clock_guard.install()
        clock_guard.uninstall()
        import time as _t
        # restore the real clock (VClock.install saved whatever was installed before)
        import importlib
        _t.perf_counter_ns = _REAL[0]
        _t.perf_counter = _REAL[1]


import time as _time  # noqa: E402
_REAL = (_time.perf_counter_ns, _time.perf_counter)


def first_diff(a, b):
    for i, (x, y) in enumerate(zip(a, b)):
        if x != y:
            return i
    if len(a) != len(b):
        return min(len(a), len(b))
    return None


def split_line(line):
    ev, _, st = line.partition(' | ')
    return ev.split(), st
