"""Two real layers joined directly (what one hands to txfn is what the other's rxfn returns, in order) driven by
user-level calls, and the same calls on the extracted Coq joint model (Model/Joint.v cstep, driver `J` lines).

A joint case: {"insts": [A, B], "calls": [["send", "A", tat, hex] | ["proc", "A", do_rx, do_tx] | ["recv", "A"]
| ["tick", "A", ns], ...]}.  One canonical line per call on both sides:
  <side>:<event> ... | inA=<n> inB=<n> A[<status>] B[<status>]
"""
import json
import vclock  # noqa: F401,E402  (clock trampolines go in before the library binds anything)
import isotp
from core import ImplInst, case_to_model_text, split_line, unhx, _REAL
import lc
import time as _time

SIDES = {'A': 0, 'B': 1}


def run_impl_joint(case):
    insts = [ImplInst(i) for i in case['insts']]
    lines = []
    try:
        for call in case['calls']:
            name, sd = call[0], call[1]
            k = SIDES[sd]
            im, peer = insts[k], insts[1 - k]
            if name == 'send':
                line = im.run_op([k, 'send', call[2], call[3]])
            elif name == 'proc':
                line = im.run_op([k, 'proc', call[2], call[3]])
            elif name == 'recv':
                line = im.run_op([k, 'recv'])
            elif name == 'tick':
                line = im.run_op([k, 'tick', call[2]])
            else:
                raise AssertionError(call)
            evs, _ = split_line(line)
            out = []
            for e in evs:
                if e.startswith('tx:'):
                    p = e.split(':')
                    peer.inbox.append(isotp.CanMessage(arbitration_id=int(p[1], 16), data=unhx(p[6]), extended_id=bool(int(p[2])),
                                                       is_fd=bool(int(p[3])), bitrate_switch=bool(int(p[4]))))
                    out.append('%s:%s' % (sd, e))
                elif e.startswith(('err:', 'done:')) or e == 'crash':
                    out.append('%s:%s' % (sd, e))
                elif e == 'send:ok':
                    out.append('%s:sent:%s' % (sd, call[3]))
                elif e.startswith('recv:') and e != 'recv:none':
                    out.append('%s:%s' % (sd, e))
            st = []
            for x in insts:      # each layer reads its own virtual clock
                x.clock.install()
                st.append(x.status())
            lines.append('%s | inA=%d inB=%d A[%s] B[%s]' % (' '.join(out), len(insts[0].inbox), len(insts[1].inbox), st[0], st[1]))
    finally:
        _time.perf_counter_ns, _time.perf_counter = _REAL
    return lines, insts


def run_model_joint(case):
    m = lc.model()
    head = case_to_model_text({'insts': case['insts'], 'ops': []})
    lines = head + ['J init 0 1']
    for call in case['calls']:
        lines.append('J ' + ' '.join('-' if x is None else str(int(x)) if isinstance(x, bool) else str(x) for x in
                                     ([call[0], call[1]] + list(call[2:]))))
    out = []
    CH = 150
    p = m.p
    nexp = 0
    for i in range(0, len(lines), CH):
        chunk = lines[i:i + CH]
        p.stdin.write('\n'.join(chunk) + '\n')
        p.stdin.flush()
        for l in chunk:
            if l.startswith('J '):
                r = p.stdout.readline()
                if not r:
                    raise RuntimeError('model driver died; joint case=%s' % json.dumps(case)[:2000])
                out.append(r.rstrip('\n'))
    assert out[0] == 'ok', out[0]
    return out[1:]


def observe(lines):
    """(sent, received, errors) per side from canonical joint lines."""
    sent = {'A': [], 'B': []}
    got = {'A': [], 'B': []}
    errs = {'A': [], 'B': []}
    for l in lines:
        for e in l.split(' | ')[0].split():
            sd, _, rest = e.partition(':')
            if rest.startswith('sent:'):
                sent[sd].append(rest[5:])
            elif rest.startswith('recv:'):
                got[sd].append(rest[5:])
            elif rest.startswith('err:') or rest == 'crash':
                errs[sd].append(rest)
    return sent, got, errs
