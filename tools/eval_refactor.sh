#!/bin/sh
# usage: eval_refactor.sh <worktree> [seed]   development helper: runs every property's quick campaigns (no proof stage) against a
# behaviour-preserving refactoring sitting in a scratch worktree (PYTHONPATH), leaving /repo untouched.  Expected: every check exits 0.
wt=$1; seed=${2:-20260930}
for id in C01 C02 C03 C04 C05 C06 C07 C08 C09 C10 C11 C12 C13 C14 C15 C16 C17 C18 C19 C20; do
  (cd /verif && VERIF_SEED=$seed PYTHONPATH=$wt PYTHONHASHSEED=0 PYTHONDONTWRITEBYTECODE=1 timeout 1500 /venv/bin/python harness/check_main.py $id --tier quick --no-proof > /tmp/rfl_$(basename $wt)_$id.log 2>&1); rc=$?
  echo "$id rc=$rc $(grep -m1 '^VIOLATION' /tmp/rfl_$(basename $wt)_$id.log) $(tail -1 /tmp/rfl_$(basename $wt)_$id.log | cut -c1-120)"
done
