#!/bin/sh
# usage: [TAGS="m5 m6"] eval_seeded.sh <dir with Cxx.mN.patch.diff files> [ids...]   - applies each change to /repo, runs the property's quick check
# (campaigns only: the proof step does not depend on /repo), undoes the change.  One line per change on stdout.
dir=$(cd "$1" && pwd); shift
ids=${*:-C01 C02 C03 C04 C05 C06 C07 C08 C09 C10 C11 C12 C13 C14 C15 C16 C17 C18 C19 C20}
for id in $ids; do
  for patch in $dir/$id.m*.patch.diff $dir/$id/m*/patch.diff; do
    [ -f "$patch" ] || continue
    tag=$(echo $patch | sed 's/.*\(m[0-9]*\).*/\1/')
    if [ -n "$TAGS" ]; then case " $TAGS " in *" $tag "*) ;; *) continue;; esac; fi
    git -C /repo diff --quiet || { echo "/repo not clean"; exit 2; }
    if ! git -C /repo apply $patch 2>/dev/null; then echo "$id.$tag: does-not-apply"; continue; fi
    (cd /verif && timeout 1500 ./check $id --tier quick --no-proof > /tmp/evalseed_$id.$tag.log 2>&1); rc=$?
    git -C /repo checkout -- .
    sig=$(grep -m1 '^VIOLATION' /tmp/evalseed_$id.$tag.log | sed 's/.*replay=//; s/ .*//' | xargs -r python3 -c "import json,sys; print(json.load(open(sys.argv[1]))['signature'])" 2>/dev/null)
    echo "$id.$tag: rc=$rc caught=$([ $rc -eq 1 ] && echo yes || echo NO) signature=$sig"
  done
done
