#!/bin/sh
# usage: eval_round.sh <worktree root> <tag> <id>...   development helper: confirms a sub-agent's change in ITS scratch worktree
# (demo passes without / fails with, tests pass with) and runs the property's campaigns against that worktree (PYTHONPATH), leaving
# /repo untouched.  The evaluation of record is tools/eval_seeded.sh, which applies the change to /repo itself.
root=$1; tag=$2; shift 2
for id in "$@"; do
  wt=$root/$id; patch=$root/out/$id.$tag.patch.diff; demo=$root/out/$id.$tag.demo.py
  [ -f "$patch" ] || { echo "$id.$tag: no patch"; continue; }
  cd $wt && git checkout -q -- . && git clean -fdq
  PYTHONPATH=$wt timeout 300 /venv/bin/python $demo > /tmp/er_$id.$tag.clean.log 2>&1; clean=$?
  git apply $patch 2>/dev/null || { echo "$id.$tag: patch does not apply"; continue; }
  PYTHONPATH=$wt timeout 300 /venv/bin/python $demo > /tmp/er_$id.$tag.mut.log 2>&1; mut=$?
  timeout 900 /venv/bin/python -m pytest -q -p no:cacheprovider --timeout=900 test/ > /tmp/er_$id.$tag.tests.log 2>&1; tests=$?
  (cd /verif && PYTHONPATH=$wt PYTHONHASHSEED=0 PYTHONDONTWRITEBYTECODE=1 timeout 1500 /venv/bin/python harness/check_main.py $id --tier quick --no-proof > /tmp/er_$id.$tag.check.log 2>&1); rc=$?
  git checkout -q -- . ; git clean -fdq
  sig=$(grep -m1 '^VIOLATION' /tmp/er_$id.$tag.check.log | sed 's/.*replay=//; s/ .*//' | xargs -r python3 -c "import json,sys; print(json.load(open(sys.argv[1]))['signature'])" 2>/dev/null)
  echo "$id.$tag: demo_clean=$clean demo_mutant=$mut tests=$tests check_rc=$rc signature=$sig"
done
