#!/bin/sh
# usage: coverage_campaigns.sh [ids...]   development / documentation helper: runs the quick campaigns (no proof step) of the given
# properties (default: all) under coverage.py and reports which statements of /repo/isotp the correspondence and oracle campaigns
# execute.  Writes docs/COVERAGE.txt.  Statements never executed are behaviour the campaigns cannot speak about.
here=$(cd "$(dirname "$0")/.." && pwd)
ids=${*:-C01 C02 C03 C04 C05 C06 C07 C08 C09 C10 C11 C12 C13 C14 C15 C16 C17 C18 C19 C20}
work=$(mktemp -d /tmp/verifcov.XXXXXX)
cat > $work/rc <<RC
[run]
source = /repo/isotp
parallel = True
concurrency = multiprocessing,thread
data_file = $work/cov
sigterm = True
RC
export PYTHONPATH=/repo PYTHONHASHSEED=0 PYTHONDONTWRITEBYTECODE=1
cd $here
for id in $ids; do
  timeout 3000 /venv/bin/python -m coverage run --rcfile=$work/rc harness/check_main.py $id --tier quick --no-proof 2>&1 | tail -1
done
/venv/bin/python -m coverage combine --rcfile=$work/rc > /dev/null 2>&1
{ echo "# statements of /repo/isotp executed by the quick campaigns of: $ids"; /venv/bin/python -m coverage report --rcfile=$work/rc -m; } > $here/docs/COVERAGE.txt
tail -15 $here/docs/COVERAGE.txt
rm -rf $work
