#!/usr/bin/env python3
"""Regenerates MANIFEST.json from the table below (claimed properties) - keeps it valid at all times."""
import json, os
HERE = os.path.dirname(os.path.abspath(__file__))
VERIF = os.path.dirname(HERE)
props = [json.loads(l) for l in open(os.path.join(VERIF, 'properties.jsonl'))]

TECH = 'Coq theorems on an executable Gallina model (invariants/induction, unbounded) + differential correspondence model vs implementation on every run'
BASE_NOTE = ('Trusted: Coq 8.16.1 kernel, vm_compute (no native_compute), no axioms (Print Assumptions closed), extraction via ExtrOcamlBasic only, '
             'hand-written OCaml driver and Python harness, hand translation Python->Gallina validated by the correspondence campaigns, '
             'virtual clock constant during one process() call. ')

CLAIMED = {
    'C09': dict(text='Theorems for all addresses / identifiers / frames: is_for_me <-> documented reception condition (C09_iff), rejected frames are no-ops of the reception loop (C09_ignore), emitted id/prefix are the documented ones and are accepted by the mirrored address for physical and functional target types (C09_emit_*, C09_mirror), Functional send accepted iff the payload fits a Single Frame and a refused send queues nothing (C09_func*), validation = documented table (C09_validate). The tie to /repo is the exhaustive-per-address table comparison and through-layer campaigns run on every check.',
                design='4 (C09)', note='identifiers quantified over 0 <= id < 2^29; "every emitted frame carries id/prefix" for frames held in rate-limiter standby relies on the tx invariant proved for C02.'),
}
REASONS = {}

checks = []
na = []
for p in props:
    pid = p['id']
    if pid in CLAIMED:
        c = CLAIMED[pid]
        checks.append({
            'property_id': pid,
            'quick_cmd': './check %s --tier quick' % pid,
            'thorough_cmd': './check %s --tier thorough' % pid,
            'evidence_file': 'evidence/%s.json' % pid,
            'replay_cmd_template': './check %s --replay {path}' % pid,
            'engine': 'coq-model-correspondence',
            'level_claimed': {'category': 'proof', 'text': c['text'], 'design_ref': 'DESIGN.md section ' + c['design']},
            'level_note': BASE_NOTE + c['note'],
            'technique': TECH,
        })
    else:
        na.append({'property_id': pid, 'reason': REASONS.get(pid, 'check under construction in this session (DESIGN.md section 4); will be claimed once its theorem and correspondence campaign are committed')})

m = {
    'version': 1,
    'setup_cmd': './setup.sh',
    'hooks': {
        'guard': 'PYTHON_CAN_ISOTP_VERIF',
        'enable': 'no source hook exists or is needed: the clock (time.perf_counter[_ns]), the rxfn/txfn/error/post-send callbacks and socket.socket are substituted from outside by the harness; checks read /repo working tree directly (pure Python, PYTHONPATH=/repo)',
        'baseline_off_cmd': 'cd /repo && /venv/bin/python -m pytest -ra -q -p no:cacheprovider --timeout=900 --continue-on-collection-errors',
        'source_commits': [],
        'add_only': True,
    },
    'engines': [{'name': 'coq-model-correspondence', 'path': 'check', 'serves_properties': sorted(CLAIMED),
                 'kind_free_text': 'Coq 8.16 development (coq/theories: Model, Spec, Proofs, Props) + OCaml extraction driver + Python differential harness'}],
    'checks': checks,
    'not_applicable': na,
    'notes': 'Defects found while building were repaired in /repo by small "fix:" commits; see known_findings.json and DESIGN.md section 5.',
}
json.dump(m, open(os.path.join(VERIF, 'MANIFEST.json'), 'w'), indent=1)
print('claimed', sorted(CLAIMED), 'not claimed', [x['property_id'] for x in na])
