#!/usr/bin/env python3
"""Regenerates MANIFEST.json from the table below (claimed properties) - keeps it valid at all times."""
import json, os
HERE = os.path.dirname(os.path.abspath(__file__))
VERIF = os.path.dirname(HERE)
props = [json.loads(l) for l in open(os.path.join(VERIF, 'properties.jsonl'))]

TECH = 'Coq theorems on an executable Gallina model (invariants/induction, unbounded) + differential correspondence model vs implementation on every run'
BASE_NOTE = ('Trusted: Coq 8.16.1 kernel, vm_compute (no native_compute), no axioms (Print Assumptions closed), extraction via ExtrOcamlBasic only, '
             'hand-written OCaml driver and Python harness, hand translation Python->Gallina validated by the correspondence campaigns, '
             'virtual clock constant during one process() call. ')

CLAIMED = {
    'C01': dict(design='4 (C01)',
        text='Theorems (unbounded payload length / message count, every accepted configuration): the reference segmentation of any payload is a well-formed stream (C01_segmentation_wellformed, induction over the Consecutive Frames); any sequence of well-formed streams is delivered in order, exactly once, without error (C01_messages); hence for peers whose prefix sizes agree the receiver fed with the reference segmentation of a message list delivers exactly that list (C01_transfer); recv() is FIFO and removes what it returns (C01_recv_fifo); end to end for one multi-frame message under the cooperative schedule: the frames the sender model emits are reassembled by the mirrored receiver into exactly the payload, once, no error on either side, request completed with success (C01_end_to_end_cooperative). With C02 (the sender emits the reference segmentation) and C09_mirror (identifiers/prefix accepted by the mirrored address) this is the lossless-transfer statement for schedules in which frames reach the receiver in order with deadlines kept. The joint theorem over every interleaving of the two process() loops is NOT proved: interleavings, flow-control round trips and process() granularity are covered by the two-peer correspondence campaigns (real layers vs two extracted model instances, same schedule).',
        note='PARTIAL proof: composition of sender-side, wire and receiver-side theorems; the two-peer joint invariant (DESIGN.md appendix A) is not mechanised.'),
    'C10': dict(design='4 (C10)',
        text='Theorems: the transmit state machine never modifies reception state (C10_tx_preserves_rx) and data frames never modify transmission state (C10_rx_preserves_tx); a Flow Control frame only fills the one-slot mailbox and hands over to the transmit pass (C10_fc_only_mailbox); a pass answering with a Flow Control leaves the transmitter untouched (C10_fc_answer_pass); send()/recv() touch only their own side (C10_user_calls); in every reachable state (any interleaving of micro-steps) a non-idle transmitter or receiver has a running deadline or a frame about to leave: no wedge (C10_no_wedge). Delivery per direction then follows from C01. Tied to /repo by duplex campaigns over interleavings of {A.process, A.process(tx only), B.process, B.process(tx only), deliver A->B, deliver B->A, tick} compared with two extracted model instances.',
        note='PARTIAL proof: non-interference inside one layer and no-wedge are proved; the two-peer joint delivery statement over all interleavings is explored (exhaustively for small scopes in thorough tier, randomly for large), not proved.'),
    'C11': dict(design='4 (C11)',
        text='One theorem per kind of hit frame: duplicated Single Frame delivered twice without error (C11_dup_single); lost First Frame -> every following Consecutive Frame reported and ignored, nothing delivered (C11_lost_first_frame, induction over the stream); lost or duplicated Consecutive Frame -> sequence gap -> WrongSequenceNumberError, partial message dropped, never delivered (C11_sequence_gap); lost tail / lost Flow Control -> a reception always has a deadline and its expiry abandons it with ConsecutiveFrameTimeoutError (C11_lost_tail_reported), the sender reports FlowControlTimeoutError and fails the request (C11_lost_fc_reported); duplicated ContinueToSend harmless (C11_dup_cts); after the fault the next message is delivered intact from whatever state was left (C11_after_fault); whatever the faults, every delivery of every run is the data of one Single Frame or of one First Frame plus the in-sequence Consecutive Frames accepted after it - never truncated, merged or corrupted (C11_never_corrupted). Tied to /repo by exhaustive fault-position campaigns (every frame index of either direction x {drop, duplicate}) on two real peers vs the extracted model.',
        note='PARTIAL proof: per-fault-kind theorems; "at most the one hit message is missing" over a whole exchange and the duplicated First Frame case are campaign oracles.'),
    'C02': dict(design='4 (C02)',
        text='Theorems (all configurations, all payloads): every frame of the reference segmentation Spec.Segment.seg is well formed (C02_wellformed); a request that fits produces exactly the Single Frame of the Spec, padded/DLC-rounded as documented (C02_single); otherwise the First Frame of the Spec incl. the 32-bit escape form (C02_first_frame); every later data frame is the next Consecutive Frame of the Spec with the running sequence number (C02_consecutive_frame); refused sends queue nothing (C02_refuse); run level, cooperative peer: driven with a ContinueToSend (any block size / separation time) whenever it waits and with enough time between passes, a multi-frame request emits EXACTLY the reference segmentation, in order, completes once with success and leaves the sender idle (C02_cooperative_run, induction over the Consecutive Frames). Tied to /repo by campaigns comparing every emitted frame with the extracted Spec segmentation (cooperative peer, standby/rate-limited, boundary lengths, >4095 escape, 2^32 refusal).',
        note='The whole-run equality frames = seg is proved for the cooperative driver (sender-level functions start_request / handle_fc_active / tx_cf with the rate limiter allowing a full frame); other schedules (rate-limited standby, Wait frames, arbitrary interleavings of process() passes) are covered per frame by the one-step theorems and by the campaigns.'),
    'C03': dict(design='4 (C03)',
        text='Theorem C03_reassembly: for every configuration and every well-formed stream (FF + consecutive CFs, any block size, any prefix, any link-layer size, short or escape FF) fed with timers kept, the receiver ends idle with exactly the payload queued, no error; C03_flow_control_frame: the FC sent is CTS with the configured blocksize/stmin, padded per configuration; C03_flow_control_positions: answering each pending Flow Control at once, the receiver emits exactly one reference Flow Control after the First Frame and one after every blocksize-th Consecutive Frame that is not the last, none elsewhere, and delivers the payload. Induction over the CF list, unbounded length. Tied to /repo by stream campaigns (reference encoder independent of the model) and the K1 correspondence.',
        note='Stream well-formedness (wf_stream) is a Spec predicate; the positions theorem is for a receiver that runs its transmit pass right after each frame that makes a Flow Control pending (what process() does).'),
    'C04': dict(design='4 (C04)',
        text='Theorems over every reachable state (invariant WF preserved by every micro-step, any inputs): a layer that is transmitting always has the timer that will end the wait running (C04_nowedge); Overflow aborts with OverflowError and failure completion (C04_overflow); Wait frames: wftmax=0 -> UnexpectedFlowControl-free abort, more than wftmax -> MaximumWaitFrameReachedError, otherwise the N_Bs timer restarts (C04_wait0/_wait_max/_wait_ok); no more than blocksize CFs leave without a new CTS (C04_block). Tied to /repo by exhaustive flow-control-letter sequences from 6 start states plus random ones, compared line by line with the extracted model.',
        note='Termination is proved as "some timer is running in every non-idle tx state" plus the timeout theorems of C07; the bound on the number of process() passes is not proved.'),
    'C05': dict(design='4 (C05)',
        text='Theorems for every configuration, every reachable state and every input frame sequence: process() never raises and the model never reaches its crash value (C05_never_raises); reception reports only the documented error classes (C05_rx_errors_only); the structural invariant WF (13 conjuncts: timer/state agreement of both state machines, standby frame, pending flow control, sequence-number range, untouched queued requests, consumed <= size, timer durations) holds in every reachable state (C05_invariant); and every delivery is justified: one frame through _process_rx appends at most one payload, which is the data of that Single Frame or the data of one First Frame followed by the in-sequence Consecutive Frames accepted after it, cut at the announced length and at least that long (C05_justified_step), along EVERY run of micro-steps from the initial state (C05_justified_run, ghost list of contributing frames, induction over the run). Tied to /repo by alphabet-exhaustive, random/garbage and interrupt campaigns with line-by-line model comparison and an independent justification oracle.',
        note='Frames are lists of integers decoded by the model of PDU parsing (pdu_decode); "justified" is stated on decoded frames.'),
    'C06': dict(design='4 (C06)',
        text='One theorem per documented anomaly, for all states satisfying the stated precondition: the error class raised and the state afterwards (C06_undecodable, _missing_escape, _cf_idle, _wrong_seq, _sf_interrupt, _ff_too_long, _bad_ff_rxdl, _changing_rxdl) and C06_recovery: after any anomaly the receiver is in a state from which the next well-formed stream is reassembled (composition with C03). Tied to /repo by anomaly-injection campaigns at every stream position.',
        note='Anomaly theorems are per-frame; their composition along arbitrary histories is by the invariant of C05 and the campaign.'),
    'C07': dict(design='4 (C07)',
        text='Theorems: the N_Cr timeout fires iff the receiver waits for a CF and strictly more than the configured time elapsed (or timeout 0) at a check (C07_rx_iff), with its exact effect (C07_rx_effect) and a CF arriving in time is accepted (C07_rx_accept); N_Bs fires only if really elapsed and does fire at the next pass (C07_tx_only_if, C07_tx_fires); idle states have no running protocol timer (C07_idle); the float ms->ns conversion of the implementation is within 1 ns below the exact value for every integer 0..20000 ms (C07_conversion, PrimFloat evaluation inside Coq). Tied to /repo by boundary-instant campaigns (deadline -1/0/+1 ns) on a virtual clock and the exhaustive to_ns table comparison.',
        note='Time is the virtual clock, constant during one process() pass; OS timer jitter is outside the model. Print Assumptions lists only the PrimFloat/PrimInt63 primitives.'),
    'C08': dict(design='4 (C08)',
        text='Theorems: a CF leaves only when the STmin timer expired (C08_gate) and restarts it at that instant with the same duration (C08_restart); an accepted CTS programs the decoded STmin or the override (C08_programmed); the STmin byte table equals the documented one for all 256 bytes, float computation included (C08_table); STmin 0 never delays (C08_zero); run level: in EVERY run of micro-steps with non-negative clock ticks each Consecutive Frame leaves at least the separation time held by the STmin timer at that moment after the previous one (C08_pass, C08_run: ghost instant of the last Consecutive Frame, invariant that the STmin timer was restarted at or after it). Tied to /repo by campaigns measuring every inter-CF gap on the virtual clock for every STmin byte.',
        note='The gap is measured against the timer value in force when the frame leaves (programmed by the last accepted ContinueToSend, C08_programmed); virtual clock, constant during one pass.'),
    'C09': dict(design='4 (C09)',
        text='Theorems for all addresses / identifiers / frames: is_for_me <-> documented reception condition (C09_iff), rejected frames are no-ops of the reception loop (C09_ignore), emitted id/prefix are the documented ones and are accepted by the mirrored address for physical and functional target types (C09_emit_*, C09_mirror), Functional send accepted iff the payload fits a Single Frame and a refused send queues nothing (C09_func*), validation = documented table (C09_validate). The tie to /repo is the exhaustive-per-address table comparison and through-layer campaigns run on every check.',
        note='identifiers quantified over 0 <= id < 2^29; "every emitted frame carries id/prefix" for frames held in rate-limiter standby relies on the tx invariant proved for C02.'),
    'C12': dict(design='4 (C12)',
        text='Theorems: in every reachable state the transmitter is idle iff no request is active (C12_idle_iff); protocol aborts, stop_sending and reset complete the active request (and for reset every queued one) with failure exactly there (C12_abort, C12_reset); an empty payload completes with success when dequeued (C12_empty); the only events a transmit pass can emit are frames, documented errors and completions (C12_tx_events); run level: along ANY run of micro-steps from the initial state no request is completed twice, every completion concerns a request send() accepted earlier, and a request still queued or active has not been completed (C12_exactly_once: each completion removes exactly one live request, permutation invariant over the run). Tied to /repo by request-profile campaigns observing each request completion (exactly once, value, instant) line by line against the model, plus real-thread blocking_send scenarios.',
        note='The blocking wait (threading.Event, worker thread) is exercised by threaded scenarios, not modelled; "at least once" (every accepted request is eventually completed) is termination: campaign oracle + C04_nowedge, not a theorem.'),
    'C13': dict(design='4 (C13)',
        text='Theorems: for EVERY schedule of the user threads send() calls the transmit queue holds each thread payloads in that thread order, none twice, none invented (C13_per_thread, C13_complete, C13_queue_grows: induction over the schedule); send() appends and the worker starts the head: FIFO (C13_send_appends, C13_dequeue_head); frames not addressed to the layer are no-ops of the reception loop (C13_noise_ignored). Delivery of the queue content, in order, each once, is C01/C02. Tied to /repo by real-thread campaigns on 4 transports (rxfn(timeout), legacy rxfn(), CanStack, NotifierBasedCanStack on a python-can virtual bus) with perturbed scheduling: the observed order of tx_queue.put is the schedule, the extracted Coq merge for that schedule must equal what the peer delivered; plus threaded full-duplex streaming and a logic-level correspondence campaign for the worker loop body.',
        note='PARTIAL by nature: thread schedules, GIL, OS scheduling and callback latency are sampled, not proved; assumed: queue.Queue is a linearizable FIFO and protocol state is touched only by the worker thread.'),
    'C14': dict(design='4 (C14)',
        text='Theorems on the lifecycle model (Model/Threaded.v, which embeds the full layer model): RuntimeError is raised exactly by a second start() and by process()/reset() while started, nothing else raises (C14_exceptions); worker and relay thread exist exactly while started, for every operation sequence (C14_threads); stop() in ANY state - never started, idle, mid-transfer - succeeds, leaves no thread, not started, both state machines idle, all queues empty, every queued/active request completed with failure (C14_stop_clean, C14_stop_never_started); a stopped layer restarts into the protocol state of a fresh one (C14_restart). Tied to /repo by real-thread campaigns: all operation sequences up to length 3 (+ random up to 12) on TransportLayer and NotifierBasedCanStack compared call by call with the extracted model; stop() mid-transfer, stop() under incoming traffic, stop() with a slow blocking reader; restart + transfer.',
        note='PARTIAL: "returns within bounded time" and "no thread alive" are measured on the Python runtime on every run (threading.enumerate(), stop() duration), not proved; the model proves the bookkeeping.'),
    'C15': dict(design='4 (C15)',
        text='Theorems: a disabled limiter never limits (C15_off); when enabled, allowance >= 0 and bits in the live window + 8*allowance <= bitrate*window (C15_allowance, exact rationals); every emitted frame adds exactly its data bits to the window (C15_accounting). Tied to /repo by sliding-window campaigns with an independent bound oracle and line-by-line model comparison on float-exact (bitrate, window) pairs.',
        note='The sliding-window bound over a whole run and "never stalls" are campaign oracles; the model uses exact rationals, campaigns are restricted to parameter pairs where the float computation is exact.'),
    'C16': dict(design='4 (C16)',
        text='Theorems: Params.validate accepts exactly the documented set for every value of every key incl. wrong types and non-finite floats (C16_params_iff), Address validation = documented table (C16_address_iff), accepted parameters satisfy the side conditions used by all other proofs (C16_accepted_ok), an accepted configuration never crashes in process() (C16_nocrash) and send() either queues or reports ValueError (C16_send_total). Tied to /repo by pairwise-exhaustive + random address/params/set() campaigns against an independent documentation predicate and the extracted validate.',
        note='Python values are abstracted to pv = None | int | bool | finite rational float | non-finite float | str | other; bool-for-int is outside the generated space.'),
    'C17': dict(design='4 (C17)',
        text='Theorems: one consume() pulls at most the requested number of bytes (C17_pull_bound); building the first frame pulls exactly the bytes it carries (C17_first_frame_pulls); a generator shorter than declared at the start gives BadGeneratorError, failure, nothing sent (C17_short_at_start). Tied to /repo by generator campaigns observing the pull count after every emitted frame.',
        note='Laziness over a whole run (pulled <= carried so far + one frame) is the composition of the per-step bound, checked on runs.'),
    'C18': dict(design='4 (C18)',
        text='Theorems for every reachable state and any traffic: with listen_mode a pass emits no frame (C18_pass_silent) and no run of micro-steps does (C18_silent); hears the same: reception does not depend on listen mode or on any transmit parameter (C18_same_reception), reception is a function of the reception view, and a listener and a receiver with the same reception parameters taken through the same frames, checks, passes, recv() calls and ticks end with the same reception view - same deliveries (C18_hears_the_same, induction over the run). Tied to /repo by tap campaigns comparing what a listener and a normal receiver deliver from the same conversation and asserting zero transmissions.',
        note='C18_hears_the_same is about lock-step schedules (both layers processed at the same instants); listeners processed at other instants are covered by the tap campaign.'),
    'C19': dict(design='4 (C19)',
        text='Theorems about the wrapper model against an independent kernel-struct specification: set_opts/set_fc_opts/set_ll_opts write exactly the documented little-endian layout with unchanged fields preserved and implied flags set (C19_set_opts, _flag_ext, _flag_txstmin, _flags_kept, _set_fc_opts, _set_ll_opts); out-of-range or wrongly typed arguments are ValueError and write nothing (C19_invalid, _invalid_arg, _fc_invalid). Tied to /repo by campaigns against a fake kernel socket recording every setsockopt byte string.',
        note='The Linux kernel is represented by Spec/Kernel.v written from the can-isotp ABI; no real CAN_ISOTP socket exists in the sandbox.'),
    'C20': dict(design='4 (C20)',
        text='Theorems: bind passes ids with the EFF flag iff 29-bit and masked (C20_ids); the kernel-side interpretation of the resulting options accepts/emits exactly what the Python layer does for the same address (C20_ext, C20_plain); inconsistent asymmetric prefixes are refused (C20_refuse); option setters after bind and I/O before bind raise (C20_set_after_bind, C20_io_guard, C20_closed). Tied to /repo by campaigns over all addressing modes against the fake kernel socket.',
        note='Same kernel abstraction as C19.'),
}
REASONS = {
}

checks = []
na = []
for p in props:
    pid = p['id']
    if pid in CLAIMED:
        c = CLAIMED[pid]
        checks.append({
            'property_id': pid,
            'quick_cmd': './check %s --tier quick' % pid,
            'thorough_cmd': './check %s --tier thorough' % pid,
            'evidence_file': 'evidence/%s.json' % pid,
            'replay_cmd_template': './check %s --replay {path}' % pid,
            'engine': 'coq-model-correspondence',
            'level_claimed': {'category': 'proof', 'text': c['text'], 'design_ref': 'DESIGN.md section ' + c['design']},
            'level_note': BASE_NOTE + c['note'],
            'technique': TECH,
        })
    else:
        na.append({'property_id': pid, 'reason': REASONS.get(pid, 'check under construction in this session (DESIGN.md section 4); will be claimed once its theorem and correspondence campaign are committed')})

m = {
    'version': 1,
    'setup_cmd': './setup.sh',
    'hooks': {
        'guard': 'PYTHON_CAN_ISOTP_VERIF',
        'enable': 'no source hook exists or is needed: the clock (time.perf_counter[_ns]), the rxfn/txfn/error/post-send callbacks and socket.socket are substituted from outside by the harness; checks read /repo working tree directly (pure Python, PYTHONPATH=/repo)',
        'baseline_off_cmd': 'cd /repo && /venv/bin/python -m pytest -ra -q -p no:cacheprovider --timeout=900 --continue-on-collection-errors',
        'source_commits': [],
        'add_only': True,
    },
    'engines': [{'name': 'coq-model-correspondence', 'path': 'check', 'serves_properties': sorted(CLAIMED),
                 'kind_free_text': 'Coq 8.16 development (coq/theories: Model, Spec, Proofs, Props) + OCaml extraction driver + Python differential harness'}],
    'checks': checks,
    'not_applicable': na,
    'notes': 'Defects found while building were repaired in /repo by small "fix:" commits; see known_findings.json and DESIGN.md section 5.',
}
json.dump(m, open(os.path.join(VERIF, 'MANIFEST.json'), 'w'), indent=1)
print('claimed', sorted(CLAIMED), 'not claimed', [x['property_id'] for x in na])
