#!/bin/sh
# usage: eval_mutant.sh <property id> <mutant tag e.g. m1> [extra check ids...]
# Confirms the sub-agent's claims in its scratch worktree (demo fails with / passes without, tests pass with the change),
# then applies the patch to /repo, runs the quick checks, and undoes it. Prints one summary line.
id=$1; m=$2; shift 2
wt=/tmp/wt/$id
patch=/tmp/wt/$id.$m.patch.diff
demo=/tmp/wt/$id.$m.demo.py
out=/tmp/wt/eval_$id.$m.log
: > $out
[ -f "$patch" ] || { echo "$id.$m: no patch"; exit 0; }
cd $wt && git checkout -q -- . && cp $demo $wt/demo.py
PYTHONPATH=$wt timeout 300 /venv/bin/python demo.py >> $out 2>&1; clean=$?
git apply $patch >> $out 2>&1 || { echo "$id.$m: patch does not apply"; exit 0; }
PYTHONPATH=$wt timeout 300 /venv/bin/python demo.py >> $out 2>&1; mut=$?
timeout 900 /venv/bin/python -m pytest -q -p no:cacheprovider --timeout=900 test/ > $out.tests 2>&1; tests=$?
git checkout -q -- . ; rm -f demo.py
res=""
if [ $clean -eq 0 ] && [ $mut -ne 0 ] && [ $tests -eq 0 ]; then
  git -C /repo apply $patch || { echo "$id.$m: does not apply to /repo"; exit 0; }
  for c in $id "$@"; do
    (cd /verif && timeout 1500 ./check $c --no-proof > /tmp/wt/eval_$id.$m.check_$c.log 2>&1); rc=$?
    res="$res $c=$rc"
  done
  git -C /repo checkout -- .
fi
echo "$id.$m: demo_clean=$clean demo_mutant=$mut tests=$tests checks:$res"
