#!/bin/sh
# Build the whole framework from files on disk only: full .vo build of the Coq development,
# extraction to OCaml, model driver.
set -e
here=$(cd "$(dirname "$0")" && pwd)
cd "$here/coq"
find . -name '*.vo' -o -name '*.vok' -o -name '*.vos' -o -name '*.glob' -o -name '.*.aux' | xargs rm -f
rm -f Makefile Makefile.conf .Makefile.d
coq_makefile -f _CoqProject -o Makefile $(find theories -name '*.v' | sort) > /dev/null
timeout 3000 make -j16 > "$here/.setup-make.log" 2>&1 || { tail -50 "$here/.setup-make.log"; exit 1; }
"$here/ocaml/build.sh"
echo setup done
