"""F13 (C13, threaded full duplex): while the worker thread streams Consecutive Frames it did not read
incoming frames; a First Frame sent by the peer meanwhile got its Flow Control only after the whole
transmission (here 1.4 s), later than the peer's N_Bs (1 s)."""
from common import *
import queue, time
qab, qba = queue.Queue(), queue.Queue()
def rx(q):
    def f(timeout):
        try: return q.get(timeout=timeout) if timeout else q.get_nowait()
        except queue.Empty: return None
    return f
ea, eb = [], []
a = isotp.Address(isotp.AddressingMode.Normal_11bits, txid=0x111, rxid=0x222)
b = isotp.Address(isotp.AddressingMode.Normal_11bits, txid=0x222, rxid=0x111)
A = isotp.TransportLayer(rxfn=rx(qba), txfn=qab.put, address=a, params={'stmin': 20, 'blocksize': 1}, error_handler=lambda e: ea.append(type(e).__name__), read_timeout=0.005)
B = isotp.TransportLayer(rxfn=rx(qab), txfn=qba.put, address=b, params={'stmin': 20, 'blocksize': 0}, error_handler=lambda e: eb.append(type(e).__name__), read_timeout=0.005)
A.start(); B.start()
A.send(bytes(490)); time.sleep(0.03); B.send(bytes(490))
ga = A.recv(block=True, timeout=6); gb = B.recv(block=True, timeout=6)
A.stop(); B.stop()
print('A received', None if ga is None else len(ga), 'B received', None if gb is None else len(gb), 'errors A', ea, 'errors B', eb)
sys.exit(0 if (ga is not None and gb is not None and not ea and not eb) else 1)
