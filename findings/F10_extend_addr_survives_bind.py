"""F10 (C20): EXTEND_ADDR / RX_EXT_ADDR configured earlier must not survive bind() of an address without prefix byte."""
from common import *
import fake_kernel
fake_kernel.install()
s = isotp.socket()
s.set_opts(ext_address=0x55, rx_ext_address=0x66, txpad=0x11)
s.bind('vcan0', isotp.Address(isotp.AddressingMode.Normal_11bits, txid=1, rxid=2))
o = s.get_opts()
print('flags after bind of a Normal_11bits address: 0x%x (txpad 0x%x)' % (o.optflag, o.txpad))
sys.exit(1 if o.optflag & 0x202 or not (o.optflag & 0x4) else 0)
