"""F6 (C12): completion of single-frame / queued requests."""
from common import *
bad = []
a = Rig(); a.layer.send(b'\x01\x02'); a.p(); a.p()
st = [(r.complete_event.is_set(), r.success) for r in a.reqs]
print('single frame after emission:', st, 'frames', len(a.out))
if st != [(True, True)]: bad.append('sf-not-completed')
a = Rig(); a.layer.send(b''); a.p(); a.layer.stop_sending()
st = [(r.complete_event.is_set(), r.success) for r in a.reqs]
print('empty payload then stop_sending:', st)
if st != [(True, True)]: bad.append('empty-flips')
a = Rig(); a.layer.send(bytes(20)); a.layer.send(bytes(3)); a.layer.send(bytes(30)); a.p(); a.layer.reset()
st = [(r.complete_event.is_set(), r.success) for r in a.reqs]
print('reset with active + 2 queued:', st)
if st != [(True, False)] * 3: bad.append('reset-drops-queued')
print(bad); sys.exit(1 if bad else 0)
