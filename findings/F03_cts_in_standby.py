"""F3 (C04): ContinueToSend received during rate-limiter standby wedges the transmitter."""
from common import *
a = Rig(params=dict(rate_limit_enable=True, rate_limit_max_bitrate=64, rate_limit_window_size=1.0))
a.layer.send(bytes(range(7))); a.p()           # uses the whole window budget
a.layer.send(bytes(range(20))); a.p()          # FF held in standby
print('state', a.layer.tx_state, 'out', len(a.out))
a.rx([0x30, 0, 0]); a.p()
print('after CTS in standby: state', a.layer.tx_state, 'errors', a.errors)
for i in range(50):
    a.tick_ms(1500); a.rx([0x30, 0, 0]) if i % 7 == 3 else None; a.p()
print('after 75 s: transmitting', a.layer.transmitting(), 'state', a.layer.tx_state, 'frames', len(a.out), 'errors', a.errors, 'done', [(r.complete_event.is_set(), r.success) for r in a.reqs])
sys.exit(1 if a.layer.transmitting() else 0)
