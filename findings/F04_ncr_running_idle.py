"""F4 (C07): SF / too-long FF interrupting WAIT_CF leaves N_Cr running -> timeout error while idle."""
from common import *
bad = 0
for name, frame in (('SF', [0x02, 1, 2]), ('FF too long', [0x1F, 0xFF, 1, 2, 3, 4, 5, 6])):
    a = Rig(params=dict(max_frame_size=100))
    a.rx([0x10, 20, 1, 2, 3, 4, 5, 6]); a.p()
    a.rx(frame); a.p()
    print(name, 'rx active', a.layer.is_rx_active(), 'errors so far', a.errors)
    n = len(a.errors)
    a.tick_ms(3000); a.p(); a.tick_ms(3000); a.p()
    late = a.errors[n:]
    print(name, 'errors during silence while idle:', late)
    bad += 'ConsecutiveFrameTimeoutError' in late
sys.exit(1 if bad else 0)
