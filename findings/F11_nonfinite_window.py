"""F11 (C16): non-finite rate_limit_window_size passes validation then process() raises."""
from common import *
bad = 0
for w in (float('inf'), float('nan')):
    for en in (True, False):
        try:
            a = Rig(params=dict(rate_limit_window_size=w, rate_limit_enable=en))
        except ValueError as e:
            print(w, en, 'rejected'); continue
        try:
            a.layer.send(b'\x01'); a.p(); print(w, en, 'accepted and ran')
        except Exception as e:
            print(w, en, 'accepted, process raised', type(e).__name__); bad += 1
sys.exit(1 if bad else 0)
