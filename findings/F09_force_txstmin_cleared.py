"""F9 (C19/C20): set_opts()/bind() without tx_stmin must keep FORCE_TXSTMIN configured earlier."""
from common import *
import fake_kernel
fake_kernel.install()
s = isotp.socket()
s.set_opts(tx_stmin=5000)
f1 = s.get_opts().optflag
s.set_opts(txpad=0xAA)
f2 = s.get_opts().optflag
print('flags after set_opts(tx_stmin=5000): 0x%x ; after set_opts(txpad=0xAA): 0x%x' % (f1, f2))
s2 = isotp.socket(); s2.set_opts(tx_stmin=5000)
s2.bind('vcan0', isotp.Address(isotp.AddressingMode.Extended_11bits, txid=1, rxid=2, target_address=3, source_address=4))
f3 = s2.get_opts().optflag
print('flags after bind of an extended address: 0x%x' % f3)
sys.exit(0 if (f2 & 0x80 and f3 & 0x80) else 1)
