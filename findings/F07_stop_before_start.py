"""F7 (C14): stop() on a never-started TransportLayer."""
from common import *
a = Rig(cls=None)
import isotp
inbox = []
l = isotp.TransportLayer(rxfn=lambda t: None, txfn=lambda m: None, address=isotp.Address(isotp.AddressingMode.Normal_11bits, txid=1, rxid=2))
try:
    l.stop(); print('ok')
except Exception as e:
    print('raised', type(e).__name__, e); sys.exit(1)
