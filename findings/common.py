import sys, os, logging
sys.path.insert(0, os.path.join(os.path.dirname(__file__), '..', 'harness'))
logging.getLogger('isotp').setLevel(logging.CRITICAL + 1)
logging.getLogger('isotp').addHandler(logging.NullHandler())
logging.getLogger('isotp').propagate = False
import isotp
from vclock import VClock


class Rig:
    """A TransportLayerLogic on list-backed callbacks and a virtual clock."""

    def __init__(self, address=None, params=None, cls=None):
        self.clock = VClock().install()
        self.inbox, self.out, self.errors, self.reqs = [], [], [], []
        address = address or isotp.Address(isotp.AddressingMode.Normal_11bits, txid=0x123, rxid=0x456)
        cls = cls or isotp.TransportLayerLogic
        self.layer = cls(rxfn=lambda: self.inbox.pop(0) if self.inbox else None,
                         txfn=self.out.append, address=address,
                         error_handler=lambda e: self.errors.append(type(e).__name__),
                         params=params or {}, post_send_callback=self.reqs.append)

    def rx(self, data, arbitration_id=0x456, extended_id=False):
        self.inbox.append(isotp.CanMessage(arbitration_id=arbitration_id, data=bytes(data), extended_id=extended_id))

    def tick_ms(self, ms):
        self.clock.tick(int(ms * 10**6))

    def p(self, **kw):
        return self.layer.process(**kw)
