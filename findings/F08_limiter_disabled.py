"""F8 (C15): rate_limit_enable=False must never hold a frame."""
from common import *
a = Rig(params=dict(rate_limit_enable=False, rate_limit_max_bitrate=64, rate_limit_window_size=1.0))
for i in range(3):
    a.layer.send(bytes(range(7)))
a.p()
print('frames emitted in one pass', len(a.out), 'throttled', a.layer.is_tx_throttled())
sys.exit(0 if len(a.out) == 3 else 1)
