"""F2 (C02): send((gen, 2**32)) must be refused."""
from common import *
a = Rig()
def g():
    while True: yield 0x55
try:
    a.layer.send((g(), 2**32))
except ValueError as e:
    print('refused:', e); sys.exit(0)
a.p()
print('accepted; first frame', bytes(a.out[0].data).hex() if a.out else None)
sys.exit(1)
