"""F12 (C13/C14): legacy zero-argument rxfn with the threaded TransportLayer."""
from common import *
import queue, threading, time
q12, q21 = queue.Queue(), queue.Queue()
def rx_legacy(q):
    def f():
        try: return q.get_nowait()
        except queue.Empty: return None
    return f
errs = []
A = isotp.TransportLayer(rxfn=rx_legacy(q21), txfn=q12.put, address=isotp.Address(isotp.AddressingMode.Normal_11bits, txid=1, rxid=2), error_handler=errs.append,
                         params=dict(rx_flowcontrol_timeout=3000))
B = isotp.TransportLayer(rxfn=rx_legacy(q12), txfn=q21.put, address=isotp.Address(isotp.AddressingMode.Normal_11bits, txid=2, rxid=1), error_handler=errs.append)
hook_errors = []
threading.excepthook = lambda a: hook_errors.append(a.exc_type.__name__)
A.start(); B.start()
A.send(bytes(range(30)))
got = B.recv(block=True, timeout=2)
A.stop(); B.stop()
print('received', got, 'thread exceptions', hook_errors, 'errors', [type(e).__name__ for e in errs])
try:
    A.process(); after = 'ok'
except Exception as e:
    after = type(e).__name__
print('legacy process() after stop():', after)
sys.exit(0 if (got == bytearray(range(30)) and not hook_errors and after == 'ok') else 1)
