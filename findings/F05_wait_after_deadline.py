"""F5 (C07): Wait frame processed after N_Bs expired restarts the timer instead of timing out."""
from common import *
a = Rig(params=dict(wftmax=5, rx_flowcontrol_timeout=1000))
a.layer.send(bytes(range(20))); a.p()
a.tick_ms(1500)                 # deadline missed
a.rx([0x31, 0, 0]); a.p()       # Wait processed after the deadline
print('errors', a.errors, 'transmitting', a.layer.transmitting())
ok = a.errors == ['FlowControlTimeoutError'] and not a.layer.transmitting()
sys.exit(0 if ok else 1)
