"""F1 (C01/C02): tx_data_length=64, tx_data_min_length=16, 3-byte payload."""
from common import *
a = Rig(params=dict(tx_data_length=64, tx_data_min_length=16, can_fd=True))
a.layer.send(bytes([1, 2, 3])); a.p()
f = a.out[0]
print('frame', bytes(f.data).hex(), 'len', len(f.data))
b = Rig(address=isotp.Address(isotp.AddressingMode.Normal_11bits, txid=0x456, rxid=0x123), params=dict(tx_data_length=64, can_fd=True))
b.inbox.append(f); b.p()
got = b.layer.recv()
print('peer recv', got, 'errors', b.errors)
bad = len(f.data) > 8 and f.data[0] != 0
sys.exit(1 if (bad or got != bytearray([1, 2, 3])) else 0)
