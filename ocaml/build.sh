#!/bin/sh
# Extract the Coq model to OCaml (into gen/) and build the driver.  Needs the .vo files built.
set -e
here=$(cd "$(dirname "$0")" && pwd)
cd "$here"
rm -rf gen && mkdir -p gen
(cd gen && coqc -Q ../../coq/theories IsoTp ../../coq/theories/Extract/Extract.v >/dev/null)
cp driver.ml gen/
cd gen
# dependency order via ocamlfind ocamldep -sort
files=$(ocamlfind ocamldep -sort *.mli *.ml)
ocamlfind ocamlopt -O2 -w -a -o ../model_driver $files 2>/dev/null || ocamlfind ocamlopt -w -a -o ../model_driver $files
echo built $here/model_driver
