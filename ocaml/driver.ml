(* Line-protocol driver around the extracted Coq model (hand-written: parsing and
   printing only; part of the trusted base).  One output line per OP / Q line. *)
open BinNums
open Types

module S = Stdlib.String
module L = Stdlib.List

let rec pos_of_int n =
  if n = 1 then Coq_xH
  else if n land 1 = 0 then Coq_xO (pos_of_int (n lsr 1))
  else Coq_xI (pos_of_int (n lsr 1))
let z_of_int n = if n = 0 then Z0 else if n > 0 then Zpos (pos_of_int n) else Zneg (pos_of_int (-n))
let rec int_of_pos = function Coq_xH -> 1 | Coq_xO p -> 2 * int_of_pos p | Coq_xI p -> 2 * int_of_pos p + 1
let int_of_z = function Z0 -> 0 | Zpos p -> int_of_pos p | Zneg p -> - (int_of_pos p)
let rec nat_of_int n acc = if n <= 0 then acc else nat_of_int (n - 1) (Datatypes.S acc)

let zi s = z_of_int (int_of_string s)
let zopt s = if s = "-" || s = "none" then None else Some (zi s)
let bool_of s = (s = "1" || s = "true")
let hex_to_bytes s =
  if s = "-" then [] else
  let n = S.length s / 2 in
  L.init n (fun i -> z_of_int (int_of_string ("0x" ^ S.sub s (2 * i) 2)))
let bytes_to_hex l =
  if l = [] then "-" else S.concat "" (L.map (fun z -> Printf.sprintf "%02x" (int_of_z z land 0xff)) l)
(* bytes outside 0..255 would be a model bug: print them visibly *)
let bytes_to_hex l =
  if L.exists (fun z -> let v = int_of_z z in v < 0 || v > 255) l
  then "BAD[" ^ S.concat "," (L.map (fun z -> string_of_int (int_of_z z)) l) ^ "]"
  else bytes_to_hex l

let mode_of = function
  | "Normal_11bits" -> Normal11 | "Normal_29bits" -> Normal29 | "NormalFixed_29bits" -> NormalFixed29
  | "Extended_11bits" -> Extended11 | "Extended_29bits" -> Extended29
  | "Mixed_11bits" -> Mixed11 | "Mixed_29bits" -> Mixed29
  | s -> failwith ("mode " ^ s)
let tat_of = function "P" -> Some Physical | "F" -> Some Functional | _ -> None

let addr_of = function
  | [m; tx; rx; ta; sa; ae; ph; fu; ro; to_] ->
      { a_mode = mode_of m; a_txid = zopt tx; a_rxid = zopt rx; a_ta = zopt ta; a_sa = zopt sa;
        a_ae = zopt ae; a_phys = zopt ph; a_func = zopt fu; a_rx_only = bool_of ro; a_tx_only = bool_of to_ }
  | _ -> failwith "addr"

let default_params =
  { p_stmin = Z0; p_blocksize = z_of_int 8; p_override_stmin_ns = None;
    p_tbs_ns = z_of_int 1000000000; p_tcr_ns = z_of_int 1000000000; p_tx_padding = None;
    p_wftmax = Z0; p_tx_dl = z_of_int 8; p_tx_min_len = None; p_max_frame_size = z_of_int 4095;
    p_can_fd = false; p_brs = false; p_default_tat = Physical; p_lim_enable = false;
    p_lim_bn = z_of_int 20000000; p_lim_bd = z_of_int 1; p_lim_window_ns = z_of_int 200000000;
    p_listen = false }

let set_param p k v =
  match k with
  | "stmin" -> { p with p_stmin = zi v } | "blocksize" -> { p with p_blocksize = zi v }
  | "override_ns" -> { p with p_override_stmin_ns = zopt v }
  | "tbs_ns" -> { p with p_tbs_ns = zi v } | "tcr_ns" -> { p with p_tcr_ns = zi v }
  | "padding" -> { p with p_tx_padding = zopt v } | "wftmax" -> { p with p_wftmax = zi v }
  | "tx_dl" -> { p with p_tx_dl = zi v } | "min_len" -> { p with p_tx_min_len = zopt v }
  | "max_frame_size" -> { p with p_max_frame_size = zi v }
  | "can_fd" -> { p with p_can_fd = bool_of v } | "brs" -> { p with p_brs = bool_of v }
  | "default_tat" -> { p with p_default_tat = (if v = "F" then Functional else Physical) }
  | "lim_enable" -> { p with p_lim_enable = bool_of v }
  | "lim_bn" -> { p with p_lim_bn = zi v } | "lim_bd" -> { p with p_lim_bd = zi v }
  | "lim_window_ns" -> { p with p_lim_window_ns = zi v }
  | "listen" -> { p with p_listen = bool_of v }
  | _ -> failwith ("param " ^ k)

let err_name = function
  | FlowControlTimeout -> "FlowControlTimeoutError" | ConsecutiveFrameTimeout -> "ConsecutiveFrameTimeoutError"
  | InvalidCanData -> "InvalidCanDataError" | UnexpectedFlowControl -> "UnexpectedFlowControlError"
  | UnexpectedConsecutiveFrame -> "UnexpectedConsecutiveFrameError"
  | InterruptedWithSF -> "ReceptionInterruptedWithSingleFrameError"
  | InterruptedWithFF -> "ReceptionInterruptedWithFirstFrameError"
  | WrongSequenceNumber -> "WrongSequenceNumberError" | UnsupportedWaitFrame -> "UnsupportedWaitFrameError"
  | MaximumWaitFrameReached -> "MaximumWaitFrameReachedError" | FrameTooLong -> "FrameTooLongError"
  | ChangingInvalidRXDL -> "ChangingInvalidRXDLError" | MissingEscapeSequence -> "MissingEscapeSequenceError"
  | InvalidCanFdFirstFrameRXDL -> "InvalidCanFdFirstFrameRXDL" | OverflowErr -> "OverflowError"
  | BadGenerator -> "BadGeneratorError"

let b01 b = if b then "1" else "0"
let frame_str f =
  Printf.sprintf "%x:%s:%s:%s:%d:%s" (int_of_z f.f_id) (b01 f.f_ext) (b01 f.f_fd) (b01 f.f_brs)
    (int_of_z f.f_dlc) (bytes_to_hex f.f_data)
let event_str = function
  | ETx f -> "tx:" ^ frame_str f
  | EErr e -> "err:" ^ err_name e
  | EDone (rid, ok) -> Printf.sprintf "done:%d:%s" (int_of_z rid) (b01 ok)
  | ECrash _ -> "crash"

let status (s : layer) =
  let txs = match s.tx_state with
    | TxTransmitCF -> "C" | TxSFStandby | TxFFStandby -> "T" | _ -> "-" in
  let ncd = match s.tx_state with
    | TxTransmitCF ->
        if Layer.timer_timed_out s.now s.timer_tx_stmin then "0"
        else string_of_int (int_of_z (Layer.timer_remaining s.now s.timer_tx_stmin))
    | _ -> "none" in
  Printf.sprintf "rx=%s tx=%s trans=%s avail=%s ncd=%s" (b01 (Layer.is_rx_active s)) txs
    (b01 (Layer.transmitting s)) (b01 (Layer.available s)) ncd

type inst = { mutable cfg : cfg; mutable w : Layer.world }

let insts : (int, inst) Hashtbl.t = Hashtbl.create 7
let cur_p = ref default_params
let cur_txa = ref None
let cur_rxa = ref None
let fuel = ref (nat_of_int 300000 Datatypes.O)

let out_line evs extra st =
  let parts = L.map event_str evs @ extra in
  print_string (S.concat " " parts); print_string " | "; print_string st; print_newline ()

let do_op k (args : string list) =
  let i = Hashtbl.find insts k in
  let c = i.cfg in
  let s = i.w.Layer.w_l in
  let setl s' = i.w <- { i.w with Layer.w_l = s' } in
  match args with
  | ["send"; t; hex] ->
      let data = hex_to_bytes hex in
      let g = { g_items = data; g_fill = None } in
      let (s', r) = Layer.send c s g (z_of_int (L.length data)) (tat_of t) in
      setl s'; out_line [] [ (match r with Layer.SendOk -> "send:ok" | Layer.SendValueError -> "send:valueerror") ] (status s')
  | ["sendgen"; t; size; hex; fill] ->
      let g = { g_items = hex_to_bytes hex; g_fill = zopt fill } in
      let (s', r) = Layer.send c s g (zi size) (tat_of t) in
      setl s'; out_line [] [ (match r with Layer.SendOk -> "send:ok" | Layer.SendValueError -> "send:valueerror") ] (status s')
  | ["rx"; id; ext; hex] ->
      let f = { f_id = z_of_int (int_of_string id); f_ext = bool_of ext; f_data = hex_to_bytes hex;
                f_dlc = Z0; f_fd = false; f_brs = false } in
      i.w <- { i.w with Layer.w_inbox = i.w.Layer.w_inbox @ [f] };
      out_line [] [] (status s)
  | ["proc"; dorx; dotx] ->
      let (((w', evs), st), e) = Layer.process !fuel c (bool_of dorx) (bool_of dotx) i.w in
      i.w <- w';
      let extra = [ Printf.sprintf "stats:%d,%d,%d,%d" (int_of_z st.Layer.st_received) (int_of_z st.Layer.st_processed)
                      (int_of_z st.Layer.st_sent) (int_of_z st.Layer.st_frames) ] in
      let extra = match e with
        | Layer.LOutOfFuel -> extra @ ["outoffuel"] | _ -> extra in
      out_line evs extra (status w'.Layer.w_l)
  | ["tick"; ns] -> let s' = Layer.tick (zi ns) s in setl s'; out_line [] [] (status s')
  | ["recv"] ->
      let (s', r) = Layer.recv s in
      setl s'; out_line [] [ (match r with None -> "recv:none" | Some d -> "recv:" ^ bytes_to_hex d) ] (status s')
  | ["stop_sending"] -> let (s', evs) = Layer.stop_sending false s in setl s'; out_line evs [] (status s')
  | ["stop_receiving"] -> let s' = Layer.stop_receiving s in setl s'; out_line [] [] (status s')
  | ["reset"] -> let (s', evs) = Layer.reset c s in setl s'; out_line evs [] (status s')
  | _ -> failwith ("op " ^ S.concat " " args)

(* ---- threaded wrapper model (Model/Threaded.v): lifecycle operations on instance k ---- *)
let tls : (int, Threaded.tl) Hashtbl.t = Hashtbl.create 7
let rec int_of_nat = function Datatypes.O -> 0 | Datatypes.S n -> 1 + int_of_nat n
let do_tl k (args : string list) =
  let i = Hashtbl.find insts k in
  let c = i.cfg in
  match args with
  | ["init"; t0] -> Hashtbl.replace tls k (Threaded.tl_init c (zi t0)); print_endline "ok"
  | _ ->
    let s = Hashtbl.find tls k in
    let op = match args with
      | ["start"] -> Threaded.LStart | ["stop"] -> Threaded.LStop
      | ["send"; t; hex] ->
          let data = hex_to_bytes hex in
          Threaded.LSend ({ g_items = data; g_fill = None }, z_of_int (L.length data), tat_of t)
      | ["recv"] -> Threaded.LRecv | ["stop_sending"] -> Threaded.LStopSending
      | ["stop_receiving"] -> Threaded.LStopReceiving
      | ["process"] -> Threaded.LProcess | ["reset"] -> Threaded.LReset
      | ["worker"; dorx] -> Threaded.LWorker (bool_of dorx)
      | ["deliver"; id; ext; hex] ->
          Threaded.LDeliver { f_id = z_of_int (int_of_string id); f_ext = bool_of ext; f_data = hex_to_bytes hex;
                              f_dlc = Z0; f_fd = false; f_brs = false }
      | ["tick"; ns] -> Threaded.LTick (zi ns)
      | _ -> failwith ("tl op " ^ S.concat " " args) in
    let ((s', out), evs) = Threaded.lstep !fuel c s op in
    Hashtbl.replace tls k s';
    let o = match out with
      | Threaded.LOk -> "ok" | Threaded.LRuntimeError -> "runtimeerror" | Threaded.LValueError -> "valueerror"
      | Threaded.LGot None -> "got:none" | Threaded.LGot (Some d) -> "got:" ^ bytes_to_hex d in
    let l = s'.Threaded.t_w.Layer.w_l in
    Printf.printf "%s %s | started=%s threads=%d inbox=%d %s\n" o (S.concat " " (L.map event_str evs))
      (b01 s'.Threaded.t_started) (int_of_nat s'.Threaded.t_threads) (L.length s'.Threaded.t_w.Layer.w_inbox) (status l)

(* merge of per-thread payload lists under a schedule: M c0,c1,.. s0,s1,.. -> "i:k ..." *)
let do_merge (args : string list) =
  match args with
  | [counts; sched] ->
      let ints s = if s = "-" then [] else L.map int_of_string (S.split_on_char ',' s) in
      let pend = L.map (fun n -> L.init n (fun k -> z_of_int k)) (ints counts) in
      let sch = L.map (fun i -> nat_of_int i Datatypes.O) (ints sched) in
      let (q, _) = Threaded.run_sched sch pend [] in
      print_endline (S.concat " " (L.map (fun (i, k) -> Printf.sprintf "%d:%d" (int_of_nat i) (int_of_z k)) q))
  | _ -> failwith "merge"

let opt_str = function None -> "none" | Some z -> string_of_int (int_of_z z)

let do_query (args : string list) =
  match args with
  | "isforme" :: id :: ext :: hex :: a ->
      let f = { f_id = z_of_int (int_of_string id); f_ext = bool_of ext; f_data = hex_to_bytes hex;
                f_dlc = Z0; f_fd = false; f_brs = false } in
      print_endline (b01 (Address.is_for_me (addr_of a) f))
  | "validate" :: a -> print_endline (b01 (Address.addr_validate (addr_of a)))
  | "ids" :: a ->
      let a = addr_of a in
      Printf.printf "%d %d %d %d %s %d %s %s\n"
        (int_of_z (Address.tx_arb_id a Physical)) (int_of_z (Address.tx_arb_id a Functional))
        (int_of_z (Address.rx_arb_id a Physical)) (int_of_z (Address.rx_arb_id a Functional))
        (bytes_to_hex (Address.tx_prefix a)) (int_of_z (Address.rx_prefix_size a))
        (opt_str (Address.tx_ext_byte a)) (opt_str (Address.rx_ext_byte a))
  | ["decode"; hex; start] ->
      (match Pdu.pdu_decode (hex_to_bytes hex) (zi start) with
       | None -> print_endline "invalid"
       | Some d ->
           let p = match d.Pdu.d_pdu with
             | Pdu.PSF (esc, len, data) -> Printf.sprintf "SF %s %d %s" (b01 esc) (int_of_z len) (bytes_to_hex data)
             | Pdu.PFF (esc, len, data) -> Printf.sprintf "FF %s %d %s" (b01 esc) (int_of_z len) (bytes_to_hex data)
             | Pdu.PCF (sn, data) -> Printf.sprintf "CF %d %s" (int_of_z sn) (bytes_to_hex data)
             | Pdu.PFC (fs, bs, st) -> Printf.sprintf "FC %d %d %d" (int_of_z fs) (int_of_z bs) (int_of_z st) in
           Printf.printf "%s candl=%d rxdl=%d\n" p (int_of_z d.Pdu.d_can_dl) (int_of_z d.Pdu.d_rx_dl))
  | ["seg"; t; hex] ->
      (* reference segmentation (Spec/Segment.v) under the current configuration (P / TXA lines) *)
      let txa = match !cur_txa with Some a -> a | None -> failwith "no TXA" in
      let c = { c_p = !cur_p; c_txa = txa; c_rxa = txa } in
      let tt = match tat_of t with Some x -> x | None -> !cur_p.p_default_tat in
      let fs = Segment.seg c tt (hex_to_bytes hex) in
      print_endline (S.concat " " (L.map frame_str fs))
  | ["fc"; status] ->
      (* reference Flow Control frame of the current configuration: Spec/Segment.v spec_frame *)
      let txa = match !cur_txa with Some a -> a | None -> failwith "no TXA" in
      let c = { c_p = !cur_p; c_txa = txa; c_rxa = txa } in
      let d = Address.tx_prefix txa @ [z_of_int (0x30 + int_of_string status); !cur_p.p_blocksize; !cur_p.p_stmin] in
      print_endline (frame_str (Segment.spec_frame c (Address.tx_arb_id txa Physical) d))
  | _ -> failwith ("query " ^ S.concat " " args)

(* ---- sockets: the wrapper model (Model/Sock.v) and the kernel interpretation (Spec/Kernel.v) ---- *)
let wsock = ref Sock.wsock0
let kern = ref Kernel.kinit
let pyv_of s = if s = "-" then Sock.VNone else if s = "x" then Sock.VOther else Sock.VInt (zi s)
let call_str = function
  | Kernel.SetOpt (l, o, b) -> Printf.sprintf "set:%d:%d:%s" (int_of_z l) (int_of_z o) (bytes_to_hex b)
  | Kernel.Bind (r, t) -> Printf.sprintf "bind:%d:%d" (int_of_z r) (int_of_z t)
let wres_str = function
  | Sock.ROk calls -> S.concat " " ("ok" :: L.map call_str calls)
  | Sock.RValueError -> "valueerror"
  | Sock.RRuntimeError -> "runtimeerror"
let kstate_str (k : Kernel.kstate) =
  Printf.sprintf "flags=%d txtime=%d ext=%d txpad=%d rxpad=%d rxext=%d bs=%d stmin=%d wft=%d mtu=%d txdl=%d llflags=%d txstmin=%d bound=%s"
    (int_of_z k.Kernel.k_flags) (int_of_z k.Kernel.k_txtime) (int_of_z k.Kernel.k_ext) (int_of_z k.Kernel.k_txpad)
    (int_of_z k.Kernel.k_rxpad) (int_of_z k.Kernel.k_rxext) (int_of_z k.Kernel.k_bs) (int_of_z k.Kernel.k_stmin)
    (int_of_z k.Kernel.k_wft) (int_of_z k.Kernel.k_mtu) (int_of_z k.Kernel.k_txdl) (int_of_z k.Kernel.k_llflags)
    (int_of_z k.Kernel.k_txstmin)
    (match k.Kernel.k_bound with None -> "none" | Some (r, t) -> Printf.sprintf "%d,%d" (int_of_z r) (int_of_z t))
let kaddr_str (k : Kernel.kstate) =
  Printf.sprintf "txid=%s prefix=%s rxbyte=%s"
    (match Kernel.kernel_tx_id k with None -> "none" | Some (i, e) -> Printf.sprintf "%d/%s" (int_of_z i) (b01 e))
    (bytes_to_hex (Kernel.kernel_tx_prefix k)) (opt_str (Kernel.kernel_rx_byte k))
let rec split_at_bar acc = function
  | [] -> (L.rev acc, [])
  | "|" :: r -> (L.rev acc, r)
  | x :: r -> split_at_bar (x :: acc) r

let do_sock (args : string list) =
  let step (w, r) = wsock := w; print_endline (wres_str r) in
  match args with
  | ["reset"] -> wsock := Sock.wsock0; print_endline "ok"
  | ["setopts"; a1; a2; a3; a4; a5; a6; a7] ->
      step (Sock.w_set_opts !wsock (pyv_of a1) (pyv_of a2) (pyv_of a3) (pyv_of a4) (pyv_of a5) (pyv_of a6) (pyv_of a7))
  | ["setfc"; a1; a2; a3] -> step (Sock.w_set_fc_opts !wsock (pyv_of a1) (pyv_of a2) (pyv_of a3))
  | ["setll"; a1; a2; a3] -> step (Sock.w_set_ll_opts !wsock (pyv_of a1) (pyv_of a2) (pyv_of a3))
  | "bind" :: asym :: rest ->
      let (t, r) = split_at_bar [] rest in
      let txa = addr_of t in
      let rxa = if r = [] then txa else addr_of r in
      step (Sock.w_bind !wsock txa rxa (bool_of asym))
  | ["send"] -> print_endline (wres_str (Sock.w_send !wsock))
  | ["recv"] -> print_endline (wres_str (Sock.w_recv !wsock))
  | ["close"] -> wsock := Sock.w_close !wsock; print_endline "ok"
  | ["state"] -> print_endline (kstate_str !wsock.Sock.w_k)
  | ["addr"] -> print_endline (kaddr_str !wsock.Sock.w_k)
  | _ -> failwith "sock"

(* ---- Params.validate on Python values: tokens  none | i:<int> | b:0/1 | f:<num>/<den> | nan | str | obj ---- *)
let pv_of s =
  if s = "none" then Params.PNone else if s = "nan" then Params.PNonFinite else if s = "str" then Params.PStr
  else if s = "obj" then Params.POther
  else match S.split_on_char ':' s with
    | ["i"; v] -> Params.PInt (zi v)
    | ["b"; v] -> Params.PBool (bool_of v)
    | ["f"; v] -> (match S.split_on_char '/' v with
        | [n; d] -> Params.PFloat { QArith_base.coq_Qnum = zi n; QArith_base.coq_Qden = pos_of_int (int_of_string d) }
        | _ -> failwith "float")
    | _ -> failwith ("pv " ^ s)
let do_validate = function
  | [a1; a2; a3; a4; a5; a6; a7; a8; a9; a10; a11; a12; a13; a14; a15; a16; a17; a18] ->
      let p = { Params.q_stmin = pv_of a1; q_blocksize = pv_of a2; q_override = pv_of a3; q_tbs = pv_of a4; q_tcr = pv_of a5;
                q_padding = pv_of a6; q_wftmax = pv_of a7; q_tx_dl = pv_of a8; q_min_len = pv_of a9; q_max_frame_size = pv_of a10;
                q_can_fd = pv_of a11; q_brs = pv_of a12; q_tat = pv_of a13; q_bitrate = pv_of a14; q_window = pv_of a15;
                q_lim_enable = pv_of a16; q_listen = pv_of a17; q_blocking = pv_of a18 } in
      print_endline (b01 (Params.validate p))
  | _ -> failwith "validate"

let do_kern (args : string list) =
  match args with
  | ["reset"] -> kern := Kernel.kinit; print_endline "ok"
  | ["set"; l; o; hex] -> kern := Kernel.kapply !kern (Kernel.SetOpt (zi l, zi o, hex_to_bytes hex)); print_endline (kstate_str !kern)
  | ["bind"; r; t] -> kern := Kernel.kapply !kern (Kernel.Bind (zi r, zi t)); print_endline (kstate_str !kern)
  | ["state"] -> print_endline (kstate_str !kern)
  | ["addr"] -> print_endline (kaddr_str !kern)
  | ["accepts"; id; ext; hex] -> print_endline (b01 (Kernel.kernel_accepts !kern (zi id) (bool_of ext) (hex_to_bytes hex)))
  | _ -> failwith "kern"


(* ---- two layers joined by a link (Model/Joint.v): user-level calls on the pair ---- *)
let jnet : (Joint.net * cfg * cfg) option ref = ref None
let side_of = function "A" -> Joint.SA | "B" -> Joint.SB | s -> failwith ("side " ^ s)
let side_str = function Joint.SA -> "A" | Joint.SB -> "B"
let jev_str = function
  | Joint.JE (sd, e) -> side_str sd ^ ":" ^ event_str e
  | Joint.JSent (sd, p) -> side_str sd ^ ":sent:" ^ bytes_to_hex p
  | Joint.JRecv (sd, p) -> side_str sd ^ ":recv:" ^ bytes_to_hex p
let do_joint (args : string list) =
  match args with
  | ["init"; ka; kb] ->
      let a = Hashtbl.find insts (int_of_string ka) and b = Hashtbl.find insts (int_of_string kb) in
      jnet := Some ({ Joint.nA = a.w.Layer.w_l; Joint.nB = b.w.Layer.w_l; Joint.inA = []; Joint.inB = [] }, a.cfg, b.cfg);
      print_endline "ok"
  | _ ->
      let (n, ca, cb) = match !jnet with Some x -> x | None -> failwith "no joint net" in
      let call = match args with
        | ["proc"; sd; dorx; dotx] -> Joint.CProcess (side_of sd, !fuel, bool_of dorx, bool_of dotx)
        | ["send"; sd; t; hex] ->
            let data = hex_to_bytes hex in
            Joint.CSend (side_of sd, { g_items = data; g_fill = None }, z_of_int (L.length data), tat_of t)
        | ["recv"; sd] -> Joint.CRecv (side_of sd)
        | ["tick"; sd; ns] -> Joint.CTick (side_of sd, zi ns)
        | _ -> failwith ("joint " ^ S.concat " " args) in
      let (n', evs) = Joint.cstep ca cb n call in
      jnet := Some (n', ca, cb);
      Printf.printf "%s | inA=%d inB=%d A[%s] B[%s]\n" (S.concat " " (L.map jev_str evs))
        (L.length n'.Joint.inA) (L.length n'.Joint.inB) (status n'.Joint.nA) (status n'.Joint.nB)

let () =
  try
    while true do
      let line = input_line stdin in
      let toks = L.filter (fun t -> t <> "") (S.split_on_char ' ' line) in
      (match toks with
       | [] -> ()
       | "BEGIN" :: _ -> Hashtbl.reset insts; cur_p := default_params; cur_txa := None; cur_rxa := None
       | ["NEWCFG"] -> cur_p := default_params; cur_txa := None; cur_rxa := None
       | ["FUEL"; n] -> fuel := nat_of_int (int_of_string n) Datatypes.O
       | ["P"; k; v] -> cur_p := set_param !cur_p k v
       | "TXA" :: a -> cur_txa := Some (addr_of a)
       | "RXA" :: a -> cur_rxa := Some (addr_of a)
       | ["INIT"; k; t0] ->
           let txa = match !cur_txa with Some a -> a | None -> failwith "no TXA" in
           let rxa = match !cur_rxa with Some a -> a | None -> txa in
           let c = { c_p = !cur_p; c_txa = txa; c_rxa = rxa } in
           Hashtbl.replace insts (int_of_string k)
             { cfg = c; w = { Layer.w_l = Layer.init_layer c (zi t0); Layer.w_inbox = [] } }
       | "OP" :: k :: args -> do_op (int_of_string k) args
       | "Q" :: args -> do_query args
       | "S" :: args -> do_sock args
       | "K" :: args -> do_kern args
       | "V" :: args -> do_validate args
       | "T" :: k :: args -> do_tl (int_of_string k) args
       | "M" :: args -> do_merge args
       | "J" :: args -> do_joint args
       | ["ECHO"; s] -> print_endline s
       | _ -> failwith ("line " ^ line));
      flush stdout
    done
  with End_of_file -> ()
