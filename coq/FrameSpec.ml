open BinInt
open BinNums
open Types

(** val dlc_table : coq_Z -> coq_Z **)

let dlc_table n =
  if Z.leb n (Zpos (Coq_xO (Coq_xO (Coq_xO Coq_xH))))
  then n
  else if Z.eqb n (Zpos (Coq_xO (Coq_xO (Coq_xI Coq_xH))))
       then Zpos (Coq_xI (Coq_xO (Coq_xO Coq_xH)))
       else if Z.eqb n (Zpos (Coq_xO (Coq_xO (Coq_xO (Coq_xO Coq_xH)))))
            then Zpos (Coq_xO (Coq_xI (Coq_xO Coq_xH)))
            else if Z.eqb n (Zpos (Coq_xO (Coq_xO (Coq_xI (Coq_xO Coq_xH)))))
                 then Zpos (Coq_xI (Coq_xI (Coq_xO Coq_xH)))
                 else if Z.eqb n (Zpos (Coq_xO (Coq_xO (Coq_xO (Coq_xI
                           Coq_xH)))))
                      then Zpos (Coq_xO (Coq_xO (Coq_xI Coq_xH)))
                      else if Z.eqb n (Zpos (Coq_xO (Coq_xO (Coq_xO (Coq_xO
                                (Coq_xO Coq_xH))))))
                           then Zpos (Coq_xI (Coq_xO (Coq_xI Coq_xH)))
                           else if Z.eqb n (Zpos (Coq_xO (Coq_xO (Coq_xO
                                     (Coq_xO (Coq_xI Coq_xH))))))
                                then Zpos (Coq_xO (Coq_xI (Coq_xI Coq_xH)))
                                else Zpos (Coq_xI (Coq_xI (Coq_xI Coq_xH)))

(** val next_fd : coq_Z -> coq_Z **)

let next_fd n =
  if Z.leb n (Zpos (Coq_xO (Coq_xO (Coq_xO Coq_xH))))
  then n
  else if Z.leb n (Zpos (Coq_xO (Coq_xO (Coq_xI Coq_xH))))
       then Zpos (Coq_xO (Coq_xO (Coq_xI Coq_xH)))
       else if Z.leb n (Zpos (Coq_xO (Coq_xO (Coq_xO (Coq_xO Coq_xH)))))
            then Zpos (Coq_xO (Coq_xO (Coq_xO (Coq_xO Coq_xH))))
            else if Z.leb n (Zpos (Coq_xO (Coq_xO (Coq_xI (Coq_xO Coq_xH)))))
                 then Zpos (Coq_xO (Coq_xO (Coq_xI (Coq_xO Coq_xH))))
                 else if Z.leb n (Zpos (Coq_xO (Coq_xO (Coq_xO (Coq_xI
                           Coq_xH)))))
                      then Zpos (Coq_xO (Coq_xO (Coq_xO (Coq_xI Coq_xH))))
                      else if Z.leb n (Zpos (Coq_xO (Coq_xO (Coq_xO (Coq_xO
                                (Coq_xO Coq_xH))))))
                           then Zpos (Coq_xO (Coq_xO (Coq_xO (Coq_xO (Coq_xO
                                  Coq_xH)))))
                           else if Z.leb n (Zpos (Coq_xO (Coq_xO (Coq_xO
                                     (Coq_xO (Coq_xI Coq_xH))))))
                                then Zpos (Coq_xO (Coq_xO (Coq_xO (Coq_xO
                                       (Coq_xI Coq_xH)))))
                                else Zpos (Coq_xO (Coq_xO (Coq_xO (Coq_xO
                                       (Coq_xO (Coq_xO Coq_xH))))))

(** val pad_target : params -> coq_Z -> coq_Z **)

let pad_target p n =
  if Z.eqb p.p_tx_dl (Zpos (Coq_xO (Coq_xO (Coq_xO Coq_xH))))
  then (match p.p_tx_min_len with
        | Some m -> Z.max n m
        | None ->
          (match p.p_tx_padding with
           | Some _ -> Zpos (Coq_xO (Coq_xO (Coq_xO Coq_xH)))
           | None -> n))
  else (match p.p_tx_min_len with
        | Some m -> Z.max m (next_fd n)
        | None -> next_fd n)

(** val pad_byte : params -> coq_Z **)

let pad_byte p =
  match p.p_tx_padding with
  | Some b -> b
  | None ->
    Zpos (Coq_xO (Coq_xO (Coq_xI (Coq_xI (Coq_xO (Coq_xO (Coq_xI Coq_xH)))))))
