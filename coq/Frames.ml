open Address
open BinInt
open BinNums
open Datatypes
open Prelude
open Types

(** val nearest_fd_size : coq_Z -> coq_Z option **)

let nearest_fd_size size =
  if Z.leb size (Zpos (Coq_xO (Coq_xO (Coq_xO Coq_xH))))
  then Some size
  else if Z.leb size (Zpos (Coq_xO (Coq_xO (Coq_xI Coq_xH))))
       then Some (Zpos (Coq_xO (Coq_xO (Coq_xI Coq_xH))))
       else if Z.leb size (Zpos (Coq_xO (Coq_xO (Coq_xO (Coq_xO Coq_xH)))))
            then Some (Zpos (Coq_xO (Coq_xO (Coq_xO (Coq_xO Coq_xH)))))
            else if Z.leb size (Zpos (Coq_xO (Coq_xO (Coq_xI (Coq_xO
                      Coq_xH)))))
                 then Some (Zpos (Coq_xO (Coq_xO (Coq_xI (Coq_xO Coq_xH)))))
                 else if Z.leb size (Zpos (Coq_xO (Coq_xO (Coq_xO (Coq_xI
                           Coq_xH)))))
                      then Some (Zpos (Coq_xO (Coq_xO (Coq_xO (Coq_xI
                             Coq_xH)))))
                      else if Z.leb size (Zpos (Coq_xO (Coq_xO (Coq_xO
                                (Coq_xO (Coq_xO Coq_xH))))))
                           then Some (Zpos (Coq_xO (Coq_xO (Coq_xO (Coq_xO
                                  (Coq_xO Coq_xH))))))
                           else if Z.leb size (Zpos (Coq_xO (Coq_xO (Coq_xO
                                     (Coq_xO (Coq_xI Coq_xH))))))
                                then Some (Zpos (Coq_xO (Coq_xO (Coq_xO
                                       (Coq_xO (Coq_xI Coq_xH))))))
                                else if Z.leb size (Zpos (Coq_xO (Coq_xO
                                          (Coq_xO (Coq_xO (Coq_xO (Coq_xO
                                          Coq_xH)))))))
                                     then Some (Zpos (Coq_xO (Coq_xO (Coq_xO
                                            (Coq_xO (Coq_xO (Coq_xO
                                            Coq_xH)))))))
                                     else None

(** val dlc_of_fdlen : coq_Z -> coq_Z option **)

let dlc_of_fdlen fdlen =
  if (&&) (Z.leb (Zpos (Coq_xO Coq_xH)) fdlen)
       (Z.leb fdlen (Zpos (Coq_xO (Coq_xO (Coq_xO Coq_xH)))))
  then Some fdlen
  else if Z.eqb fdlen (Zpos (Coq_xO (Coq_xO (Coq_xI Coq_xH))))
       then Some (Zpos (Coq_xI (Coq_xO (Coq_xO Coq_xH))))
       else if Z.eqb fdlen (Zpos (Coq_xO (Coq_xO (Coq_xO (Coq_xO Coq_xH)))))
            then Some (Zpos (Coq_xO (Coq_xI (Coq_xO Coq_xH))))
            else if Z.eqb fdlen (Zpos (Coq_xO (Coq_xO (Coq_xI (Coq_xO
                      Coq_xH)))))
                 then Some (Zpos (Coq_xI (Coq_xI (Coq_xO Coq_xH))))
                 else if Z.eqb fdlen (Zpos (Coq_xO (Coq_xO (Coq_xO (Coq_xI
                           Coq_xH)))))
                      then Some (Zpos (Coq_xO (Coq_xO (Coq_xI Coq_xH))))
                      else if Z.eqb fdlen (Zpos (Coq_xO (Coq_xO (Coq_xO
                                (Coq_xO (Coq_xO Coq_xH))))))
                           then Some (Zpos (Coq_xI (Coq_xO (Coq_xI Coq_xH))))
                           else if Z.eqb fdlen (Zpos (Coq_xO (Coq_xO (Coq_xO
                                     (Coq_xO (Coq_xI Coq_xH))))))
                                then Some (Zpos (Coq_xO (Coq_xI (Coq_xI
                                       Coq_xH))))
                                else if Z.eqb fdlen (Zpos (Coq_xO (Coq_xO
                                          (Coq_xO (Coq_xO (Coq_xO (Coq_xO
                                          Coq_xH)))))))
                                     then Some (Zpos (Coq_xI (Coq_xI (Coq_xI
                                            Coq_xH))))
                                     else None

(** val get_dlc_tx : params -> coq_Z list -> coq_Z option **)

let get_dlc_tx p data =
  match nearest_fd_size (zlen data) with
  | Some fdlen ->
    if (&&) (Z.eqb p.p_tx_dl (Zpos (Coq_xO (Coq_xO (Coq_xO Coq_xH)))))
         ((||) (Z.ltb fdlen (Zpos (Coq_xO Coq_xH)))
           (Z.ltb (Zpos (Coq_xO (Coq_xO (Coq_xO Coq_xH)))) fdlen))
    then None
    else dlc_of_fdlen fdlen
  | None -> None

(** val padding_byte : params -> coq_Z **)

let padding_byte p =
  Z.coq_land
    (match p.p_tx_padding with
     | Some b -> b
     | None ->
       Zpos (Coq_xO (Coq_xO (Coq_xI (Coq_xI (Coq_xO (Coq_xO (Coq_xI
         Coq_xH)))))))) (Zpos (Coq_xI (Coq_xI (Coq_xI (Coq_xI (Coq_xI (Coq_xI
    (Coq_xI Coq_xH))))))))

(** val pad_message_data : params -> coq_Z list -> coq_Z list option **)

let pad_message_data p d =
  let len = zlen d in
  let pad_to = fun target ->
    if Z.ltb len target
    then app d (zrepeat (padding_byte p) (Z.sub target len))
    else d
  in
  if Z.eqb p.p_tx_dl (Zpos (Coq_xO (Coq_xO (Coq_xO Coq_xH))))
  then (match p.p_tx_min_len with
        | Some m -> Some (pad_to m)
        | None ->
          (match p.p_tx_padding with
           | Some _ -> Some (pad_to (Zpos (Coq_xO (Coq_xO (Coq_xO Coq_xH)))))
           | None -> Some d))
  else if Z.ltb (Zpos (Coq_xO (Coq_xO (Coq_xO Coq_xH)))) p.p_tx_dl
       then (match nearest_fd_size len with
             | Some n ->
               (match p.p_tx_min_len with
                | Some m -> Some (pad_to (Z.max m n))
                | None -> Some (pad_to n))
             | None -> None)
       else Some d

(** val make_tx_msg : cfg -> coq_Z -> coq_Z list -> frame option **)

let make_tx_msg c arb_id d =
  match pad_message_data c.c_p d with
  | Some d' ->
    (match get_dlc_tx c.c_p d' with
     | Some dlc ->
       Some { f_id = arb_id; f_ext = (c_tx_ext c); f_data = d'; f_dlc = dlc;
         f_fd = c.c_p.p_can_fd; f_brs = c.c_p.p_brs }
     | None -> None)
  | None -> None

(** val craft_fc_data : coq_Z -> coq_Z -> coq_Z -> coq_Z list **)

let craft_fc_data fs bs st =
  (Z.coq_lor (Zpos (Coq_xO (Coq_xO (Coq_xO (Coq_xO (Coq_xI Coq_xH))))))
    (Z.coq_land fs (Zpos (Coq_xI (Coq_xI (Coq_xI Coq_xH)))))) :: ((Z.coq_land
                                                                    bs (Zpos
                                                                    (Coq_xI
                                                                    (Coq_xI
                                                                    (Coq_xI
                                                                    (Coq_xI
                                                                    (Coq_xI
                                                                    (Coq_xI
                                                                    (Coq_xI
                                                                    Coq_xH))))))))) :: (
    (Z.coq_land st (Zpos (Coq_xI (Coq_xI (Coq_xI (Coq_xI (Coq_xI (Coq_xI
      (Coq_xI Coq_xH))))))))) :: []))

(** val make_flow_control : cfg -> coq_Z -> frame option **)

let make_flow_control c fs =
  make_tx_msg c (c_tx_id c Physical)
    (app (c_tx_prefix c) (craft_fc_data fs c.c_p.p_blocksize c.c_p.p_stmin))
