open Address
open BinInt
open BinNums
open Datatypes
open Prelude
open Types

val nearest_fd_size : coq_Z -> coq_Z option

val dlc_of_fdlen : coq_Z -> coq_Z option

val get_dlc_tx : params -> coq_Z list -> coq_Z option

val padding_byte : params -> coq_Z

val pad_message_data : params -> coq_Z list -> coq_Z list option

val make_tx_msg : cfg -> coq_Z -> coq_Z list -> frame option

val craft_fc_data : coq_Z -> coq_Z -> coq_Z -> coq_Z list

val make_flow_control : cfg -> coq_Z -> frame option
