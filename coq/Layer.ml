open Address
open BinInt
open BinNums
open Datatypes
open Frames
open List
open Nat
open Pdu
open Prelude
open RecordSet
open Types

(** val new_timer : coq_Z -> timer **)

let new_timer timeout =
  { t_start = None; t_timeout = timeout }

(** val timer_stop : timer -> timer **)

let timer_stop t =
  set (fun t0 -> t0.t_start) (fun f ->
    let o = fun r -> f r.t_start in
    (fun x -> { t_start = (o x); t_timeout = x.t_timeout })) (fun _ -> None) t

(** val timer_start : coq_Z -> timer -> timer **)

let timer_start nw t =
  set (fun t0 -> t0.t_start) (fun f ->
    let o = fun r -> f r.t_start in
    (fun x -> { t_start = (o x); t_timeout = x.t_timeout })) (fun _ -> Some
    nw) t

(** val timer_timed_out : coq_Z -> timer -> bool **)

let timer_timed_out nw t =
  match t.t_start with
  | Some s -> (||) (Z.ltb t.t_timeout (Z.sub nw s)) (Z.eqb t.t_timeout Z0)
  | None -> false

(** val timer_remaining : coq_Z -> timer -> coq_Z **)

let timer_remaining nw t =
  match t.t_start with
  | Some s -> Z.max Z0 (Z.sub t.t_timeout (Z.sub nw s))
  | None -> Z0

(** val stmin_ns : coq_Z -> coq_Z **)

let stmin_ns b =
  if (&&) (Z.leb Z0 b)
       (Z.leb b (Zpos (Coq_xI (Coq_xI (Coq_xI (Coq_xI (Coq_xI (Coq_xI
         Coq_xH))))))))
  then Z.mul b (Zpos (Coq_xO (Coq_xO (Coq_xO (Coq_xO (Coq_xO (Coq_xO (Coq_xI
         (Coq_xO (Coq_xO (Coq_xI (Coq_xO (Coq_xO (Coq_xO (Coq_xO (Coq_xI
         (Coq_xO (Coq_xI (Coq_xI (Coq_xI Coq_xH))))))))))))))))))))
  else if (&&)
            (Z.leb (Zpos (Coq_xI (Coq_xO (Coq_xO (Coq_xO (Coq_xI (Coq_xI
              (Coq_xI Coq_xH)))))))) b)
            (Z.leb b (Zpos (Coq_xI (Coq_xO (Coq_xO (Coq_xI (Coq_xI (Coq_xI
              (Coq_xI Coq_xH)))))))))
       then Z.mul
              (Z.sub b (Zpos (Coq_xO (Coq_xO (Coq_xO (Coq_xO (Coq_xI (Coq_xI
                (Coq_xI Coq_xH))))))))) (Zpos (Coq_xO (Coq_xO (Coq_xO (Coq_xO
              (Coq_xO (Coq_xI (Coq_xO (Coq_xI (Coq_xO (Coq_xI (Coq_xI (Coq_xO
              (Coq_xO (Coq_xO (Coq_xO (Coq_xI Coq_xH)))))))))))))))))
       else Z0

(** val gen_take : coq_Z -> gen -> coq_Z list * gen **)

let gen_take n g =
  let k = Z.to_nat n in
  let have = firstn k g.g_items in
  let rest = skipn k g.g_items in
  (match g.g_fill with
   | Some b ->
     ((app have (repeat b (sub k (length have)))), { g_items = rest; g_fill =
       (Some b) })
   | None -> (have, { g_items = rest; g_fill = None }))

(** val r_remaining : request -> coq_Z **)

let r_remaining r =
  Z.sub r.r_size r.r_consumed

(** val r_is_depleted : request -> bool **)

let r_is_depleted r =
  (||) (Z.leb (r_remaining r) Z0) r.r_depleted

(** val consume : coq_Z -> bool -> request -> coq_Z list option * request **)

let consume size exact r =
  let (data, g') = gen_take size r.r_gen in
  let r1 =
    set (fun r0 -> r0.r_consumed) (fun f ->
      let z = fun r0 -> f r0.r_consumed in
      (fun x -> { r_id = x.r_id; r_gen = x.r_gen; r_size = x.r_size;
      r_consumed = (z x); r_depleted = x.r_depleted; r_tat = x.r_tat }))
      (fun _ -> Z.add r.r_consumed (zlen data))
      (set (fun r0 -> r0.r_gen) (fun f ->
        let g = fun r0 -> f r0.r_gen in
        (fun x -> { r_id = x.r_id; r_gen = (g x); r_size = x.r_size;
        r_consumed = x.r_consumed; r_depleted = x.r_depleted; r_tat =
        x.r_tat })) (fun _ -> g') r)
  in
  if Z.ltb r1.r_size r1.r_consumed
  then (None, r1)
  else if Z.ltb (zlen data) size
       then let r2 =
              set (fun r0 -> r0.r_depleted) (fun f ->
                let b = fun r0 -> f r0.r_depleted in
                (fun x -> { r_id = x.r_id; r_gen = x.r_gen; r_size =
                x.r_size; r_consumed = x.r_consumed; r_depleted = (b x);
                r_tat = x.r_tat })) (fun _ -> true) r1
            in
            if exact then (None, r2) else ((Some data), r2)
       else ((Some data), r1)

(** val coq_NO_LIMIT : coq_Z **)

let coq_NO_LIMIT =
  Zpos (Coq_xI (Coq_xI (Coq_xI (Coq_xI (Coq_xI (Coq_xI (Coq_xI (Coq_xI
    (Coq_xI (Coq_xI (Coq_xI (Coq_xI (Coq_xI (Coq_xI (Coq_xI (Coq_xI (Coq_xI
    (Coq_xI (Coq_xI (Coq_xI (Coq_xI (Coq_xI (Coq_xI (Coq_xI (Coq_xI (Coq_xI
    (Coq_xI (Coq_xI (Coq_xI (Coq_xI (Coq_xI
    Coq_xH)))))))))))))))))))))))))))))))

(** val coq_SLOT_NS : coq_Z **)

let coq_SLOT_NS =
  Zpos (Coq_xO (Coq_xO (Coq_xO (Coq_xO (Coq_xO (Coq_xO (Coq_xI (Coq_xO
    (Coq_xI (Coq_xI (Coq_xO (Coq_xI (Coq_xO (Coq_xO (Coq_xI (Coq_xO (Coq_xO
    (Coq_xO (Coq_xI (Coq_xI (Coq_xO (Coq_xO Coq_xH))))))))))))))))))))))

(** val lim_allowed_bytes : params -> layer -> coq_Z **)

let lim_allowed_bytes p s =
  if negb p.p_lim_enable
  then coq_NO_LIMIT
  else let num = Z.sub p.p_lim_bn (Z.mul s.lim_total p.p_lim_bd) in
       if Z.leb num Z0
       then Z0
       else Z.div num
              (Z.mul (Zpos (Coq_xO (Coq_xO (Coq_xO Coq_xH)))) p.p_lim_bd)

(** val lim_pop :
    coq_Z -> coq_Z -> coq_Z list -> coq_Z list -> coq_Z -> (coq_Z
    list * coq_Z list) * coq_Z **)

let rec lim_pop nw window times bits total =
  match times with
  | [] -> ((times, bits), total)
  | t2 :: ts ->
    (match bits with
     | [] -> ((times, bits), total)
     | b :: bs ->
       if Z.ltb window (Z.sub nw t2)
       then lim_pop nw window ts bs (Z.sub total b)
       else ((times, bits), total))

(** val lim_reset : layer -> layer **)

let lim_reset s =
  set (fun l -> l.lim_total) (fun f ->
    let z = fun r -> f r.lim_total in
    (fun x -> { now = x.now; rx_state = x.rx_state; rx_buffer = x.rx_buffer;
    rx_frame_length = x.rx_frame_length; last_seqnum = x.last_seqnum;
    rx_block_counter = x.rx_block_counter; actual_rxdl = x.actual_rxdl;
    pending_fc = x.pending_fc; pending_fc_status = x.pending_fc_status;
    timer_rx_cf = x.timer_rx_cf; rx_queue = x.rx_queue; tx_state =
    x.tx_state; tx_queue = x.tx_queue; active = x.active; tx_standby =
    x.tx_standby; last_fc = x.last_fc; remote_bs = x.remote_bs;
    tx_block_counter = x.tx_block_counter; tx_seqnum = x.tx_seqnum;
    wft_counter = x.wft_counter; tx_frame_length = x.tx_frame_length;
    timer_rx_fc = x.timer_rx_fc; timer_tx_stmin = x.timer_tx_stmin;
    lim_times = x.lim_times; lim_bits = x.lim_bits; lim_total = (z x);
    next_req_id = x.next_req_id })) (fun _ -> Z0)
    (set (fun l -> l.lim_bits) (fun f ->
      let l = fun r -> f r.lim_bits in
      (fun x -> { now = x.now; rx_state = x.rx_state; rx_buffer =
      x.rx_buffer; rx_frame_length = x.rx_frame_length; last_seqnum =
      x.last_seqnum; rx_block_counter = x.rx_block_counter; actual_rxdl =
      x.actual_rxdl; pending_fc = x.pending_fc; pending_fc_status =
      x.pending_fc_status; timer_rx_cf = x.timer_rx_cf; rx_queue =
      x.rx_queue; tx_state = x.tx_state; tx_queue = x.tx_queue; active =
      x.active; tx_standby = x.tx_standby; last_fc = x.last_fc; remote_bs =
      x.remote_bs; tx_block_counter = x.tx_block_counter; tx_seqnum =
      x.tx_seqnum; wft_counter = x.wft_counter; tx_frame_length =
      x.tx_frame_length; timer_rx_fc = x.timer_rx_fc; timer_tx_stmin =
      x.timer_tx_stmin; lim_times = x.lim_times; lim_bits = (l x);
      lim_total = x.lim_total; next_req_id = x.next_req_id })) (fun _ -> [])
      (set (fun l -> l.lim_times) (fun f ->
        let l = fun r -> f r.lim_times in
        (fun x -> { now = x.now; rx_state = x.rx_state; rx_buffer =
        x.rx_buffer; rx_frame_length = x.rx_frame_length; last_seqnum =
        x.last_seqnum; rx_block_counter = x.rx_block_counter; actual_rxdl =
        x.actual_rxdl; pending_fc = x.pending_fc; pending_fc_status =
        x.pending_fc_status; timer_rx_cf = x.timer_rx_cf; rx_queue =
        x.rx_queue; tx_state = x.tx_state; tx_queue = x.tx_queue; active =
        x.active; tx_standby = x.tx_standby; last_fc = x.last_fc; remote_bs =
        x.remote_bs; tx_block_counter = x.tx_block_counter; tx_seqnum =
        x.tx_seqnum; wft_counter = x.wft_counter; tx_frame_length =
        x.tx_frame_length; timer_rx_fc = x.timer_rx_fc; timer_tx_stmin =
        x.timer_tx_stmin; lim_times = (l x); lim_bits = x.lim_bits;
        lim_total = x.lim_total; next_req_id = x.next_req_id })) (fun _ ->
        []) s))

(** val lim_update : params -> layer -> layer **)

let lim_update p s =
  if negb p.p_lim_enable
  then lim_reset s
  else let (p0, tot) =
         lim_pop s.now p.p_lim_window_ns s.lim_times s.lim_bits s.lim_total
       in
       let (ts, bs) = p0 in
       set (fun l -> l.lim_total) (fun f ->
         let z = fun r -> f r.lim_total in
         (fun x -> { now = x.now; rx_state = x.rx_state; rx_buffer =
         x.rx_buffer; rx_frame_length = x.rx_frame_length; last_seqnum =
         x.last_seqnum; rx_block_counter = x.rx_block_counter; actual_rxdl =
         x.actual_rxdl; pending_fc = x.pending_fc; pending_fc_status =
         x.pending_fc_status; timer_rx_cf = x.timer_rx_cf; rx_queue =
         x.rx_queue; tx_state = x.tx_state; tx_queue = x.tx_queue; active =
         x.active; tx_standby = x.tx_standby; last_fc = x.last_fc;
         remote_bs = x.remote_bs; tx_block_counter = x.tx_block_counter;
         tx_seqnum = x.tx_seqnum; wft_counter = x.wft_counter;
         tx_frame_length = x.tx_frame_length; timer_rx_fc = x.timer_rx_fc;
         timer_tx_stmin = x.timer_tx_stmin; lim_times = x.lim_times;
         lim_bits = x.lim_bits; lim_total = (z x); next_req_id =
         x.next_req_id })) (fun _ -> tot)
         (set (fun l -> l.lim_bits) (fun f ->
           let l = fun r -> f r.lim_bits in
           (fun x -> { now = x.now; rx_state = x.rx_state; rx_buffer =
           x.rx_buffer; rx_frame_length = x.rx_frame_length; last_seqnum =
           x.last_seqnum; rx_block_counter = x.rx_block_counter;
           actual_rxdl = x.actual_rxdl; pending_fc = x.pending_fc;
           pending_fc_status = x.pending_fc_status; timer_rx_cf =
           x.timer_rx_cf; rx_queue = x.rx_queue; tx_state = x.tx_state;
           tx_queue = x.tx_queue; active = x.active; tx_standby =
           x.tx_standby; last_fc = x.last_fc; remote_bs = x.remote_bs;
           tx_block_counter = x.tx_block_counter; tx_seqnum = x.tx_seqnum;
           wft_counter = x.wft_counter; tx_frame_length = x.tx_frame_length;
           timer_rx_fc = x.timer_rx_fc; timer_tx_stmin = x.timer_tx_stmin;
           lim_times = x.lim_times; lim_bits = (l x); lim_total =
           x.lim_total; next_req_id = x.next_req_id })) (fun _ -> bs)
           (set (fun l -> l.lim_times) (fun f ->
             let l = fun r -> f r.lim_times in
             (fun x -> { now = x.now; rx_state = x.rx_state; rx_buffer =
             x.rx_buffer; rx_frame_length = x.rx_frame_length; last_seqnum =
             x.last_seqnum; rx_block_counter = x.rx_block_counter;
             actual_rxdl = x.actual_rxdl; pending_fc = x.pending_fc;
             pending_fc_status = x.pending_fc_status; timer_rx_cf =
             x.timer_rx_cf; rx_queue = x.rx_queue; tx_state = x.tx_state;
             tx_queue = x.tx_queue; active = x.active; tx_standby =
             x.tx_standby; last_fc = x.last_fc; remote_bs = x.remote_bs;
             tx_block_counter = x.tx_block_counter; tx_seqnum = x.tx_seqnum;
             wft_counter = x.wft_counter; tx_frame_length =
             x.tx_frame_length; timer_rx_fc = x.timer_rx_fc; timer_tx_stmin =
             x.timer_tx_stmin; lim_times = (l x); lim_bits = x.lim_bits;
             lim_total = x.lim_total; next_req_id = x.next_req_id }))
             (fun _ -> ts) s))

(** val add_last : coq_Z list -> coq_Z -> coq_Z list **)

let rec add_last l x =
  match l with
  | [] -> []
  | y :: r ->
    (match r with
     | [] -> (Z.add y x) :: []
     | _ :: _ -> y :: (add_last r x))

(** val lim_inform : params -> coq_Z -> layer -> layer **)

let lim_inform p datalen s =
  if negb p.p_lim_enable
  then s
  else let bits = Z.mul datalen (Zpos (Coq_xO (Coq_xO (Coq_xO Coq_xH)))) in
       let s1 =
         set (fun l -> l.lim_total) (fun f ->
           let z = fun r -> f r.lim_total in
           (fun x -> { now = x.now; rx_state = x.rx_state; rx_buffer =
           x.rx_buffer; rx_frame_length = x.rx_frame_length; last_seqnum =
           x.last_seqnum; rx_block_counter = x.rx_block_counter;
           actual_rxdl = x.actual_rxdl; pending_fc = x.pending_fc;
           pending_fc_status = x.pending_fc_status; timer_rx_cf =
           x.timer_rx_cf; rx_queue = x.rx_queue; tx_state = x.tx_state;
           tx_queue = x.tx_queue; active = x.active; tx_standby =
           x.tx_standby; last_fc = x.last_fc; remote_bs = x.remote_bs;
           tx_block_counter = x.tx_block_counter; tx_seqnum = x.tx_seqnum;
           wft_counter = x.wft_counter; tx_frame_length = x.tx_frame_length;
           timer_rx_fc = x.timer_rx_fc; timer_tx_stmin = x.timer_tx_stmin;
           lim_times = x.lim_times; lim_bits = x.lim_bits; lim_total = 
           (z x); next_req_id = x.next_req_id })) (fun _ ->
           Z.add s.lim_total bits) s
       in
       (match s.lim_times with
        | [] ->
          set (fun l -> l.lim_bits) (fun f ->
            let l = fun r -> f r.lim_bits in
            (fun x -> { now = x.now; rx_state = x.rx_state; rx_buffer =
            x.rx_buffer; rx_frame_length = x.rx_frame_length; last_seqnum =
            x.last_seqnum; rx_block_counter = x.rx_block_counter;
            actual_rxdl = x.actual_rxdl; pending_fc = x.pending_fc;
            pending_fc_status = x.pending_fc_status; timer_rx_cf =
            x.timer_rx_cf; rx_queue = x.rx_queue; tx_state = x.tx_state;
            tx_queue = x.tx_queue; active = x.active; tx_standby =
            x.tx_standby; last_fc = x.last_fc; remote_bs = x.remote_bs;
            tx_block_counter = x.tx_block_counter; tx_seqnum = x.tx_seqnum;
            wft_counter = x.wft_counter; tx_frame_length = x.tx_frame_length;
            timer_rx_fc = x.timer_rx_fc; timer_tx_stmin = x.timer_tx_stmin;
            lim_times = x.lim_times; lim_bits = (l x); lim_total =
            x.lim_total; next_req_id = x.next_req_id })) (fun _ ->
            bits :: [])
            (set (fun l -> l.lim_times) (fun f ->
              let l = fun r -> f r.lim_times in
              (fun x -> { now = x.now; rx_state = x.rx_state; rx_buffer =
              x.rx_buffer; rx_frame_length = x.rx_frame_length; last_seqnum =
              x.last_seqnum; rx_block_counter = x.rx_block_counter;
              actual_rxdl = x.actual_rxdl; pending_fc = x.pending_fc;
              pending_fc_status = x.pending_fc_status; timer_rx_cf =
              x.timer_rx_cf; rx_queue = x.rx_queue; tx_state = x.tx_state;
              tx_queue = x.tx_queue; active = x.active; tx_standby =
              x.tx_standby; last_fc = x.last_fc; remote_bs = x.remote_bs;
              tx_block_counter = x.tx_block_counter; tx_seqnum = x.tx_seqnum;
              wft_counter = x.wft_counter; tx_frame_length =
              x.tx_frame_length; timer_rx_fc = x.timer_rx_fc;
              timer_tx_stmin = x.timer_tx_stmin; lim_times = (l x);
              lim_bits = x.lim_bits; lim_total = x.lim_total; next_req_id =
              x.next_req_id })) (fun _ -> s.now :: []) s1)
        | _ :: _ ->
          if Z.ltb coq_SLOT_NS (Z.sub s.now (last s.lim_times Z0))
          then set (fun l -> l.lim_bits) (fun f ->
                 let l = fun r -> f r.lim_bits in
                 (fun x -> { now = x.now; rx_state = x.rx_state; rx_buffer =
                 x.rx_buffer; rx_frame_length = x.rx_frame_length;
                 last_seqnum = x.last_seqnum; rx_block_counter =
                 x.rx_block_counter; actual_rxdl = x.actual_rxdl;
                 pending_fc = x.pending_fc; pending_fc_status =
                 x.pending_fc_status; timer_rx_cf = x.timer_rx_cf; rx_queue =
                 x.rx_queue; tx_state = x.tx_state; tx_queue = x.tx_queue;
                 active = x.active; tx_standby = x.tx_standby; last_fc =
                 x.last_fc; remote_bs = x.remote_bs; tx_block_counter =
                 x.tx_block_counter; tx_seqnum = x.tx_seqnum; wft_counter =
                 x.wft_counter; tx_frame_length = x.tx_frame_length;
                 timer_rx_fc = x.timer_rx_fc; timer_tx_stmin =
                 x.timer_tx_stmin; lim_times = x.lim_times; lim_bits = 
                 (l x); lim_total = x.lim_total; next_req_id =
                 x.next_req_id })) (fun _ -> app s.lim_bits (bits :: []))
                 (set (fun l -> l.lim_times) (fun f ->
                   let l = fun r -> f r.lim_times in
                   (fun x -> { now = x.now; rx_state = x.rx_state;
                   rx_buffer = x.rx_buffer; rx_frame_length =
                   x.rx_frame_length; last_seqnum = x.last_seqnum;
                   rx_block_counter = x.rx_block_counter; actual_rxdl =
                   x.actual_rxdl; pending_fc = x.pending_fc;
                   pending_fc_status = x.pending_fc_status; timer_rx_cf =
                   x.timer_rx_cf; rx_queue = x.rx_queue; tx_state =
                   x.tx_state; tx_queue = x.tx_queue; active = x.active;
                   tx_standby = x.tx_standby; last_fc = x.last_fc;
                   remote_bs = x.remote_bs; tx_block_counter =
                   x.tx_block_counter; tx_seqnum = x.tx_seqnum; wft_counter =
                   x.wft_counter; tx_frame_length = x.tx_frame_length;
                   timer_rx_fc = x.timer_rx_fc; timer_tx_stmin =
                   x.timer_tx_stmin; lim_times = (l x); lim_bits =
                   x.lim_bits; lim_total = x.lim_total; next_req_id =
                   x.next_req_id })) (fun _ -> app s.lim_times (s.now :: []))
                   s1)
          else set (fun l -> l.lim_bits) (fun f ->
                 let l = fun r -> f r.lim_bits in
                 (fun x -> { now = x.now; rx_state = x.rx_state; rx_buffer =
                 x.rx_buffer; rx_frame_length = x.rx_frame_length;
                 last_seqnum = x.last_seqnum; rx_block_counter =
                 x.rx_block_counter; actual_rxdl = x.actual_rxdl;
                 pending_fc = x.pending_fc; pending_fc_status =
                 x.pending_fc_status; timer_rx_cf = x.timer_rx_cf; rx_queue =
                 x.rx_queue; tx_state = x.tx_state; tx_queue = x.tx_queue;
                 active = x.active; tx_standby = x.tx_standby; last_fc =
                 x.last_fc; remote_bs = x.remote_bs; tx_block_counter =
                 x.tx_block_counter; tx_seqnum = x.tx_seqnum; wft_counter =
                 x.wft_counter; tx_frame_length = x.tx_frame_length;
                 timer_rx_fc = x.timer_rx_fc; timer_tx_stmin =
                 x.timer_tx_stmin; lim_times = x.lim_times; lim_bits = 
                 (l x); lim_total = x.lim_total; next_req_id =
                 x.next_req_id })) (fun _ -> add_last s.lim_bits bits) s1)

(** val init_layer : cfg -> coq_Z -> layer **)

let init_layer c t0 =
  { now = t0; rx_state = RxIdle; rx_buffer = []; rx_frame_length = Z0;
    last_seqnum = Z0; rx_block_counter = Z0; actual_rxdl = None; pending_fc =
    false; pending_fc_status = None; timer_rx_cf =
    (new_timer c.c_p.p_tcr_ns); rx_queue = []; tx_state = TxIdle; tx_queue =
    []; active = None; tx_standby = None; last_fc = None; remote_bs = None;
    tx_block_counter = Z0; tx_seqnum = Z0; wft_counter = Z0;
    tx_frame_length = Z0; timer_rx_fc = (new_timer c.c_p.p_tbs_ns);
    timer_tx_stmin = (new_timer Z0); lim_times = []; lim_bits = [];
    lim_total = Z0; next_req_id = Z0 }

(** val start_rx_fc_timer : cfg -> layer -> layer **)

let start_rx_fc_timer c s =
  set (fun l -> l.timer_rx_fc) (fun f ->
    let t = fun r -> f r.timer_rx_fc in
    (fun x -> { now = x.now; rx_state = x.rx_state; rx_buffer = x.rx_buffer;
    rx_frame_length = x.rx_frame_length; last_seqnum = x.last_seqnum;
    rx_block_counter = x.rx_block_counter; actual_rxdl = x.actual_rxdl;
    pending_fc = x.pending_fc; pending_fc_status = x.pending_fc_status;
    timer_rx_cf = x.timer_rx_cf; rx_queue = x.rx_queue; tx_state =
    x.tx_state; tx_queue = x.tx_queue; active = x.active; tx_standby =
    x.tx_standby; last_fc = x.last_fc; remote_bs = x.remote_bs;
    tx_block_counter = x.tx_block_counter; tx_seqnum = x.tx_seqnum;
    wft_counter = x.wft_counter; tx_frame_length = x.tx_frame_length;
    timer_rx_fc = (t x); timer_tx_stmin = x.timer_tx_stmin; lim_times =
    x.lim_times; lim_bits = x.lim_bits; lim_total = x.lim_total;
    next_req_id = x.next_req_id })) (fun _ ->
    timer_start s.now (new_timer c.c_p.p_tbs_ns)) s

(** val start_rx_cf_timer : cfg -> layer -> layer **)

let start_rx_cf_timer c s =
  set (fun l -> l.timer_rx_cf) (fun f ->
    let t = fun r -> f r.timer_rx_cf in
    (fun x -> { now = x.now; rx_state = x.rx_state; rx_buffer = x.rx_buffer;
    rx_frame_length = x.rx_frame_length; last_seqnum = x.last_seqnum;
    rx_block_counter = x.rx_block_counter; actual_rxdl = x.actual_rxdl;
    pending_fc = x.pending_fc; pending_fc_status = x.pending_fc_status;
    timer_rx_cf = (t x); rx_queue = x.rx_queue; tx_state = x.tx_state;
    tx_queue = x.tx_queue; active = x.active; tx_standby = x.tx_standby;
    last_fc = x.last_fc; remote_bs = x.remote_bs; tx_block_counter =
    x.tx_block_counter; tx_seqnum = x.tx_seqnum; wft_counter = x.wft_counter;
    tx_frame_length = x.tx_frame_length; timer_rx_fc = x.timer_rx_fc;
    timer_tx_stmin = x.timer_tx_stmin; lim_times = x.lim_times; lim_bits =
    x.lim_bits; lim_total = x.lim_total; next_req_id = x.next_req_id }))
    (fun _ -> timer_start s.now (new_timer c.c_p.p_tcr_ns)) s

(** val request_tx_fc : coq_Z -> layer -> layer **)

let request_tx_fc status s =
  set (fun l -> l.pending_fc_status) (fun f ->
    let o = fun r -> f r.pending_fc_status in
    (fun x -> { now = x.now; rx_state = x.rx_state; rx_buffer = x.rx_buffer;
    rx_frame_length = x.rx_frame_length; last_seqnum = x.last_seqnum;
    rx_block_counter = x.rx_block_counter; actual_rxdl = x.actual_rxdl;
    pending_fc = x.pending_fc; pending_fc_status = (o x); timer_rx_cf =
    x.timer_rx_cf; rx_queue = x.rx_queue; tx_state = x.tx_state; tx_queue =
    x.tx_queue; active = x.active; tx_standby = x.tx_standby; last_fc =
    x.last_fc; remote_bs = x.remote_bs; tx_block_counter =
    x.tx_block_counter; tx_seqnum = x.tx_seqnum; wft_counter = x.wft_counter;
    tx_frame_length = x.tx_frame_length; timer_rx_fc = x.timer_rx_fc;
    timer_tx_stmin = x.timer_tx_stmin; lim_times = x.lim_times; lim_bits =
    x.lim_bits; lim_total = x.lim_total; next_req_id = x.next_req_id }))
    (fun _ -> Some status)
    (set (fun l -> l.pending_fc) (fun f ->
      let b = fun r -> f r.pending_fc in
      (fun x -> { now = x.now; rx_state = x.rx_state; rx_buffer =
      x.rx_buffer; rx_frame_length = x.rx_frame_length; last_seqnum =
      x.last_seqnum; rx_block_counter = x.rx_block_counter; actual_rxdl =
      x.actual_rxdl; pending_fc = (b x); pending_fc_status =
      x.pending_fc_status; timer_rx_cf = x.timer_rx_cf; rx_queue =
      x.rx_queue; tx_state = x.tx_state; tx_queue = x.tx_queue; active =
      x.active; tx_standby = x.tx_standby; last_fc = x.last_fc; remote_bs =
      x.remote_bs; tx_block_counter = x.tx_block_counter; tx_seqnum =
      x.tx_seqnum; wft_counter = x.wft_counter; tx_frame_length =
      x.tx_frame_length; timer_rx_fc = x.timer_rx_fc; timer_tx_stmin =
      x.timer_tx_stmin; lim_times = x.lim_times; lim_bits = x.lim_bits;
      lim_total = x.lim_total; next_req_id = x.next_req_id })) (fun _ ->
      true) s)

(** val stop_sending_fc : layer -> layer **)

let stop_sending_fc s =
  set (fun l -> l.last_fc) (fun f ->
    let o = fun r -> f r.last_fc in
    (fun x -> { now = x.now; rx_state = x.rx_state; rx_buffer = x.rx_buffer;
    rx_frame_length = x.rx_frame_length; last_seqnum = x.last_seqnum;
    rx_block_counter = x.rx_block_counter; actual_rxdl = x.actual_rxdl;
    pending_fc = x.pending_fc; pending_fc_status = x.pending_fc_status;
    timer_rx_cf = x.timer_rx_cf; rx_queue = x.rx_queue; tx_state =
    x.tx_state; tx_queue = x.tx_queue; active = x.active; tx_standby =
    x.tx_standby; last_fc = (o x); remote_bs = x.remote_bs;
    tx_block_counter = x.tx_block_counter; tx_seqnum = x.tx_seqnum;
    wft_counter = x.wft_counter; tx_frame_length = x.tx_frame_length;
    timer_rx_fc = x.timer_rx_fc; timer_tx_stmin = x.timer_tx_stmin;
    lim_times = x.lim_times; lim_bits = x.lim_bits; lim_total = x.lim_total;
    next_req_id = x.next_req_id })) (fun _ -> None)
    (set (fun l -> l.pending_fc) (fun f ->
      let b = fun r -> f r.pending_fc in
      (fun x -> { now = x.now; rx_state = x.rx_state; rx_buffer =
      x.rx_buffer; rx_frame_length = x.rx_frame_length; last_seqnum =
      x.last_seqnum; rx_block_counter = x.rx_block_counter; actual_rxdl =
      x.actual_rxdl; pending_fc = (b x); pending_fc_status =
      x.pending_fc_status; timer_rx_cf = x.timer_rx_cf; rx_queue =
      x.rx_queue; tx_state = x.tx_state; tx_queue = x.tx_queue; active =
      x.active; tx_standby = x.tx_standby; last_fc = x.last_fc; remote_bs =
      x.remote_bs; tx_block_counter = x.tx_block_counter; tx_seqnum =
      x.tx_seqnum; wft_counter = x.wft_counter; tx_frame_length =
      x.tx_frame_length; timer_rx_fc = x.timer_rx_fc; timer_tx_stmin =
      x.timer_tx_stmin; lim_times = x.lim_times; lim_bits = x.lim_bits;
      lim_total = x.lim_total; next_req_id = x.next_req_id })) (fun _ ->
      false) s)

(** val stop_receiving : layer -> layer **)

let stop_receiving s =
  set (fun l -> l.timer_rx_cf) (fun f ->
    let t = fun r -> f r.timer_rx_cf in
    (fun x -> { now = x.now; rx_state = x.rx_state; rx_buffer = x.rx_buffer;
    rx_frame_length = x.rx_frame_length; last_seqnum = x.last_seqnum;
    rx_block_counter = x.rx_block_counter; actual_rxdl = x.actual_rxdl;
    pending_fc = x.pending_fc; pending_fc_status = x.pending_fc_status;
    timer_rx_cf = (t x); rx_queue = x.rx_queue; tx_state = x.tx_state;
    tx_queue = x.tx_queue; active = x.active; tx_standby = x.tx_standby;
    last_fc = x.last_fc; remote_bs = x.remote_bs; tx_block_counter =
    x.tx_block_counter; tx_seqnum = x.tx_seqnum; wft_counter = x.wft_counter;
    tx_frame_length = x.tx_frame_length; timer_rx_fc = x.timer_rx_fc;
    timer_tx_stmin = x.timer_tx_stmin; lim_times = x.lim_times; lim_bits =
    x.lim_bits; lim_total = x.lim_total; next_req_id = x.next_req_id }))
    timer_stop
    (stop_sending_fc
      (set (fun l -> l.rx_buffer) (fun f ->
        let l = fun r -> f r.rx_buffer in
        (fun x -> { now = x.now; rx_state = x.rx_state; rx_buffer = (l x);
        rx_frame_length = x.rx_frame_length; last_seqnum = x.last_seqnum;
        rx_block_counter = x.rx_block_counter; actual_rxdl = x.actual_rxdl;
        pending_fc = x.pending_fc; pending_fc_status = x.pending_fc_status;
        timer_rx_cf = x.timer_rx_cf; rx_queue = x.rx_queue; tx_state =
        x.tx_state; tx_queue = x.tx_queue; active = x.active; tx_standby =
        x.tx_standby; last_fc = x.last_fc; remote_bs = x.remote_bs;
        tx_block_counter = x.tx_block_counter; tx_seqnum = x.tx_seqnum;
        wft_counter = x.wft_counter; tx_frame_length = x.tx_frame_length;
        timer_rx_fc = x.timer_rx_fc; timer_tx_stmin = x.timer_tx_stmin;
        lim_times = x.lim_times; lim_bits = x.lim_bits; lim_total =
        x.lim_total; next_req_id = x.next_req_id })) (fun _ -> [])
        (set (fun l -> l.rx_state) (fun f ->
          let r = fun r -> f r.rx_state in
          (fun x -> { now = x.now; rx_state = (r x); rx_buffer = x.rx_buffer;
          rx_frame_length = x.rx_frame_length; last_seqnum = x.last_seqnum;
          rx_block_counter = x.rx_block_counter; actual_rxdl = x.actual_rxdl;
          pending_fc = x.pending_fc; pending_fc_status = x.pending_fc_status;
          timer_rx_cf = x.timer_rx_cf; rx_queue = x.rx_queue; tx_state =
          x.tx_state; tx_queue = x.tx_queue; active = x.active; tx_standby =
          x.tx_standby; last_fc = x.last_fc; remote_bs = x.remote_bs;
          tx_block_counter = x.tx_block_counter; tx_seqnum = x.tx_seqnum;
          wft_counter = x.wft_counter; tx_frame_length = x.tx_frame_length;
          timer_rx_fc = x.timer_rx_fc; timer_tx_stmin = x.timer_tx_stmin;
          lim_times = x.lim_times; lim_bits = x.lim_bits; lim_total =
          x.lim_total; next_req_id = x.next_req_id })) (fun _ -> RxIdle)
          (set (fun l -> l.actual_rxdl) (fun f ->
            let o = fun r -> f r.actual_rxdl in
            (fun x -> { now = x.now; rx_state = x.rx_state; rx_buffer =
            x.rx_buffer; rx_frame_length = x.rx_frame_length; last_seqnum =
            x.last_seqnum; rx_block_counter = x.rx_block_counter;
            actual_rxdl = (o x); pending_fc = x.pending_fc;
            pending_fc_status = x.pending_fc_status; timer_rx_cf =
            x.timer_rx_cf; rx_queue = x.rx_queue; tx_state = x.tx_state;
            tx_queue = x.tx_queue; active = x.active; tx_standby =
            x.tx_standby; last_fc = x.last_fc; remote_bs = x.remote_bs;
            tx_block_counter = x.tx_block_counter; tx_seqnum = x.tx_seqnum;
            wft_counter = x.wft_counter; tx_frame_length = x.tx_frame_length;
            timer_rx_fc = x.timer_rx_fc; timer_tx_stmin = x.timer_tx_stmin;
            lim_times = x.lim_times; lim_bits = x.lim_bits; lim_total =
            x.lim_total; next_req_id = x.next_req_id })) (fun _ -> None) s))))

(** val stop_sending : bool -> layer -> layer * event list **)

let stop_sending success s =
  let evs =
    match s.active with
    | Some r -> (EDone (r.r_id, success)) :: []
    | None -> []
  in
  ((set (fun l -> l.tx_standby) (fun f ->
     let o = fun r -> f r.tx_standby in
     (fun x -> { now = x.now; rx_state = x.rx_state; rx_buffer = x.rx_buffer;
     rx_frame_length = x.rx_frame_length; last_seqnum = x.last_seqnum;
     rx_block_counter = x.rx_block_counter; actual_rxdl = x.actual_rxdl;
     pending_fc = x.pending_fc; pending_fc_status = x.pending_fc_status;
     timer_rx_cf = x.timer_rx_cf; rx_queue = x.rx_queue; tx_state =
     x.tx_state; tx_queue = x.tx_queue; active = x.active; tx_standby =
     (o x); last_fc = x.last_fc; remote_bs = x.remote_bs; tx_block_counter =
     x.tx_block_counter; tx_seqnum = x.tx_seqnum; wft_counter =
     x.wft_counter; tx_frame_length = x.tx_frame_length; timer_rx_fc =
     x.timer_rx_fc; timer_tx_stmin = x.timer_tx_stmin; lim_times =
     x.lim_times; lim_bits = x.lim_bits; lim_total = x.lim_total;
     next_req_id = x.next_req_id })) (fun _ -> None)
     (set (fun l -> l.wft_counter) (fun f ->
       let z = fun r -> f r.wft_counter in
       (fun x -> { now = x.now; rx_state = x.rx_state; rx_buffer =
       x.rx_buffer; rx_frame_length = x.rx_frame_length; last_seqnum =
       x.last_seqnum; rx_block_counter = x.rx_block_counter; actual_rxdl =
       x.actual_rxdl; pending_fc = x.pending_fc; pending_fc_status =
       x.pending_fc_status; timer_rx_cf = x.timer_rx_cf; rx_queue =
       x.rx_queue; tx_state = x.tx_state; tx_queue = x.tx_queue; active =
       x.active; tx_standby = x.tx_standby; last_fc = x.last_fc; remote_bs =
       x.remote_bs; tx_block_counter = x.tx_block_counter; tx_seqnum =
       x.tx_seqnum; wft_counter = (z x); tx_frame_length = x.tx_frame_length;
       timer_rx_fc = x.timer_rx_fc; timer_tx_stmin = x.timer_tx_stmin;
       lim_times = x.lim_times; lim_bits = x.lim_bits; lim_total =
       x.lim_total; next_req_id = x.next_req_id })) (fun _ -> Z0)
       (set (fun l -> l.tx_seqnum) (fun f ->
         let z = fun r -> f r.tx_seqnum in
         (fun x -> { now = x.now; rx_state = x.rx_state; rx_buffer =
         x.rx_buffer; rx_frame_length = x.rx_frame_length; last_seqnum =
         x.last_seqnum; rx_block_counter = x.rx_block_counter; actual_rxdl =
         x.actual_rxdl; pending_fc = x.pending_fc; pending_fc_status =
         x.pending_fc_status; timer_rx_cf = x.timer_rx_cf; rx_queue =
         x.rx_queue; tx_state = x.tx_state; tx_queue = x.tx_queue; active =
         x.active; tx_standby = x.tx_standby; last_fc = x.last_fc;
         remote_bs = x.remote_bs; tx_block_counter = x.tx_block_counter;
         tx_seqnum = (z x); wft_counter = x.wft_counter; tx_frame_length =
         x.tx_frame_length; timer_rx_fc = x.timer_rx_fc; timer_tx_stmin =
         x.timer_tx_stmin; lim_times = x.lim_times; lim_bits = x.lim_bits;
         lim_total = x.lim_total; next_req_id = x.next_req_id })) (fun _ ->
         Z0)
         (set (fun l -> l.tx_block_counter) (fun f ->
           let z = fun r -> f r.tx_block_counter in
           (fun x -> { now = x.now; rx_state = x.rx_state; rx_buffer =
           x.rx_buffer; rx_frame_length = x.rx_frame_length; last_seqnum =
           x.last_seqnum; rx_block_counter = x.rx_block_counter;
           actual_rxdl = x.actual_rxdl; pending_fc = x.pending_fc;
           pending_fc_status = x.pending_fc_status; timer_rx_cf =
           x.timer_rx_cf; rx_queue = x.rx_queue; tx_state = x.tx_state;
           tx_queue = x.tx_queue; active = x.active; tx_standby =
           x.tx_standby; last_fc = x.last_fc; remote_bs = x.remote_bs;
           tx_block_counter = (z x); tx_seqnum = x.tx_seqnum; wft_counter =
           x.wft_counter; tx_frame_length = x.tx_frame_length; timer_rx_fc =
           x.timer_rx_fc; timer_tx_stmin = x.timer_tx_stmin; lim_times =
           x.lim_times; lim_bits = x.lim_bits; lim_total = x.lim_total;
           next_req_id = x.next_req_id })) (fun _ -> Z0)
           (set (fun l -> l.remote_bs) (fun f ->
             let o = fun r -> f r.remote_bs in
             (fun x -> { now = x.now; rx_state = x.rx_state; rx_buffer =
             x.rx_buffer; rx_frame_length = x.rx_frame_length; last_seqnum =
             x.last_seqnum; rx_block_counter = x.rx_block_counter;
             actual_rxdl = x.actual_rxdl; pending_fc = x.pending_fc;
             pending_fc_status = x.pending_fc_status; timer_rx_cf =
             x.timer_rx_cf; rx_queue = x.rx_queue; tx_state = x.tx_state;
             tx_queue = x.tx_queue; active = x.active; tx_standby =
             x.tx_standby; last_fc = x.last_fc; remote_bs = (o x);
             tx_block_counter = x.tx_block_counter; tx_seqnum = x.tx_seqnum;
             wft_counter = x.wft_counter; tx_frame_length =
             x.tx_frame_length; timer_rx_fc = x.timer_rx_fc; timer_tx_stmin =
             x.timer_tx_stmin; lim_times = x.lim_times; lim_bits =
             x.lim_bits; lim_total = x.lim_total; next_req_id =
             x.next_req_id })) (fun _ -> None)
             (set (fun l -> l.timer_tx_stmin) (fun f ->
               let t = fun r -> f r.timer_tx_stmin in
               (fun x -> { now = x.now; rx_state = x.rx_state; rx_buffer =
               x.rx_buffer; rx_frame_length = x.rx_frame_length;
               last_seqnum = x.last_seqnum; rx_block_counter =
               x.rx_block_counter; actual_rxdl = x.actual_rxdl; pending_fc =
               x.pending_fc; pending_fc_status = x.pending_fc_status;
               timer_rx_cf = x.timer_rx_cf; rx_queue = x.rx_queue; tx_state =
               x.tx_state; tx_queue = x.tx_queue; active = x.active;
               tx_standby = x.tx_standby; last_fc = x.last_fc; remote_bs =
               x.remote_bs; tx_block_counter = x.tx_block_counter;
               tx_seqnum = x.tx_seqnum; wft_counter = x.wft_counter;
               tx_frame_length = x.tx_frame_length; timer_rx_fc =
               x.timer_rx_fc; timer_tx_stmin = (t x); lim_times =
               x.lim_times; lim_bits = x.lim_bits; lim_total = x.lim_total;
               next_req_id = x.next_req_id })) timer_stop
               (set (fun l -> l.timer_rx_fc) (fun f ->
                 let t = fun r -> f r.timer_rx_fc in
                 (fun x -> { now = x.now; rx_state = x.rx_state; rx_buffer =
                 x.rx_buffer; rx_frame_length = x.rx_frame_length;
                 last_seqnum = x.last_seqnum; rx_block_counter =
                 x.rx_block_counter; actual_rxdl = x.actual_rxdl;
                 pending_fc = x.pending_fc; pending_fc_status =
                 x.pending_fc_status; timer_rx_cf = x.timer_rx_cf; rx_queue =
                 x.rx_queue; tx_state = x.tx_state; tx_queue = x.tx_queue;
                 active = x.active; tx_standby = x.tx_standby; last_fc =
                 x.last_fc; remote_bs = x.remote_bs; tx_block_counter =
                 x.tx_block_counter; tx_seqnum = x.tx_seqnum; wft_counter =
                 x.wft_counter; tx_frame_length = x.tx_frame_length;
                 timer_rx_fc = (t x); timer_tx_stmin = x.timer_tx_stmin;
                 lim_times = x.lim_times; lim_bits = x.lim_bits; lim_total =
                 x.lim_total; next_req_id = x.next_req_id })) timer_stop
                 (set (fun l -> l.tx_frame_length) (fun f ->
                   let z = fun r -> f r.tx_frame_length in
                   (fun x -> { now = x.now; rx_state = x.rx_state;
                   rx_buffer = x.rx_buffer; rx_frame_length =
                   x.rx_frame_length; last_seqnum = x.last_seqnum;
                   rx_block_counter = x.rx_block_counter; actual_rxdl =
                   x.actual_rxdl; pending_fc = x.pending_fc;
                   pending_fc_status = x.pending_fc_status; timer_rx_cf =
                   x.timer_rx_cf; rx_queue = x.rx_queue; tx_state =
                   x.tx_state; tx_queue = x.tx_queue; active = x.active;
                   tx_standby = x.tx_standby; last_fc = x.last_fc;
                   remote_bs = x.remote_bs; tx_block_counter =
                   x.tx_block_counter; tx_seqnum = x.tx_seqnum; wft_counter =
                   x.wft_counter; tx_frame_length = (z x); timer_rx_fc =
                   x.timer_rx_fc; timer_tx_stmin = x.timer_tx_stmin;
                   lim_times = x.lim_times; lim_bits = x.lim_bits;
                   lim_total = x.lim_total; next_req_id = x.next_req_id }))
                   (fun _ -> Z0)
                   (set (fun l -> l.tx_state) (fun f ->
                     let t = fun r -> f r.tx_state in
                     (fun x -> { now = x.now; rx_state = x.rx_state;
                     rx_buffer = x.rx_buffer; rx_frame_length =
                     x.rx_frame_length; last_seqnum = x.last_seqnum;
                     rx_block_counter = x.rx_block_counter; actual_rxdl =
                     x.actual_rxdl; pending_fc = x.pending_fc;
                     pending_fc_status = x.pending_fc_status; timer_rx_cf =
                     x.timer_rx_cf; rx_queue = x.rx_queue; tx_state = 
                     (t x); tx_queue = x.tx_queue; active = x.active;
                     tx_standby = x.tx_standby; last_fc = x.last_fc;
                     remote_bs = x.remote_bs; tx_block_counter =
                     x.tx_block_counter; tx_seqnum = x.tx_seqnum;
                     wft_counter = x.wft_counter; tx_frame_length =
                     x.tx_frame_length; timer_rx_fc = x.timer_rx_fc;
                     timer_tx_stmin = x.timer_tx_stmin; lim_times =
                     x.lim_times; lim_bits = x.lim_bits; lim_total =
                     x.lim_total; next_req_id = x.next_req_id })) (fun _ ->
                     TxIdle)
                     (set (fun l -> l.active) (fun f ->
                       let o = fun r -> f r.active in
                       (fun x -> { now = x.now; rx_state = x.rx_state;
                       rx_buffer = x.rx_buffer; rx_frame_length =
                       x.rx_frame_length; last_seqnum = x.last_seqnum;
                       rx_block_counter = x.rx_block_counter; actual_rxdl =
                       x.actual_rxdl; pending_fc = x.pending_fc;
                       pending_fc_status = x.pending_fc_status; timer_rx_cf =
                       x.timer_rx_cf; rx_queue = x.rx_queue; tx_state =
                       x.tx_state; tx_queue = x.tx_queue; active = (o x);
                       tx_standby = x.tx_standby; last_fc = x.last_fc;
                       remote_bs = x.remote_bs; tx_block_counter =
                       x.tx_block_counter; tx_seqnum = x.tx_seqnum;
                       wft_counter = x.wft_counter; tx_frame_length =
                       x.tx_frame_length; timer_rx_fc = x.timer_rx_fc;
                       timer_tx_stmin = x.timer_tx_stmin; lim_times =
                       x.lim_times; lim_bits = x.lim_bits; lim_total =
                       x.lim_total; next_req_id = x.next_req_id })) (fun _ ->
                       None) s)))))))))), evs)

(** val check_timeouts_rx : layer -> layer * event list **)

let check_timeouts_rx s =
  if timer_timed_out s.now s.timer_rx_cf
  then ((stop_receiving s), ((EErr ConsecutiveFrameTimeout) :: []))
  else (s, [])

(** val valid_rxdl : coq_Z -> bool **)

let valid_rxdl x =
  zmem x ((Zpos (Coq_xO (Coq_xO (Coq_xO Coq_xH)))) :: ((Zpos (Coq_xO (Coq_xO
    (Coq_xI Coq_xH)))) :: ((Zpos (Coq_xO (Coq_xO (Coq_xO (Coq_xO
    Coq_xH))))) :: ((Zpos (Coq_xO (Coq_xO (Coq_xI (Coq_xO
    Coq_xH))))) :: ((Zpos (Coq_xO (Coq_xO (Coq_xO (Coq_xI
    Coq_xH))))) :: ((Zpos (Coq_xO (Coq_xO (Coq_xO (Coq_xO (Coq_xO
    Coq_xH)))))) :: ((Zpos (Coq_xO (Coq_xO (Coq_xO (Coq_xO (Coq_xI
    Coq_xH)))))) :: ((Zpos (Coq_xO (Coq_xO (Coq_xO (Coq_xO (Coq_xO (Coq_xO
    Coq_xH))))))) :: []))))))))

(** val start_reception_after_ff :
    cfg -> layer -> coq_Z -> coq_Z list -> coq_Z -> (layer * event
    list) * bool **)

let start_reception_after_ff c s len data rx_dl =
  let s1 =
    set (fun l -> l.rx_buffer) (fun f ->
      let l = fun r -> f r.rx_buffer in
      (fun x -> { now = x.now; rx_state = x.rx_state; rx_buffer = (l x);
      rx_frame_length = x.rx_frame_length; last_seqnum = x.last_seqnum;
      rx_block_counter = x.rx_block_counter; actual_rxdl = x.actual_rxdl;
      pending_fc = x.pending_fc; pending_fc_status = x.pending_fc_status;
      timer_rx_cf = x.timer_rx_cf; rx_queue = x.rx_queue; tx_state =
      x.tx_state; tx_queue = x.tx_queue; active = x.active; tx_standby =
      x.tx_standby; last_fc = x.last_fc; remote_bs = x.remote_bs;
      tx_block_counter = x.tx_block_counter; tx_seqnum = x.tx_seqnum;
      wft_counter = x.wft_counter; tx_frame_length = x.tx_frame_length;
      timer_rx_fc = x.timer_rx_fc; timer_tx_stmin = x.timer_tx_stmin;
      lim_times = x.lim_times; lim_bits = x.lim_bits; lim_total =
      x.lim_total; next_req_id = x.next_req_id })) (fun _ -> []) s
  in
  if negb (valid_rxdl rx_dl)
  then (((stop_receiving s1), ((EErr InvalidCanFdFirstFrameRXDL) :: [])),
         false)
  else let s2 =
         set (fun l -> l.actual_rxdl) (fun f ->
           let o = fun r -> f r.actual_rxdl in
           (fun x -> { now = x.now; rx_state = x.rx_state; rx_buffer =
           x.rx_buffer; rx_frame_length = x.rx_frame_length; last_seqnum =
           x.last_seqnum; rx_block_counter = x.rx_block_counter;
           actual_rxdl = (o x); pending_fc = x.pending_fc;
           pending_fc_status = x.pending_fc_status; timer_rx_cf =
           x.timer_rx_cf; rx_queue = x.rx_queue; tx_state = x.tx_state;
           tx_queue = x.tx_queue; active = x.active; tx_standby =
           x.tx_standby; last_fc = x.last_fc; remote_bs = x.remote_bs;
           tx_block_counter = x.tx_block_counter; tx_seqnum = x.tx_seqnum;
           wft_counter = x.wft_counter; tx_frame_length = x.tx_frame_length;
           timer_rx_fc = x.timer_rx_fc; timer_tx_stmin = x.timer_tx_stmin;
           lim_times = x.lim_times; lim_bits = x.lim_bits; lim_total =
           x.lim_total; next_req_id = x.next_req_id })) (fun _ -> Some rx_dl)
           s1
       in
       if Z.ltb c.c_p.p_max_frame_size len
       then let p =
              ((set (fun l -> l.timer_rx_cf) (fun f ->
                 let t = fun r -> f r.timer_rx_cf in
                 (fun x -> { now = x.now; rx_state = x.rx_state; rx_buffer =
                 x.rx_buffer; rx_frame_length = x.rx_frame_length;
                 last_seqnum = x.last_seqnum; rx_block_counter =
                 x.rx_block_counter; actual_rxdl = x.actual_rxdl;
                 pending_fc = x.pending_fc; pending_fc_status =
                 x.pending_fc_status; timer_rx_cf = (t x); rx_queue =
                 x.rx_queue; tx_state = x.tx_state; tx_queue = x.tx_queue;
                 active = x.active; tx_standby = x.tx_standby; last_fc =
                 x.last_fc; remote_bs = x.remote_bs; tx_block_counter =
                 x.tx_block_counter; tx_seqnum = x.tx_seqnum; wft_counter =
                 x.wft_counter; tx_frame_length = x.tx_frame_length;
                 timer_rx_fc = x.timer_rx_fc; timer_tx_stmin =
                 x.timer_tx_stmin; lim_times = x.lim_times; lim_bits =
                 x.lim_bits; lim_total = x.lim_total; next_req_id =
                 x.next_req_id })) timer_stop
                 (set (fun l -> l.rx_state) (fun f ->
                   let r = fun r -> f r.rx_state in
                   (fun x -> { now = x.now; rx_state = (r x); rx_buffer =
                   x.rx_buffer; rx_frame_length = x.rx_frame_length;
                   last_seqnum = x.last_seqnum; rx_block_counter =
                   x.rx_block_counter; actual_rxdl = x.actual_rxdl;
                   pending_fc = x.pending_fc; pending_fc_status =
                   x.pending_fc_status; timer_rx_cf = x.timer_rx_cf;
                   rx_queue = x.rx_queue; tx_state = x.tx_state; tx_queue =
                   x.tx_queue; active = x.active; tx_standby = x.tx_standby;
                   last_fc = x.last_fc; remote_bs = x.remote_bs;
                   tx_block_counter = x.tx_block_counter; tx_seqnum =
                   x.tx_seqnum; wft_counter = x.wft_counter;
                   tx_frame_length = x.tx_frame_length; timer_rx_fc =
                   x.timer_rx_fc; timer_tx_stmin = x.timer_tx_stmin;
                   lim_times = x.lim_times; lim_bits = x.lim_bits;
                   lim_total = x.lim_total; next_req_id = x.next_req_id }))
                   (fun _ -> RxIdle) (request_tx_fc coq_FS_OVFLW s2))),
              ((EErr FrameTooLong) :: []))
            in
            let started = false in
            let (s3, evs) = p in
            (((set (fun l -> l.rx_block_counter) (fun f ->
                let z = fun r -> f r.rx_block_counter in
                (fun x -> { now = x.now; rx_state = x.rx_state; rx_buffer =
                x.rx_buffer; rx_frame_length = x.rx_frame_length;
                last_seqnum = x.last_seqnum; rx_block_counter = (z x);
                actual_rxdl = x.actual_rxdl; pending_fc = x.pending_fc;
                pending_fc_status = x.pending_fc_status; timer_rx_cf =
                x.timer_rx_cf; rx_queue = x.rx_queue; tx_state = x.tx_state;
                tx_queue = x.tx_queue; active = x.active; tx_standby =
                x.tx_standby; last_fc = x.last_fc; remote_bs = x.remote_bs;
                tx_block_counter = x.tx_block_counter; tx_seqnum =
                x.tx_seqnum; wft_counter = x.wft_counter; tx_frame_length =
                x.tx_frame_length; timer_rx_fc = x.timer_rx_fc;
                timer_tx_stmin = x.timer_tx_stmin; lim_times = x.lim_times;
                lim_bits = x.lim_bits; lim_total = x.lim_total; next_req_id =
                x.next_req_id })) (fun _ -> Z0)
                (set (fun l -> l.last_seqnum) (fun f ->
                  let z = fun r -> f r.last_seqnum in
                  (fun x -> { now = x.now; rx_state = x.rx_state; rx_buffer =
                  x.rx_buffer; rx_frame_length = x.rx_frame_length;
                  last_seqnum = (z x); rx_block_counter = x.rx_block_counter;
                  actual_rxdl = x.actual_rxdl; pending_fc = x.pending_fc;
                  pending_fc_status = x.pending_fc_status; timer_rx_cf =
                  x.timer_rx_cf; rx_queue = x.rx_queue; tx_state =
                  x.tx_state; tx_queue = x.tx_queue; active = x.active;
                  tx_standby = x.tx_standby; last_fc = x.last_fc; remote_bs =
                  x.remote_bs; tx_block_counter = x.tx_block_counter;
                  tx_seqnum = x.tx_seqnum; wft_counter = x.wft_counter;
                  tx_frame_length = x.tx_frame_length; timer_rx_fc =
                  x.timer_rx_fc; timer_tx_stmin = x.timer_tx_stmin;
                  lim_times = x.lim_times; lim_bits = x.lim_bits; lim_total =
                  x.lim_total; next_req_id = x.next_req_id })) (fun _ -> Z0)
                  s3)), evs), started)
       else let p =
              ((start_rx_cf_timer c
                 (request_tx_fc coq_FS_CTS
                   (set (fun l -> l.rx_buffer) (fun f ->
                     let l = fun r -> f r.rx_buffer in
                     (fun x -> { now = x.now; rx_state = x.rx_state;
                     rx_buffer = (l x); rx_frame_length = x.rx_frame_length;
                     last_seqnum = x.last_seqnum; rx_block_counter =
                     x.rx_block_counter; actual_rxdl = x.actual_rxdl;
                     pending_fc = x.pending_fc; pending_fc_status =
                     x.pending_fc_status; timer_rx_cf = x.timer_rx_cf;
                     rx_queue = x.rx_queue; tx_state = x.tx_state; tx_queue =
                     x.tx_queue; active = x.active; tx_standby =
                     x.tx_standby; last_fc = x.last_fc; remote_bs =
                     x.remote_bs; tx_block_counter = x.tx_block_counter;
                     tx_seqnum = x.tx_seqnum; wft_counter = x.wft_counter;
                     tx_frame_length = x.tx_frame_length; timer_rx_fc =
                     x.timer_rx_fc; timer_tx_stmin = x.timer_tx_stmin;
                     lim_times = x.lim_times; lim_bits = x.lim_bits;
                     lim_total = x.lim_total; next_req_id = x.next_req_id }))
                     (fun _ -> data)
                     (set (fun l -> l.rx_frame_length) (fun f ->
                       let z = fun r -> f r.rx_frame_length in
                       (fun x -> { now = x.now; rx_state = x.rx_state;
                       rx_buffer = x.rx_buffer; rx_frame_length = (z x);
                       last_seqnum = x.last_seqnum; rx_block_counter =
                       x.rx_block_counter; actual_rxdl = x.actual_rxdl;
                       pending_fc = x.pending_fc; pending_fc_status =
                       x.pending_fc_status; timer_rx_cf = x.timer_rx_cf;
                       rx_queue = x.rx_queue; tx_state = x.tx_state;
                       tx_queue = x.tx_queue; active = x.active; tx_standby =
                       x.tx_standby; last_fc = x.last_fc; remote_bs =
                       x.remote_bs; tx_block_counter = x.tx_block_counter;
                       tx_seqnum = x.tx_seqnum; wft_counter = x.wft_counter;
                       tx_frame_length = x.tx_frame_length; timer_rx_fc =
                       x.timer_rx_fc; timer_tx_stmin = x.timer_tx_stmin;
                       lim_times = x.lim_times; lim_bits = x.lim_bits;
                       lim_total = x.lim_total; next_req_id = x.next_req_id }))
                       (fun _ -> len)
                       (set (fun l -> l.rx_state) (fun f ->
                         let r = fun r -> f r.rx_state in
                         (fun x -> { now = x.now; rx_state = (r x);
                         rx_buffer = x.rx_buffer; rx_frame_length =
                         x.rx_frame_length; last_seqnum = x.last_seqnum;
                         rx_block_counter = x.rx_block_counter; actual_rxdl =
                         x.actual_rxdl; pending_fc = x.pending_fc;
                         pending_fc_status = x.pending_fc_status;
                         timer_rx_cf = x.timer_rx_cf; rx_queue = x.rx_queue;
                         tx_state = x.tx_state; tx_queue = x.tx_queue;
                         active = x.active; tx_standby = x.tx_standby;
                         last_fc = x.last_fc; remote_bs = x.remote_bs;
                         tx_block_counter = x.tx_block_counter; tx_seqnum =
                         x.tx_seqnum; wft_counter = x.wft_counter;
                         tx_frame_length = x.tx_frame_length; timer_rx_fc =
                         x.timer_rx_fc; timer_tx_stmin = x.timer_tx_stmin;
                         lim_times = x.lim_times; lim_bits = x.lim_bits;
                         lim_total = x.lim_total; next_req_id =
                         x.next_req_id })) (fun _ -> RxWaitCF) s2))))), [])
            in
            let started = true in
            let (s3, evs) = p in
            (((set (fun l -> l.rx_block_counter) (fun f ->
                let z = fun r -> f r.rx_block_counter in
                (fun x -> { now = x.now; rx_state = x.rx_state; rx_buffer =
                x.rx_buffer; rx_frame_length = x.rx_frame_length;
                last_seqnum = x.last_seqnum; rx_block_counter = (z x);
                actual_rxdl = x.actual_rxdl; pending_fc = x.pending_fc;
                pending_fc_status = x.pending_fc_status; timer_rx_cf =
                x.timer_rx_cf; rx_queue = x.rx_queue; tx_state = x.tx_state;
                tx_queue = x.tx_queue; active = x.active; tx_standby =
                x.tx_standby; last_fc = x.last_fc; remote_bs = x.remote_bs;
                tx_block_counter = x.tx_block_counter; tx_seqnum =
                x.tx_seqnum; wft_counter = x.wft_counter; tx_frame_length =
                x.tx_frame_length; timer_rx_fc = x.timer_rx_fc;
                timer_tx_stmin = x.timer_tx_stmin; lim_times = x.lim_times;
                lim_bits = x.lim_bits; lim_total = x.lim_total; next_req_id =
                x.next_req_id })) (fun _ -> Z0)
                (set (fun l -> l.last_seqnum) (fun f ->
                  let z = fun r -> f r.last_seqnum in
                  (fun x -> { now = x.now; rx_state = x.rx_state; rx_buffer =
                  x.rx_buffer; rx_frame_length = x.rx_frame_length;
                  last_seqnum = (z x); rx_block_counter = x.rx_block_counter;
                  actual_rxdl = x.actual_rxdl; pending_fc = x.pending_fc;
                  pending_fc_status = x.pending_fc_status; timer_rx_cf =
                  x.timer_rx_cf; rx_queue = x.rx_queue; tx_state =
                  x.tx_state; tx_queue = x.tx_queue; active = x.active;
                  tx_standby = x.tx_standby; last_fc = x.last_fc; remote_bs =
                  x.remote_bs; tx_block_counter = x.tx_block_counter;
                  tx_seqnum = x.tx_seqnum; wft_counter = x.wft_counter;
                  tx_frame_length = x.tx_frame_length; timer_rx_fc =
                  x.timer_rx_fc; timer_tx_stmin = x.timer_tx_stmin;
                  lim_times = x.lim_times; lim_bits = x.lim_bits; lim_total =
                  x.lim_total; next_req_id = x.next_req_id })) (fun _ -> Z0)
                  s3)), evs), started)

type rx_report = { rr_s : layer; rr_evs : event list; rr_imm_tx : bool;
                   rr_frame : bool }

(** val mk_rr : layer -> event list -> bool -> bool -> rx_report **)

let mk_rr s evs imm fr =
  { rr_s = s; rr_evs = evs; rr_imm_tx = imm; rr_frame = fr }

(** val process_rx : cfg -> layer -> frame -> rx_report **)

let process_rx c s f =
  match pdu_decode f.f_data (c_rx_prefix_size c) with
  | Some d ->
    (match d.d_pdu with
     | PSF (esc, len, data) ->
       let p = PSF (esc, len, data) in
       let missing_escape =
         match p with
         | PSF (esc0, _, _) ->
           (&&) (Z.ltb (Zpos (Coq_xO (Coq_xO (Coq_xO Coq_xH)))) d.d_can_dl)
             (negb esc0)
         | _ -> false
       in
       if missing_escape
       then mk_rr s ((EErr MissingEscapeSequence) :: []) false false
       else let fin = fun s' evs imm fr ->
              mk_rr s' evs ((||) imm s'.pending_fc) fr
            in
            (match s.rx_state with
             | RxIdle ->
               let s1 =
                 set (fun l -> l.timer_rx_cf) (fun f0 ->
                   let t = fun r -> f0 r.timer_rx_cf in
                   (fun x -> { now = x.now; rx_state = x.rx_state;
                   rx_buffer = x.rx_buffer; rx_frame_length =
                   x.rx_frame_length; last_seqnum = x.last_seqnum;
                   rx_block_counter = x.rx_block_counter; actual_rxdl =
                   x.actual_rxdl; pending_fc = x.pending_fc;
                   pending_fc_status = x.pending_fc_status; timer_rx_cf =
                   (t x); rx_queue = x.rx_queue; tx_state = x.tx_state;
                   tx_queue = x.tx_queue; active = x.active; tx_standby =
                   x.tx_standby; last_fc = x.last_fc; remote_bs =
                   x.remote_bs; tx_block_counter = x.tx_block_counter;
                   tx_seqnum = x.tx_seqnum; wft_counter = x.wft_counter;
                   tx_frame_length = x.tx_frame_length; timer_rx_fc =
                   x.timer_rx_fc; timer_tx_stmin = x.timer_tx_stmin;
                   lim_times = x.lim_times; lim_bits = x.lim_bits;
                   lim_total = x.lim_total; next_req_id = x.next_req_id }))
                   timer_stop
                   (set (fun l -> l.rx_frame_length) (fun f0 ->
                     let z = fun r -> f0 r.rx_frame_length in
                     (fun x -> { now = x.now; rx_state = x.rx_state;
                     rx_buffer = x.rx_buffer; rx_frame_length = (z x);
                     last_seqnum = x.last_seqnum; rx_block_counter =
                     x.rx_block_counter; actual_rxdl = x.actual_rxdl;
                     pending_fc = x.pending_fc; pending_fc_status =
                     x.pending_fc_status; timer_rx_cf = x.timer_rx_cf;
                     rx_queue = x.rx_queue; tx_state = x.tx_state; tx_queue =
                     x.tx_queue; active = x.active; tx_standby =
                     x.tx_standby; last_fc = x.last_fc; remote_bs =
                     x.remote_bs; tx_block_counter = x.tx_block_counter;
                     tx_seqnum = x.tx_seqnum; wft_counter = x.wft_counter;
                     tx_frame_length = x.tx_frame_length; timer_rx_fc =
                     x.timer_rx_fc; timer_tx_stmin = x.timer_tx_stmin;
                     lim_times = x.lim_times; lim_bits = x.lim_bits;
                     lim_total = x.lim_total; next_req_id = x.next_req_id }))
                     (fun _ -> Z0) s)
               in
               (match p with
                | PSF (_, _, data0) ->
                  fin
                    (set (fun l -> l.rx_queue) (fun f0 ->
                      let l = fun r -> f0 r.rx_queue in
                      (fun x -> { now = x.now; rx_state = x.rx_state;
                      rx_buffer = x.rx_buffer; rx_frame_length =
                      x.rx_frame_length; last_seqnum = x.last_seqnum;
                      rx_block_counter = x.rx_block_counter; actual_rxdl =
                      x.actual_rxdl; pending_fc = x.pending_fc;
                      pending_fc_status = x.pending_fc_status; timer_rx_cf =
                      x.timer_rx_cf; rx_queue = (l x); tx_state = x.tx_state;
                      tx_queue = x.tx_queue; active = x.active; tx_standby =
                      x.tx_standby; last_fc = x.last_fc; remote_bs =
                      x.remote_bs; tx_block_counter = x.tx_block_counter;
                      tx_seqnum = x.tx_seqnum; wft_counter = x.wft_counter;
                      tx_frame_length = x.tx_frame_length; timer_rx_fc =
                      x.timer_rx_fc; timer_tx_stmin = x.timer_tx_stmin;
                      lim_times = x.lim_times; lim_bits = x.lim_bits;
                      lim_total = x.lim_total; next_req_id = x.next_req_id }))
                      (fun _ -> app s1.rx_queue (data0 :: [])) s1) [] false
                    true
                | PFF (_, len0, data0) ->
                  let (p0, started) =
                    start_reception_after_ff c s1 len0 data0 d.d_rx_dl
                  in
                  let (s2, evs) = p0 in fin s2 evs started false
                | PCF (_, _) ->
                  fin s1 ((EErr UnexpectedConsecutiveFrame) :: []) false false
                | PFC (_, _, _) -> fin s1 [] false false)
             | RxWaitCF ->
               (match p with
                | PSF (_, _, data0) ->
                  fin
                    (stop_receiving
                      (set (fun l -> l.rx_queue) (fun f0 ->
                        let l = fun r -> f0 r.rx_queue in
                        (fun x -> { now = x.now; rx_state = x.rx_state;
                        rx_buffer = x.rx_buffer; rx_frame_length =
                        x.rx_frame_length; last_seqnum = x.last_seqnum;
                        rx_block_counter = x.rx_block_counter; actual_rxdl =
                        x.actual_rxdl; pending_fc = x.pending_fc;
                        pending_fc_status = x.pending_fc_status;
                        timer_rx_cf = x.timer_rx_cf; rx_queue = (l x);
                        tx_state = x.tx_state; tx_queue = x.tx_queue;
                        active = x.active; tx_standby = x.tx_standby;
                        last_fc = x.last_fc; remote_bs = x.remote_bs;
                        tx_block_counter = x.tx_block_counter; tx_seqnum =
                        x.tx_seqnum; wft_counter = x.wft_counter;
                        tx_frame_length = x.tx_frame_length; timer_rx_fc =
                        x.timer_rx_fc; timer_tx_stmin = x.timer_tx_stmin;
                        lim_times = x.lim_times; lim_bits = x.lim_bits;
                        lim_total = x.lim_total; next_req_id =
                        x.next_req_id })) (fun _ ->
                        app s.rx_queue (data0 :: [])) s)) ((EErr
                    InterruptedWithSF) :: []) false true
                | PFF (_, len0, data0) ->
                  let (p0, started) =
                    start_reception_after_ff c s len0 data0 d.d_rx_dl
                  in
                  let (s2, evs) = p0 in
                  fin s2 (app evs ((EErr InterruptedWithFF) :: [])) started
                    false
                | PCF (sn, data0) ->
                  let expected =
                    Z.coq_land (Z.add s.last_seqnum (Zpos Coq_xH)) (Zpos
                      (Coq_xI (Coq_xI (Coq_xI Coq_xH))))
                  in
                  if Z.eqb sn expected
                  then let to_receive =
                         Z.sub s.rx_frame_length (zlen s.rx_buffer)
                       in
                       if (&&)
                            (negb (opt_eqb (Some d.d_rx_dl) s.actual_rxdl))
                            (Z.ltb d.d_rx_dl to_receive)
                       then mk_rr s ((EErr ChangingInvalidRXDL) :: []) false
                              false
                       else let s1 =
                              set (fun l -> l.rx_buffer) (fun f0 ->
                                let l = fun r -> f0 r.rx_buffer in
                                (fun x -> { now = x.now; rx_state =
                                x.rx_state; rx_buffer = (l x);
                                rx_frame_length = x.rx_frame_length;
                                last_seqnum = x.last_seqnum;
                                rx_block_counter = x.rx_block_counter;
                                actual_rxdl = x.actual_rxdl; pending_fc =
                                x.pending_fc; pending_fc_status =
                                x.pending_fc_status; timer_rx_cf =
                                x.timer_rx_cf; rx_queue = x.rx_queue;
                                tx_state = x.tx_state; tx_queue = x.tx_queue;
                                active = x.active; tx_standby = x.tx_standby;
                                last_fc = x.last_fc; remote_bs = x.remote_bs;
                                tx_block_counter = x.tx_block_counter;
                                tx_seqnum = x.tx_seqnum; wft_counter =
                                x.wft_counter; tx_frame_length =
                                x.tx_frame_length; timer_rx_fc =
                                x.timer_rx_fc; timer_tx_stmin =
                                x.timer_tx_stmin; lim_times = x.lim_times;
                                lim_bits = x.lim_bits; lim_total =
                                x.lim_total; next_req_id = x.next_req_id }))
                                (fun _ ->
                                app s.rx_buffer (ztake to_receive data0))
                                (set (fun l -> l.last_seqnum) (fun f0 ->
                                  let z = fun r -> f0 r.last_seqnum in
                                  (fun x -> { now = x.now; rx_state =
                                  x.rx_state; rx_buffer = x.rx_buffer;
                                  rx_frame_length = x.rx_frame_length;
                                  last_seqnum = (z x); rx_block_counter =
                                  x.rx_block_counter; actual_rxdl =
                                  x.actual_rxdl; pending_fc = x.pending_fc;
                                  pending_fc_status = x.pending_fc_status;
                                  timer_rx_cf = x.timer_rx_cf; rx_queue =
                                  x.rx_queue; tx_state = x.tx_state;
                                  tx_queue = x.tx_queue; active = x.active;
                                  tx_standby = x.tx_standby; last_fc =
                                  x.last_fc; remote_bs = x.remote_bs;
                                  tx_block_counter = x.tx_block_counter;
                                  tx_seqnum = x.tx_seqnum; wft_counter =
                                  x.wft_counter; tx_frame_length =
                                  x.tx_frame_length; timer_rx_fc =
                                  x.timer_rx_fc; timer_tx_stmin =
                                  x.timer_tx_stmin; lim_times = x.lim_times;
                                  lim_bits = x.lim_bits; lim_total =
                                  x.lim_total; next_req_id = x.next_req_id }))
                                  (fun _ -> sn) (start_rx_cf_timer c s))
                            in
                            if Z.leb s1.rx_frame_length (zlen s1.rx_buffer)
                            then fin
                                   (stop_receiving
                                     (set (fun l -> l.rx_queue) (fun f0 ->
                                       let l = fun r -> f0 r.rx_queue in
                                       (fun x -> { now = x.now; rx_state =
                                       x.rx_state; rx_buffer = x.rx_buffer;
                                       rx_frame_length = x.rx_frame_length;
                                       last_seqnum = x.last_seqnum;
                                       rx_block_counter = x.rx_block_counter;
                                       actual_rxdl = x.actual_rxdl;
                                       pending_fc = x.pending_fc;
                                       pending_fc_status =
                                       x.pending_fc_status; timer_rx_cf =
                                       x.timer_rx_cf; rx_queue = (l x);
                                       tx_state = x.tx_state; tx_queue =
                                       x.tx_queue; active = x.active;
                                       tx_standby = x.tx_standby; last_fc =
                                       x.last_fc; remote_bs = x.remote_bs;
                                       tx_block_counter = x.tx_block_counter;
                                       tx_seqnum = x.tx_seqnum; wft_counter =
                                       x.wft_counter; tx_frame_length =
                                       x.tx_frame_length; timer_rx_fc =
                                       x.timer_rx_fc; timer_tx_stmin =
                                       x.timer_tx_stmin; lim_times =
                                       x.lim_times; lim_bits = x.lim_bits;
                                       lim_total = x.lim_total; next_req_id =
                                       x.next_req_id })) (fun _ ->
                                       app s1.rx_queue (s1.rx_buffer :: []))
                                       s1)) [] false true
                            else let s2 =
                                   set (fun l -> l.rx_block_counter)
                                     (fun f0 ->
                                     let z = fun r -> f0 r.rx_block_counter in
                                     (fun x -> { now = x.now; rx_state =
                                     x.rx_state; rx_buffer = x.rx_buffer;
                                     rx_frame_length = x.rx_frame_length;
                                     last_seqnum = x.last_seqnum;
                                     rx_block_counter = (z x); actual_rxdl =
                                     x.actual_rxdl; pending_fc =
                                     x.pending_fc; pending_fc_status =
                                     x.pending_fc_status; timer_rx_cf =
                                     x.timer_rx_cf; rx_queue = x.rx_queue;
                                     tx_state = x.tx_state; tx_queue =
                                     x.tx_queue; active = x.active;
                                     tx_standby = x.tx_standby; last_fc =
                                     x.last_fc; remote_bs = x.remote_bs;
                                     tx_block_counter = x.tx_block_counter;
                                     tx_seqnum = x.tx_seqnum; wft_counter =
                                     x.wft_counter; tx_frame_length =
                                     x.tx_frame_length; timer_rx_fc =
                                     x.timer_rx_fc; timer_tx_stmin =
                                     x.timer_tx_stmin; lim_times =
                                     x.lim_times; lim_bits = x.lim_bits;
                                     lim_total = x.lim_total; next_req_id =
                                     x.next_req_id })) (fun _ ->
                                     Z.add s1.rx_block_counter (Zpos Coq_xH))
                                     s1
                                 in
                                 if (&&) (Z.ltb Z0 c.c_p.p_blocksize)
                                      (Z.eqb
                                        (Z.modulo s2.rx_block_counter
                                          c.c_p.p_blocksize) Z0)
                                 then fin
                                        (set (fun l -> l.timer_rx_cf)
                                          (fun f0 ->
                                          let t = fun r -> f0 r.timer_rx_cf in
                                          (fun x -> { now = x.now; rx_state =
                                          x.rx_state; rx_buffer =
                                          x.rx_buffer; rx_frame_length =
                                          x.rx_frame_length; last_seqnum =
                                          x.last_seqnum; rx_block_counter =
                                          x.rx_block_counter; actual_rxdl =
                                          x.actual_rxdl; pending_fc =
                                          x.pending_fc; pending_fc_status =
                                          x.pending_fc_status; timer_rx_cf =
                                          (t x); rx_queue = x.rx_queue;
                                          tx_state = x.tx_state; tx_queue =
                                          x.tx_queue; active = x.active;
                                          tx_standby = x.tx_standby;
                                          last_fc = x.last_fc; remote_bs =
                                          x.remote_bs; tx_block_counter =
                                          x.tx_block_counter; tx_seqnum =
                                          x.tx_seqnum; wft_counter =
                                          x.wft_counter; tx_frame_length =
                                          x.tx_frame_length; timer_rx_fc =
                                          x.timer_rx_fc; timer_tx_stmin =
                                          x.timer_tx_stmin; lim_times =
                                          x.lim_times; lim_bits = x.lim_bits;
                                          lim_total = x.lim_total;
                                          next_req_id = x.next_req_id }))
                                          timer_stop
                                          (request_tx_fc coq_FS_CTS s2)) []
                                        true false
                                 else fin s2 [] false false
                  else fin (stop_receiving s) ((EErr
                         WrongSequenceNumber) :: []) false false
                | PFC (_, _, _) -> fin s [] false false))
     | PFF (esc, len, data) ->
       let p = PFF (esc, len, data) in
       let missing_escape =
         match p with
         | PSF (esc0, _, _) ->
           (&&) (Z.ltb (Zpos (Coq_xO (Coq_xO (Coq_xO Coq_xH)))) d.d_can_dl)
             (negb esc0)
         | _ -> false
       in
       if missing_escape
       then mk_rr s ((EErr MissingEscapeSequence) :: []) false false
       else let fin = fun s' evs imm fr ->
              mk_rr s' evs ((||) imm s'.pending_fc) fr
            in
            (match s.rx_state with
             | RxIdle ->
               let s1 =
                 set (fun l -> l.timer_rx_cf) (fun f0 ->
                   let t = fun r -> f0 r.timer_rx_cf in
                   (fun x -> { now = x.now; rx_state = x.rx_state;
                   rx_buffer = x.rx_buffer; rx_frame_length =
                   x.rx_frame_length; last_seqnum = x.last_seqnum;
                   rx_block_counter = x.rx_block_counter; actual_rxdl =
                   x.actual_rxdl; pending_fc = x.pending_fc;
                   pending_fc_status = x.pending_fc_status; timer_rx_cf =
                   (t x); rx_queue = x.rx_queue; tx_state = x.tx_state;
                   tx_queue = x.tx_queue; active = x.active; tx_standby =
                   x.tx_standby; last_fc = x.last_fc; remote_bs =
                   x.remote_bs; tx_block_counter = x.tx_block_counter;
                   tx_seqnum = x.tx_seqnum; wft_counter = x.wft_counter;
                   tx_frame_length = x.tx_frame_length; timer_rx_fc =
                   x.timer_rx_fc; timer_tx_stmin = x.timer_tx_stmin;
                   lim_times = x.lim_times; lim_bits = x.lim_bits;
                   lim_total = x.lim_total; next_req_id = x.next_req_id }))
                   timer_stop
                   (set (fun l -> l.rx_frame_length) (fun f0 ->
                     let z = fun r -> f0 r.rx_frame_length in
                     (fun x -> { now = x.now; rx_state = x.rx_state;
                     rx_buffer = x.rx_buffer; rx_frame_length = (z x);
                     last_seqnum = x.last_seqnum; rx_block_counter =
                     x.rx_block_counter; actual_rxdl = x.actual_rxdl;
                     pending_fc = x.pending_fc; pending_fc_status =
                     x.pending_fc_status; timer_rx_cf = x.timer_rx_cf;
                     rx_queue = x.rx_queue; tx_state = x.tx_state; tx_queue =
                     x.tx_queue; active = x.active; tx_standby =
                     x.tx_standby; last_fc = x.last_fc; remote_bs =
                     x.remote_bs; tx_block_counter = x.tx_block_counter;
                     tx_seqnum = x.tx_seqnum; wft_counter = x.wft_counter;
                     tx_frame_length = x.tx_frame_length; timer_rx_fc =
                     x.timer_rx_fc; timer_tx_stmin = x.timer_tx_stmin;
                     lim_times = x.lim_times; lim_bits = x.lim_bits;
                     lim_total = x.lim_total; next_req_id = x.next_req_id }))
                     (fun _ -> Z0) s)
               in
               (match p with
                | PSF (_, _, data0) ->
                  fin
                    (set (fun l -> l.rx_queue) (fun f0 ->
                      let l = fun r -> f0 r.rx_queue in
                      (fun x -> { now = x.now; rx_state = x.rx_state;
                      rx_buffer = x.rx_buffer; rx_frame_length =
                      x.rx_frame_length; last_seqnum = x.last_seqnum;
                      rx_block_counter = x.rx_block_counter; actual_rxdl =
                      x.actual_rxdl; pending_fc = x.pending_fc;
                      pending_fc_status = x.pending_fc_status; timer_rx_cf =
                      x.timer_rx_cf; rx_queue = (l x); tx_state = x.tx_state;
                      tx_queue = x.tx_queue; active = x.active; tx_standby =
                      x.tx_standby; last_fc = x.last_fc; remote_bs =
                      x.remote_bs; tx_block_counter = x.tx_block_counter;
                      tx_seqnum = x.tx_seqnum; wft_counter = x.wft_counter;
                      tx_frame_length = x.tx_frame_length; timer_rx_fc =
                      x.timer_rx_fc; timer_tx_stmin = x.timer_tx_stmin;
                      lim_times = x.lim_times; lim_bits = x.lim_bits;
                      lim_total = x.lim_total; next_req_id = x.next_req_id }))
                      (fun _ -> app s1.rx_queue (data0 :: [])) s1) [] false
                    true
                | PFF (_, len0, data0) ->
                  let (p0, started) =
                    start_reception_after_ff c s1 len0 data0 d.d_rx_dl
                  in
                  let (s2, evs) = p0 in fin s2 evs started false
                | PCF (_, _) ->
                  fin s1 ((EErr UnexpectedConsecutiveFrame) :: []) false false
                | PFC (_, _, _) -> fin s1 [] false false)
             | RxWaitCF ->
               (match p with
                | PSF (_, _, data0) ->
                  fin
                    (stop_receiving
                      (set (fun l -> l.rx_queue) (fun f0 ->
                        let l = fun r -> f0 r.rx_queue in
                        (fun x -> { now = x.now; rx_state = x.rx_state;
                        rx_buffer = x.rx_buffer; rx_frame_length =
                        x.rx_frame_length; last_seqnum = x.last_seqnum;
                        rx_block_counter = x.rx_block_counter; actual_rxdl =
                        x.actual_rxdl; pending_fc = x.pending_fc;
                        pending_fc_status = x.pending_fc_status;
                        timer_rx_cf = x.timer_rx_cf; rx_queue = (l x);
                        tx_state = x.tx_state; tx_queue = x.tx_queue;
                        active = x.active; tx_standby = x.tx_standby;
                        last_fc = x.last_fc; remote_bs = x.remote_bs;
                        tx_block_counter = x.tx_block_counter; tx_seqnum =
                        x.tx_seqnum; wft_counter = x.wft_counter;
                        tx_frame_length = x.tx_frame_length; timer_rx_fc =
                        x.timer_rx_fc; timer_tx_stmin = x.timer_tx_stmin;
                        lim_times = x.lim_times; lim_bits = x.lim_bits;
                        lim_total = x.lim_total; next_req_id =
                        x.next_req_id })) (fun _ ->
                        app s.rx_queue (data0 :: [])) s)) ((EErr
                    InterruptedWithSF) :: []) false true
                | PFF (_, len0, data0) ->
                  let (p0, started) =
                    start_reception_after_ff c s len0 data0 d.d_rx_dl
                  in
                  let (s2, evs) = p0 in
                  fin s2 (app evs ((EErr InterruptedWithFF) :: [])) started
                    false
                | PCF (sn, data0) ->
                  let expected =
                    Z.coq_land (Z.add s.last_seqnum (Zpos Coq_xH)) (Zpos
                      (Coq_xI (Coq_xI (Coq_xI Coq_xH))))
                  in
                  if Z.eqb sn expected
                  then let to_receive =
                         Z.sub s.rx_frame_length (zlen s.rx_buffer)
                       in
                       if (&&)
                            (negb (opt_eqb (Some d.d_rx_dl) s.actual_rxdl))
                            (Z.ltb d.d_rx_dl to_receive)
                       then mk_rr s ((EErr ChangingInvalidRXDL) :: []) false
                              false
                       else let s1 =
                              set (fun l -> l.rx_buffer) (fun f0 ->
                                let l = fun r -> f0 r.rx_buffer in
                                (fun x -> { now = x.now; rx_state =
                                x.rx_state; rx_buffer = (l x);
                                rx_frame_length = x.rx_frame_length;
                                last_seqnum = x.last_seqnum;
                                rx_block_counter = x.rx_block_counter;
                                actual_rxdl = x.actual_rxdl; pending_fc =
                                x.pending_fc; pending_fc_status =
                                x.pending_fc_status; timer_rx_cf =
                                x.timer_rx_cf; rx_queue = x.rx_queue;
                                tx_state = x.tx_state; tx_queue = x.tx_queue;
                                active = x.active; tx_standby = x.tx_standby;
                                last_fc = x.last_fc; remote_bs = x.remote_bs;
                                tx_block_counter = x.tx_block_counter;
                                tx_seqnum = x.tx_seqnum; wft_counter =
                                x.wft_counter; tx_frame_length =
                                x.tx_frame_length; timer_rx_fc =
                                x.timer_rx_fc; timer_tx_stmin =
                                x.timer_tx_stmin; lim_times = x.lim_times;
                                lim_bits = x.lim_bits; lim_total =
                                x.lim_total; next_req_id = x.next_req_id }))
                                (fun _ ->
                                app s.rx_buffer (ztake to_receive data0))
                                (set (fun l -> l.last_seqnum) (fun f0 ->
                                  let z = fun r -> f0 r.last_seqnum in
                                  (fun x -> { now = x.now; rx_state =
                                  x.rx_state; rx_buffer = x.rx_buffer;
                                  rx_frame_length = x.rx_frame_length;
                                  last_seqnum = (z x); rx_block_counter =
                                  x.rx_block_counter; actual_rxdl =
                                  x.actual_rxdl; pending_fc = x.pending_fc;
                                  pending_fc_status = x.pending_fc_status;
                                  timer_rx_cf = x.timer_rx_cf; rx_queue =
                                  x.rx_queue; tx_state = x.tx_state;
                                  tx_queue = x.tx_queue; active = x.active;
                                  tx_standby = x.tx_standby; last_fc =
                                  x.last_fc; remote_bs = x.remote_bs;
                                  tx_block_counter = x.tx_block_counter;
                                  tx_seqnum = x.tx_seqnum; wft_counter =
                                  x.wft_counter; tx_frame_length =
                                  x.tx_frame_length; timer_rx_fc =
                                  x.timer_rx_fc; timer_tx_stmin =
                                  x.timer_tx_stmin; lim_times = x.lim_times;
                                  lim_bits = x.lim_bits; lim_total =
                                  x.lim_total; next_req_id = x.next_req_id }))
                                  (fun _ -> sn) (start_rx_cf_timer c s))
                            in
                            if Z.leb s1.rx_frame_length (zlen s1.rx_buffer)
                            then fin
                                   (stop_receiving
                                     (set (fun l -> l.rx_queue) (fun f0 ->
                                       let l = fun r -> f0 r.rx_queue in
                                       (fun x -> { now = x.now; rx_state =
                                       x.rx_state; rx_buffer = x.rx_buffer;
                                       rx_frame_length = x.rx_frame_length;
                                       last_seqnum = x.last_seqnum;
                                       rx_block_counter = x.rx_block_counter;
                                       actual_rxdl = x.actual_rxdl;
                                       pending_fc = x.pending_fc;
                                       pending_fc_status =
                                       x.pending_fc_status; timer_rx_cf =
                                       x.timer_rx_cf; rx_queue = (l x);
                                       tx_state = x.tx_state; tx_queue =
                                       x.tx_queue; active = x.active;
                                       tx_standby = x.tx_standby; last_fc =
                                       x.last_fc; remote_bs = x.remote_bs;
                                       tx_block_counter = x.tx_block_counter;
                                       tx_seqnum = x.tx_seqnum; wft_counter =
                                       x.wft_counter; tx_frame_length =
                                       x.tx_frame_length; timer_rx_fc =
                                       x.timer_rx_fc; timer_tx_stmin =
                                       x.timer_tx_stmin; lim_times =
                                       x.lim_times; lim_bits = x.lim_bits;
                                       lim_total = x.lim_total; next_req_id =
                                       x.next_req_id })) (fun _ ->
                                       app s1.rx_queue (s1.rx_buffer :: []))
                                       s1)) [] false true
                            else let s2 =
                                   set (fun l -> l.rx_block_counter)
                                     (fun f0 ->
                                     let z = fun r -> f0 r.rx_block_counter in
                                     (fun x -> { now = x.now; rx_state =
                                     x.rx_state; rx_buffer = x.rx_buffer;
                                     rx_frame_length = x.rx_frame_length;
                                     last_seqnum = x.last_seqnum;
                                     rx_block_counter = (z x); actual_rxdl =
                                     x.actual_rxdl; pending_fc =
                                     x.pending_fc; pending_fc_status =
                                     x.pending_fc_status; timer_rx_cf =
                                     x.timer_rx_cf; rx_queue = x.rx_queue;
                                     tx_state = x.tx_state; tx_queue =
                                     x.tx_queue; active = x.active;
                                     tx_standby = x.tx_standby; last_fc =
                                     x.last_fc; remote_bs = x.remote_bs;
                                     tx_block_counter = x.tx_block_counter;
                                     tx_seqnum = x.tx_seqnum; wft_counter =
                                     x.wft_counter; tx_frame_length =
                                     x.tx_frame_length; timer_rx_fc =
                                     x.timer_rx_fc; timer_tx_stmin =
                                     x.timer_tx_stmin; lim_times =
                                     x.lim_times; lim_bits = x.lim_bits;
                                     lim_total = x.lim_total; next_req_id =
                                     x.next_req_id })) (fun _ ->
                                     Z.add s1.rx_block_counter (Zpos Coq_xH))
                                     s1
                                 in
                                 if (&&) (Z.ltb Z0 c.c_p.p_blocksize)
                                      (Z.eqb
                                        (Z.modulo s2.rx_block_counter
                                          c.c_p.p_blocksize) Z0)
                                 then fin
                                        (set (fun l -> l.timer_rx_cf)
                                          (fun f0 ->
                                          let t = fun r -> f0 r.timer_rx_cf in
                                          (fun x -> { now = x.now; rx_state =
                                          x.rx_state; rx_buffer =
                                          x.rx_buffer; rx_frame_length =
                                          x.rx_frame_length; last_seqnum =
                                          x.last_seqnum; rx_block_counter =
                                          x.rx_block_counter; actual_rxdl =
                                          x.actual_rxdl; pending_fc =
                                          x.pending_fc; pending_fc_status =
                                          x.pending_fc_status; timer_rx_cf =
                                          (t x); rx_queue = x.rx_queue;
                                          tx_state = x.tx_state; tx_queue =
                                          x.tx_queue; active = x.active;
                                          tx_standby = x.tx_standby;
                                          last_fc = x.last_fc; remote_bs =
                                          x.remote_bs; tx_block_counter =
                                          x.tx_block_counter; tx_seqnum =
                                          x.tx_seqnum; wft_counter =
                                          x.wft_counter; tx_frame_length =
                                          x.tx_frame_length; timer_rx_fc =
                                          x.timer_rx_fc; timer_tx_stmin =
                                          x.timer_tx_stmin; lim_times =
                                          x.lim_times; lim_bits = x.lim_bits;
                                          lim_total = x.lim_total;
                                          next_req_id = x.next_req_id }))
                                          timer_stop
                                          (request_tx_fc coq_FS_CTS s2)) []
                                        true false
                                 else fin s2 [] false false
                  else fin (stop_receiving s) ((EErr
                         WrongSequenceNumber) :: []) false false
                | PFC (_, _, _) -> fin s [] false false))
     | PCF (sn, data) ->
       let p = PCF (sn, data) in
       let missing_escape =
         match p with
         | PSF (esc, _, _) ->
           (&&) (Z.ltb (Zpos (Coq_xO (Coq_xO (Coq_xO Coq_xH)))) d.d_can_dl)
             (negb esc)
         | _ -> false
       in
       if missing_escape
       then mk_rr s ((EErr MissingEscapeSequence) :: []) false false
       else let fin = fun s' evs imm fr ->
              mk_rr s' evs ((||) imm s'.pending_fc) fr
            in
            (match s.rx_state with
             | RxIdle ->
               let s1 =
                 set (fun l -> l.timer_rx_cf) (fun f0 ->
                   let t = fun r -> f0 r.timer_rx_cf in
                   (fun x -> { now = x.now; rx_state = x.rx_state;
                   rx_buffer = x.rx_buffer; rx_frame_length =
                   x.rx_frame_length; last_seqnum = x.last_seqnum;
                   rx_block_counter = x.rx_block_counter; actual_rxdl =
                   x.actual_rxdl; pending_fc = x.pending_fc;
                   pending_fc_status = x.pending_fc_status; timer_rx_cf =
                   (t x); rx_queue = x.rx_queue; tx_state = x.tx_state;
                   tx_queue = x.tx_queue; active = x.active; tx_standby =
                   x.tx_standby; last_fc = x.last_fc; remote_bs =
                   x.remote_bs; tx_block_counter = x.tx_block_counter;
                   tx_seqnum = x.tx_seqnum; wft_counter = x.wft_counter;
                   tx_frame_length = x.tx_frame_length; timer_rx_fc =
                   x.timer_rx_fc; timer_tx_stmin = x.timer_tx_stmin;
                   lim_times = x.lim_times; lim_bits = x.lim_bits;
                   lim_total = x.lim_total; next_req_id = x.next_req_id }))
                   timer_stop
                   (set (fun l -> l.rx_frame_length) (fun f0 ->
                     let z = fun r -> f0 r.rx_frame_length in
                     (fun x -> { now = x.now; rx_state = x.rx_state;
                     rx_buffer = x.rx_buffer; rx_frame_length = (z x);
                     last_seqnum = x.last_seqnum; rx_block_counter =
                     x.rx_block_counter; actual_rxdl = x.actual_rxdl;
                     pending_fc = x.pending_fc; pending_fc_status =
                     x.pending_fc_status; timer_rx_cf = x.timer_rx_cf;
                     rx_queue = x.rx_queue; tx_state = x.tx_state; tx_queue =
                     x.tx_queue; active = x.active; tx_standby =
                     x.tx_standby; last_fc = x.last_fc; remote_bs =
                     x.remote_bs; tx_block_counter = x.tx_block_counter;
                     tx_seqnum = x.tx_seqnum; wft_counter = x.wft_counter;
                     tx_frame_length = x.tx_frame_length; timer_rx_fc =
                     x.timer_rx_fc; timer_tx_stmin = x.timer_tx_stmin;
                     lim_times = x.lim_times; lim_bits = x.lim_bits;
                     lim_total = x.lim_total; next_req_id = x.next_req_id }))
                     (fun _ -> Z0) s)
               in
               (match p with
                | PSF (_, _, data0) ->
                  fin
                    (set (fun l -> l.rx_queue) (fun f0 ->
                      let l = fun r -> f0 r.rx_queue in
                      (fun x -> { now = x.now; rx_state = x.rx_state;
                      rx_buffer = x.rx_buffer; rx_frame_length =
                      x.rx_frame_length; last_seqnum = x.last_seqnum;
                      rx_block_counter = x.rx_block_counter; actual_rxdl =
                      x.actual_rxdl; pending_fc = x.pending_fc;
                      pending_fc_status = x.pending_fc_status; timer_rx_cf =
                      x.timer_rx_cf; rx_queue = (l x); tx_state = x.tx_state;
                      tx_queue = x.tx_queue; active = x.active; tx_standby =
                      x.tx_standby; last_fc = x.last_fc; remote_bs =
                      x.remote_bs; tx_block_counter = x.tx_block_counter;
                      tx_seqnum = x.tx_seqnum; wft_counter = x.wft_counter;
                      tx_frame_length = x.tx_frame_length; timer_rx_fc =
                      x.timer_rx_fc; timer_tx_stmin = x.timer_tx_stmin;
                      lim_times = x.lim_times; lim_bits = x.lim_bits;
                      lim_total = x.lim_total; next_req_id = x.next_req_id }))
                      (fun _ -> app s1.rx_queue (data0 :: [])) s1) [] false
                    true
                | PFF (_, len, data0) ->
                  let (p0, started) =
                    start_reception_after_ff c s1 len data0 d.d_rx_dl
                  in
                  let (s2, evs) = p0 in fin s2 evs started false
                | PCF (_, _) ->
                  fin s1 ((EErr UnexpectedConsecutiveFrame) :: []) false false
                | PFC (_, _, _) -> fin s1 [] false false)
             | RxWaitCF ->
               (match p with
                | PSF (_, _, data0) ->
                  fin
                    (stop_receiving
                      (set (fun l -> l.rx_queue) (fun f0 ->
                        let l = fun r -> f0 r.rx_queue in
                        (fun x -> { now = x.now; rx_state = x.rx_state;
                        rx_buffer = x.rx_buffer; rx_frame_length =
                        x.rx_frame_length; last_seqnum = x.last_seqnum;
                        rx_block_counter = x.rx_block_counter; actual_rxdl =
                        x.actual_rxdl; pending_fc = x.pending_fc;
                        pending_fc_status = x.pending_fc_status;
                        timer_rx_cf = x.timer_rx_cf; rx_queue = (l x);
                        tx_state = x.tx_state; tx_queue = x.tx_queue;
                        active = x.active; tx_standby = x.tx_standby;
                        last_fc = x.last_fc; remote_bs = x.remote_bs;
                        tx_block_counter = x.tx_block_counter; tx_seqnum =
                        x.tx_seqnum; wft_counter = x.wft_counter;
                        tx_frame_length = x.tx_frame_length; timer_rx_fc =
                        x.timer_rx_fc; timer_tx_stmin = x.timer_tx_stmin;
                        lim_times = x.lim_times; lim_bits = x.lim_bits;
                        lim_total = x.lim_total; next_req_id =
                        x.next_req_id })) (fun _ ->
                        app s.rx_queue (data0 :: [])) s)) ((EErr
                    InterruptedWithSF) :: []) false true
                | PFF (_, len, data0) ->
                  let (p0, started) =
                    start_reception_after_ff c s len data0 d.d_rx_dl
                  in
                  let (s2, evs) = p0 in
                  fin s2 (app evs ((EErr InterruptedWithFF) :: [])) started
                    false
                | PCF (sn0, data0) ->
                  let expected =
                    Z.coq_land (Z.add s.last_seqnum (Zpos Coq_xH)) (Zpos
                      (Coq_xI (Coq_xI (Coq_xI Coq_xH))))
                  in
                  if Z.eqb sn0 expected
                  then let to_receive =
                         Z.sub s.rx_frame_length (zlen s.rx_buffer)
                       in
                       if (&&)
                            (negb (opt_eqb (Some d.d_rx_dl) s.actual_rxdl))
                            (Z.ltb d.d_rx_dl to_receive)
                       then mk_rr s ((EErr ChangingInvalidRXDL) :: []) false
                              false
                       else let s1 =
                              set (fun l -> l.rx_buffer) (fun f0 ->
                                let l = fun r -> f0 r.rx_buffer in
                                (fun x -> { now = x.now; rx_state =
                                x.rx_state; rx_buffer = (l x);
                                rx_frame_length = x.rx_frame_length;
                                last_seqnum = x.last_seqnum;
                                rx_block_counter = x.rx_block_counter;
                                actual_rxdl = x.actual_rxdl; pending_fc =
                                x.pending_fc; pending_fc_status =
                                x.pending_fc_status; timer_rx_cf =
                                x.timer_rx_cf; rx_queue = x.rx_queue;
                                tx_state = x.tx_state; tx_queue = x.tx_queue;
                                active = x.active; tx_standby = x.tx_standby;
                                last_fc = x.last_fc; remote_bs = x.remote_bs;
                                tx_block_counter = x.tx_block_counter;
                                tx_seqnum = x.tx_seqnum; wft_counter =
                                x.wft_counter; tx_frame_length =
                                x.tx_frame_length; timer_rx_fc =
                                x.timer_rx_fc; timer_tx_stmin =
                                x.timer_tx_stmin; lim_times = x.lim_times;
                                lim_bits = x.lim_bits; lim_total =
                                x.lim_total; next_req_id = x.next_req_id }))
                                (fun _ ->
                                app s.rx_buffer (ztake to_receive data0))
                                (set (fun l -> l.last_seqnum) (fun f0 ->
                                  let z = fun r -> f0 r.last_seqnum in
                                  (fun x -> { now = x.now; rx_state =
                                  x.rx_state; rx_buffer = x.rx_buffer;
                                  rx_frame_length = x.rx_frame_length;
                                  last_seqnum = (z x); rx_block_counter =
                                  x.rx_block_counter; actual_rxdl =
                                  x.actual_rxdl; pending_fc = x.pending_fc;
                                  pending_fc_status = x.pending_fc_status;
                                  timer_rx_cf = x.timer_rx_cf; rx_queue =
                                  x.rx_queue; tx_state = x.tx_state;
                                  tx_queue = x.tx_queue; active = x.active;
                                  tx_standby = x.tx_standby; last_fc =
                                  x.last_fc; remote_bs = x.remote_bs;
                                  tx_block_counter = x.tx_block_counter;
                                  tx_seqnum = x.tx_seqnum; wft_counter =
                                  x.wft_counter; tx_frame_length =
                                  x.tx_frame_length; timer_rx_fc =
                                  x.timer_rx_fc; timer_tx_stmin =
                                  x.timer_tx_stmin; lim_times = x.lim_times;
                                  lim_bits = x.lim_bits; lim_total =
                                  x.lim_total; next_req_id = x.next_req_id }))
                                  (fun _ -> sn0) (start_rx_cf_timer c s))
                            in
                            if Z.leb s1.rx_frame_length (zlen s1.rx_buffer)
                            then fin
                                   (stop_receiving
                                     (set (fun l -> l.rx_queue) (fun f0 ->
                                       let l = fun r -> f0 r.rx_queue in
                                       (fun x -> { now = x.now; rx_state =
                                       x.rx_state; rx_buffer = x.rx_buffer;
                                       rx_frame_length = x.rx_frame_length;
                                       last_seqnum = x.last_seqnum;
                                       rx_block_counter = x.rx_block_counter;
                                       actual_rxdl = x.actual_rxdl;
                                       pending_fc = x.pending_fc;
                                       pending_fc_status =
                                       x.pending_fc_status; timer_rx_cf =
                                       x.timer_rx_cf; rx_queue = (l x);
                                       tx_state = x.tx_state; tx_queue =
                                       x.tx_queue; active = x.active;
                                       tx_standby = x.tx_standby; last_fc =
                                       x.last_fc; remote_bs = x.remote_bs;
                                       tx_block_counter = x.tx_block_counter;
                                       tx_seqnum = x.tx_seqnum; wft_counter =
                                       x.wft_counter; tx_frame_length =
                                       x.tx_frame_length; timer_rx_fc =
                                       x.timer_rx_fc; timer_tx_stmin =
                                       x.timer_tx_stmin; lim_times =
                                       x.lim_times; lim_bits = x.lim_bits;
                                       lim_total = x.lim_total; next_req_id =
                                       x.next_req_id })) (fun _ ->
                                       app s1.rx_queue (s1.rx_buffer :: []))
                                       s1)) [] false true
                            else let s2 =
                                   set (fun l -> l.rx_block_counter)
                                     (fun f0 ->
                                     let z = fun r -> f0 r.rx_block_counter in
                                     (fun x -> { now = x.now; rx_state =
                                     x.rx_state; rx_buffer = x.rx_buffer;
                                     rx_frame_length = x.rx_frame_length;
                                     last_seqnum = x.last_seqnum;
                                     rx_block_counter = (z x); actual_rxdl =
                                     x.actual_rxdl; pending_fc =
                                     x.pending_fc; pending_fc_status =
                                     x.pending_fc_status; timer_rx_cf =
                                     x.timer_rx_cf; rx_queue = x.rx_queue;
                                     tx_state = x.tx_state; tx_queue =
                                     x.tx_queue; active = x.active;
                                     tx_standby = x.tx_standby; last_fc =
                                     x.last_fc; remote_bs = x.remote_bs;
                                     tx_block_counter = x.tx_block_counter;
                                     tx_seqnum = x.tx_seqnum; wft_counter =
                                     x.wft_counter; tx_frame_length =
                                     x.tx_frame_length; timer_rx_fc =
                                     x.timer_rx_fc; timer_tx_stmin =
                                     x.timer_tx_stmin; lim_times =
                                     x.lim_times; lim_bits = x.lim_bits;
                                     lim_total = x.lim_total; next_req_id =
                                     x.next_req_id })) (fun _ ->
                                     Z.add s1.rx_block_counter (Zpos Coq_xH))
                                     s1
                                 in
                                 if (&&) (Z.ltb Z0 c.c_p.p_blocksize)
                                      (Z.eqb
                                        (Z.modulo s2.rx_block_counter
                                          c.c_p.p_blocksize) Z0)
                                 then fin
                                        (set (fun l -> l.timer_rx_cf)
                                          (fun f0 ->
                                          let t = fun r -> f0 r.timer_rx_cf in
                                          (fun x -> { now = x.now; rx_state =
                                          x.rx_state; rx_buffer =
                                          x.rx_buffer; rx_frame_length =
                                          x.rx_frame_length; last_seqnum =
                                          x.last_seqnum; rx_block_counter =
                                          x.rx_block_counter; actual_rxdl =
                                          x.actual_rxdl; pending_fc =
                                          x.pending_fc; pending_fc_status =
                                          x.pending_fc_status; timer_rx_cf =
                                          (t x); rx_queue = x.rx_queue;
                                          tx_state = x.tx_state; tx_queue =
                                          x.tx_queue; active = x.active;
                                          tx_standby = x.tx_standby;
                                          last_fc = x.last_fc; remote_bs =
                                          x.remote_bs; tx_block_counter =
                                          x.tx_block_counter; tx_seqnum =
                                          x.tx_seqnum; wft_counter =
                                          x.wft_counter; tx_frame_length =
                                          x.tx_frame_length; timer_rx_fc =
                                          x.timer_rx_fc; timer_tx_stmin =
                                          x.timer_tx_stmin; lim_times =
                                          x.lim_times; lim_bits = x.lim_bits;
                                          lim_total = x.lim_total;
                                          next_req_id = x.next_req_id }))
                                          timer_stop
                                          (request_tx_fc coq_FS_CTS s2)) []
                                        true false
                                 else fin s2 [] false false
                  else fin (stop_receiving s) ((EErr
                         WrongSequenceNumber) :: []) false false
                | PFC (_, _, _) -> fin s [] false false))
     | PFC (fs, bs, st) ->
       mk_rr
         (set (fun l -> l.last_fc) (fun f0 ->
           let o = fun r -> f0 r.last_fc in
           (fun x -> { now = x.now; rx_state = x.rx_state; rx_buffer =
           x.rx_buffer; rx_frame_length = x.rx_frame_length; last_seqnum =
           x.last_seqnum; rx_block_counter = x.rx_block_counter;
           actual_rxdl = x.actual_rxdl; pending_fc = x.pending_fc;
           pending_fc_status = x.pending_fc_status; timer_rx_cf =
           x.timer_rx_cf; rx_queue = x.rx_queue; tx_state = x.tx_state;
           tx_queue = x.tx_queue; active = x.active; tx_standby =
           x.tx_standby; last_fc = (o x); remote_bs = x.remote_bs;
           tx_block_counter = x.tx_block_counter; tx_seqnum = x.tx_seqnum;
           wft_counter = x.wft_counter; tx_frame_length = x.tx_frame_length;
           timer_rx_fc = x.timer_rx_fc; timer_tx_stmin = x.timer_tx_stmin;
           lim_times = x.lim_times; lim_bits = x.lim_bits; lim_total =
           x.lim_total; next_req_id = x.next_req_id })) (fun _ -> Some
           { fc_status = fs; fc_bs = bs; fc_stmin = st }) s) [] true false)
  | None -> mk_rr (stop_receiving s) ((EErr InvalidCanData) :: []) false false

type tx_report = { tr_s : layer; tr_evs : event list; tr_msg : frame option;
                   tr_imm_rx : bool; tr_crash : bool }

(** val mk_tr : layer -> event list -> frame option -> bool -> tx_report **)

let mk_tr s evs msg imm =
  { tr_s = s; tr_evs = evs; tr_msg = msg; tr_imm_rx = imm; tr_crash = false }

(** val mk_crash : layer -> event list -> coq_Z -> tx_report **)

let mk_crash s evs site =
  { tr_s = s; tr_evs = (app evs ((ECrash site) :: [])); tr_msg = None;
    tr_imm_rx = false; tr_crash = true }

(** val sf_on_first_byte : cfg -> coq_Z -> bool **)

let sf_on_first_byte c remaining =
  (&&)
    (Z.leb (Z.add remaining (zlen (c_tx_prefix c))) (Zpos (Coq_xI (Coq_xI
      Coq_xH))))
    (negb
      (match c.c_p.p_tx_min_len with
       | Some m -> Z.ltb (Zpos (Coq_xO (Coq_xO (Coq_xO Coq_xH)))) m
       | None -> false))

type start_result =
| SRCrash of coq_Z
| SRDone of layer * event list * frame option

(** val start_request : cfg -> layer -> request -> coq_Z -> start_result **)

let start_request c s r allowed =
  let pfx = c_tx_prefix c in
  let plen = zlen pfx in
  let on_first = sf_on_first_byte c (r_remaining r) in
  let size_offset = if on_first then Zpos Coq_xH else Zpos (Coq_xO Coq_xH) in
  let total = r.r_size in
  let tx_dl = c.c_p.p_tx_dl in
  let bad = fun r' s' ->
    let (s2, evs) =
      stop_sending false
        (set (fun l -> l.active) (fun f ->
          let o = fun r0 -> f r0.active in
          (fun x -> { now = x.now; rx_state = x.rx_state; rx_buffer =
          x.rx_buffer; rx_frame_length = x.rx_frame_length; last_seqnum =
          x.last_seqnum; rx_block_counter = x.rx_block_counter; actual_rxdl =
          x.actual_rxdl; pending_fc = x.pending_fc; pending_fc_status =
          x.pending_fc_status; timer_rx_cf = x.timer_rx_cf; rx_queue =
          x.rx_queue; tx_state = x.tx_state; tx_queue = x.tx_queue; active =
          (o x); tx_standby = x.tx_standby; last_fc = x.last_fc; remote_bs =
          x.remote_bs; tx_block_counter = x.tx_block_counter; tx_seqnum =
          x.tx_seqnum; wft_counter = x.wft_counter; tx_frame_length =
          x.tx_frame_length; timer_rx_fc = x.timer_rx_fc; timer_tx_stmin =
          x.timer_tx_stmin; lim_times = x.lim_times; lim_bits = x.lim_bits;
          lim_total = x.lim_total; next_req_id = x.next_req_id })) (fun _ ->
          Some r') s')
    in
    SRDone (s2, ((EErr BadGenerator) :: evs), None)
  in
  if Z.leb total (Z.sub (Z.sub tx_dl size_offset) plen)
  then let (o, r') = consume total true r in
       (match o with
        | Some payload ->
          let s1 =
            set (fun l -> l.active) (fun f ->
              let o0 = fun r0 -> f r0.active in
              (fun x -> { now = x.now; rx_state = x.rx_state; rx_buffer =
              x.rx_buffer; rx_frame_length = x.rx_frame_length; last_seqnum =
              x.last_seqnum; rx_block_counter = x.rx_block_counter;
              actual_rxdl = x.actual_rxdl; pending_fc = x.pending_fc;
              pending_fc_status = x.pending_fc_status; timer_rx_cf =
              x.timer_rx_cf; rx_queue = x.rx_queue; tx_state = x.tx_state;
              tx_queue = x.tx_queue; active = (o0 x); tx_standby =
              x.tx_standby; last_fc = x.last_fc; remote_bs = x.remote_bs;
              tx_block_counter = x.tx_block_counter; tx_seqnum = x.tx_seqnum;
              wft_counter = x.wft_counter; tx_frame_length =
              x.tx_frame_length; timer_rx_fc = x.timer_rx_fc;
              timer_tx_stmin = x.timer_tx_stmin; lim_times = x.lim_times;
              lim_bits = x.lim_bits; lim_total = x.lim_total; next_req_id =
              x.next_req_id })) (fun _ -> Some r') s
          in
          let msg_data =
            app pfx
              (app
                (if on_first
                 then (Z.coq_lor Z0 (zlen payload)) :: []
                 else Z0 :: ((zlen payload) :: [])) payload)
          in
          (match make_tx_msg c (c_tx_id c r'.r_tat) msg_data with
           | Some m ->
             if Z.ltb allowed (zlen msg_data)
             then SRDone
                    ((set (fun l -> l.tx_state) (fun f ->
                       let t = fun r0 -> f r0.tx_state in
                       (fun x -> { now = x.now; rx_state = x.rx_state;
                       rx_buffer = x.rx_buffer; rx_frame_length =
                       x.rx_frame_length; last_seqnum = x.last_seqnum;
                       rx_block_counter = x.rx_block_counter; actual_rxdl =
                       x.actual_rxdl; pending_fc = x.pending_fc;
                       pending_fc_status = x.pending_fc_status; timer_rx_cf =
                       x.timer_rx_cf; rx_queue = x.rx_queue; tx_state =
                       (t x); tx_queue = x.tx_queue; active = x.active;
                       tx_standby = x.tx_standby; last_fc = x.last_fc;
                       remote_bs = x.remote_bs; tx_block_counter =
                       x.tx_block_counter; tx_seqnum = x.tx_seqnum;
                       wft_counter = x.wft_counter; tx_frame_length =
                       x.tx_frame_length; timer_rx_fc = x.timer_rx_fc;
                       timer_tx_stmin = x.timer_tx_stmin; lim_times =
                       x.lim_times; lim_bits = x.lim_bits; lim_total =
                       x.lim_total; next_req_id = x.next_req_id })) (fun _ ->
                       TxSFStandby)
                       (set (fun l -> l.tx_standby) (fun f ->
                         let o0 = fun r0 -> f r0.tx_standby in
                         (fun x -> { now = x.now; rx_state = x.rx_state;
                         rx_buffer = x.rx_buffer; rx_frame_length =
                         x.rx_frame_length; last_seqnum = x.last_seqnum;
                         rx_block_counter = x.rx_block_counter; actual_rxdl =
                         x.actual_rxdl; pending_fc = x.pending_fc;
                         pending_fc_status = x.pending_fc_status;
                         timer_rx_cf = x.timer_rx_cf; rx_queue = x.rx_queue;
                         tx_state = x.tx_state; tx_queue = x.tx_queue;
                         active = x.active; tx_standby = (o0 x); last_fc =
                         x.last_fc; remote_bs = x.remote_bs;
                         tx_block_counter = x.tx_block_counter; tx_seqnum =
                         x.tx_seqnum; wft_counter = x.wft_counter;
                         tx_frame_length = x.tx_frame_length; timer_rx_fc =
                         x.timer_rx_fc; timer_tx_stmin = x.timer_tx_stmin;
                         lim_times = x.lim_times; lim_bits = x.lim_bits;
                         lim_total = x.lim_total; next_req_id =
                         x.next_req_id })) (fun _ -> Some m) s1)), [], None)
             else let (s2, evs) = stop_sending true s1 in
                  SRDone (s2, evs, (Some m))
           | None -> SRCrash (Zpos Coq_xH))
        | None -> bad r' s)
  else let s0 =
         set (fun l -> l.tx_frame_length) (fun f ->
           let z = fun r0 -> f r0.tx_frame_length in
           (fun x -> { now = x.now; rx_state = x.rx_state; rx_buffer =
           x.rx_buffer; rx_frame_length = x.rx_frame_length; last_seqnum =
           x.last_seqnum; rx_block_counter = x.rx_block_counter;
           actual_rxdl = x.actual_rxdl; pending_fc = x.pending_fc;
           pending_fc_status = x.pending_fc_status; timer_rx_cf =
           x.timer_rx_cf; rx_queue = x.rx_queue; tx_state = x.tx_state;
           tx_queue = x.tx_queue; active = x.active; tx_standby =
           x.tx_standby; last_fc = x.last_fc; remote_bs = x.remote_bs;
           tx_block_counter = x.tx_block_counter; tx_seqnum = x.tx_seqnum;
           wft_counter = x.wft_counter; tx_frame_length = (z x);
           timer_rx_fc = x.timer_rx_fc; timer_tx_stmin = x.timer_tx_stmin;
           lim_times = x.lim_times; lim_bits = x.lim_bits; lim_total =
           x.lim_total; next_req_id = x.next_req_id })) (fun _ -> total) s
       in
       let short =
         Z.leb total (Zpos (Coq_xI (Coq_xI (Coq_xI (Coq_xI (Coq_xI (Coq_xI
           (Coq_xI (Coq_xI (Coq_xI (Coq_xI (Coq_xI Coq_xH))))))))))))
       in
       let data_length =
         if short
         then Z.sub (Z.sub tx_dl (Zpos (Coq_xO Coq_xH))) plen
         else Z.sub (Z.sub tx_dl (Zpos (Coq_xO (Coq_xI Coq_xH)))) plen
       in
       let (o, r') = consume data_length true r in
       (match o with
        | Some payload ->
          let hdr =
            if short
            then (Z.coq_lor (Zpos (Coq_xO (Coq_xO (Coq_xO (Coq_xO Coq_xH)))))
                   (Z.coq_land
                     (Z.shiftr total (Zpos (Coq_xO (Coq_xO (Coq_xO Coq_xH)))))
                     (Zpos (Coq_xI (Coq_xI (Coq_xI Coq_xH)))))) :: ((Z.coq_land
                                                                    total
                                                                    (Zpos
                                                                    (Coq_xI
                                                                    (Coq_xI
                                                                    (Coq_xI
                                                                    (Coq_xI
                                                                    (Coq_xI
                                                                    (Coq_xI
                                                                    (Coq_xI
                                                                    Coq_xH))))))))) :: [])
            else (Zpos (Coq_xO (Coq_xO (Coq_xO (Coq_xO
                   Coq_xH))))) :: (Z0 :: ((Z.coq_land
                                            (Z.shiftr total (Zpos (Coq_xO
                                              (Coq_xO (Coq_xO (Coq_xI
                                              Coq_xH)))))) (Zpos (Coq_xI
                                            (Coq_xI (Coq_xI (Coq_xI (Coq_xI
                                            (Coq_xI (Coq_xI Coq_xH))))))))) :: (
                   (Z.coq_land
                     (Z.shiftr total (Zpos (Coq_xO (Coq_xO (Coq_xO (Coq_xO
                       Coq_xH)))))) (Zpos (Coq_xI (Coq_xI (Coq_xI (Coq_xI
                     (Coq_xI (Coq_xI (Coq_xI Coq_xH))))))))) :: ((Z.coq_land
                                                                   (Z.shiftr
                                                                    total
                                                                    (Zpos
                                                                    (Coq_xO
                                                                    (Coq_xO
                                                                    (Coq_xO
                                                                    Coq_xH)))))
                                                                   (Zpos
                                                                   (Coq_xI
                                                                   (Coq_xI
                                                                   (Coq_xI
                                                                   (Coq_xI
                                                                   (Coq_xI
                                                                   (Coq_xI
                                                                   (Coq_xI
                                                                   Coq_xH))))))))) :: (
                   (Z.coq_land (Z.shiftr total Z0) (Zpos (Coq_xI (Coq_xI
                     (Coq_xI (Coq_xI (Coq_xI (Coq_xI (Coq_xI Coq_xH))))))))) :: [])))))
          in
          let msg_data = app pfx (app hdr payload) in
          let s1 =
            set (fun l -> l.tx_seqnum) (fun f ->
              let z = fun r0 -> f r0.tx_seqnum in
              (fun x -> { now = x.now; rx_state = x.rx_state; rx_buffer =
              x.rx_buffer; rx_frame_length = x.rx_frame_length; last_seqnum =
              x.last_seqnum; rx_block_counter = x.rx_block_counter;
              actual_rxdl = x.actual_rxdl; pending_fc = x.pending_fc;
              pending_fc_status = x.pending_fc_status; timer_rx_cf =
              x.timer_rx_cf; rx_queue = x.rx_queue; tx_state = x.tx_state;
              tx_queue = x.tx_queue; active = x.active; tx_standby =
              x.tx_standby; last_fc = x.last_fc; remote_bs = x.remote_bs;
              tx_block_counter = x.tx_block_counter; tx_seqnum = (z x);
              wft_counter = x.wft_counter; tx_frame_length =
              x.tx_frame_length; timer_rx_fc = x.timer_rx_fc;
              timer_tx_stmin = x.timer_tx_stmin; lim_times = x.lim_times;
              lim_bits = x.lim_bits; lim_total = x.lim_total; next_req_id =
              x.next_req_id })) (fun _ -> Zpos Coq_xH)
              (set (fun l -> l.active) (fun f ->
                let o0 = fun r0 -> f r0.active in
                (fun x -> { now = x.now; rx_state = x.rx_state; rx_buffer =
                x.rx_buffer; rx_frame_length = x.rx_frame_length;
                last_seqnum = x.last_seqnum; rx_block_counter =
                x.rx_block_counter; actual_rxdl = x.actual_rxdl; pending_fc =
                x.pending_fc; pending_fc_status = x.pending_fc_status;
                timer_rx_cf = x.timer_rx_cf; rx_queue = x.rx_queue;
                tx_state = x.tx_state; tx_queue = x.tx_queue; active =
                (o0 x); tx_standby = x.tx_standby; last_fc = x.last_fc;
                remote_bs = x.remote_bs; tx_block_counter =
                x.tx_block_counter; tx_seqnum = x.tx_seqnum; wft_counter =
                x.wft_counter; tx_frame_length = x.tx_frame_length;
                timer_rx_fc = x.timer_rx_fc; timer_tx_stmin =
                x.timer_tx_stmin; lim_times = x.lim_times; lim_bits =
                x.lim_bits; lim_total = x.lim_total; next_req_id =
                x.next_req_id })) (fun _ -> Some r') s0)
          in
          (match make_tx_msg c (c_tx_id c Physical) msg_data with
           | Some m ->
             if Z.leb (zlen msg_data) allowed
             then SRDone
                    ((start_rx_fc_timer c
                       (set (fun l -> l.tx_state) (fun f ->
                         let t = fun r0 -> f r0.tx_state in
                         (fun x -> { now = x.now; rx_state = x.rx_state;
                         rx_buffer = x.rx_buffer; rx_frame_length =
                         x.rx_frame_length; last_seqnum = x.last_seqnum;
                         rx_block_counter = x.rx_block_counter; actual_rxdl =
                         x.actual_rxdl; pending_fc = x.pending_fc;
                         pending_fc_status = x.pending_fc_status;
                         timer_rx_cf = x.timer_rx_cf; rx_queue = x.rx_queue;
                         tx_state = (t x); tx_queue = x.tx_queue; active =
                         x.active; tx_standby = x.tx_standby; last_fc =
                         x.last_fc; remote_bs = x.remote_bs;
                         tx_block_counter = x.tx_block_counter; tx_seqnum =
                         x.tx_seqnum; wft_counter = x.wft_counter;
                         tx_frame_length = x.tx_frame_length; timer_rx_fc =
                         x.timer_rx_fc; timer_tx_stmin = x.timer_tx_stmin;
                         lim_times = x.lim_times; lim_bits = x.lim_bits;
                         lim_total = x.lim_total; next_req_id =
                         x.next_req_id })) (fun _ -> TxWaitFC) s1)), [],
                    (Some m))
             else SRDone
                    ((set (fun l -> l.tx_state) (fun f ->
                       let t = fun r0 -> f r0.tx_state in
                       (fun x -> { now = x.now; rx_state = x.rx_state;
                       rx_buffer = x.rx_buffer; rx_frame_length =
                       x.rx_frame_length; last_seqnum = x.last_seqnum;
                       rx_block_counter = x.rx_block_counter; actual_rxdl =
                       x.actual_rxdl; pending_fc = x.pending_fc;
                       pending_fc_status = x.pending_fc_status; timer_rx_cf =
                       x.timer_rx_cf; rx_queue = x.rx_queue; tx_state =
                       (t x); tx_queue = x.tx_queue; active = x.active;
                       tx_standby = x.tx_standby; last_fc = x.last_fc;
                       remote_bs = x.remote_bs; tx_block_counter =
                       x.tx_block_counter; tx_seqnum = x.tx_seqnum;
                       wft_counter = x.wft_counter; tx_frame_length =
                       x.tx_frame_length; timer_rx_fc = x.timer_rx_fc;
                       timer_tx_stmin = x.timer_tx_stmin; lim_times =
                       x.lim_times; lim_bits = x.lim_bits; lim_total =
                       x.lim_total; next_req_id = x.next_req_id })) (fun _ ->
                       TxFFStandby)
                       (set (fun l -> l.tx_standby) (fun f ->
                         let o0 = fun r0 -> f r0.tx_standby in
                         (fun x -> { now = x.now; rx_state = x.rx_state;
                         rx_buffer = x.rx_buffer; rx_frame_length =
                         x.rx_frame_length; last_seqnum = x.last_seqnum;
                         rx_block_counter = x.rx_block_counter; actual_rxdl =
                         x.actual_rxdl; pending_fc = x.pending_fc;
                         pending_fc_status = x.pending_fc_status;
                         timer_rx_cf = x.timer_rx_cf; rx_queue = x.rx_queue;
                         tx_state = x.tx_state; tx_queue = x.tx_queue;
                         active = x.active; tx_standby = (o0 x); last_fc =
                         x.last_fc; remote_bs = x.remote_bs;
                         tx_block_counter = x.tx_block_counter; tx_seqnum =
                         x.tx_seqnum; wft_counter = x.wft_counter;
                         tx_frame_length = x.tx_frame_length; timer_rx_fc =
                         x.timer_rx_fc; timer_tx_stmin = x.timer_tx_stmin;
                         lim_times = x.lim_times; lim_bits = x.lim_bits;
                         lim_total = x.lim_total; next_req_id =
                         x.next_req_id })) (fun _ -> Some m) s1)), [], None)
           | None -> SRCrash (Zpos (Coq_xO Coq_xH)))
        | None -> bad r' s0)

(** val idle_dequeue :
    cfg -> request list -> layer -> event list -> coq_Z -> start_result **)

let rec idle_dequeue c q s evs allowed =
  match q with
  | [] ->
    SRDone
      ((set (fun l -> l.tx_queue) (fun f ->
         let l = fun r -> f r.tx_queue in
         (fun x -> { now = x.now; rx_state = x.rx_state; rx_buffer =
         x.rx_buffer; rx_frame_length = x.rx_frame_length; last_seqnum =
         x.last_seqnum; rx_block_counter = x.rx_block_counter; actual_rxdl =
         x.actual_rxdl; pending_fc = x.pending_fc; pending_fc_status =
         x.pending_fc_status; timer_rx_cf = x.timer_rx_cf; rx_queue =
         x.rx_queue; tx_state = x.tx_state; tx_queue = (l x); active =
         x.active; tx_standby = x.tx_standby; last_fc = x.last_fc;
         remote_bs = x.remote_bs; tx_block_counter = x.tx_block_counter;
         tx_seqnum = x.tx_seqnum; wft_counter = x.wft_counter;
         tx_frame_length = x.tx_frame_length; timer_rx_fc = x.timer_rx_fc;
         timer_tx_stmin = x.timer_tx_stmin; lim_times = x.lim_times;
         lim_bits = x.lim_bits; lim_total = x.lim_total; next_req_id =
         x.next_req_id })) (fun _ -> []) s), evs, None)
  | r :: rest ->
    if r_is_depleted r
    then idle_dequeue c rest
           (set (fun l -> l.active) (fun f ->
             let o = fun r0 -> f r0.active in
             (fun x -> { now = x.now; rx_state = x.rx_state; rx_buffer =
             x.rx_buffer; rx_frame_length = x.rx_frame_length; last_seqnum =
             x.last_seqnum; rx_block_counter = x.rx_block_counter;
             actual_rxdl = x.actual_rxdl; pending_fc = x.pending_fc;
             pending_fc_status = x.pending_fc_status; timer_rx_cf =
             x.timer_rx_cf; rx_queue = x.rx_queue; tx_state = x.tx_state;
             tx_queue = x.tx_queue; active = (o x); tx_standby =
             x.tx_standby; last_fc = x.last_fc; remote_bs = x.remote_bs;
             tx_block_counter = x.tx_block_counter; tx_seqnum = x.tx_seqnum;
             wft_counter = x.wft_counter; tx_frame_length =
             x.tx_frame_length; timer_rx_fc = x.timer_rx_fc; timer_tx_stmin =
             x.timer_tx_stmin; lim_times = x.lim_times; lim_bits =
             x.lim_bits; lim_total = x.lim_total; next_req_id =
             x.next_req_id })) (fun _ -> None) s)
           (app evs ((EDone (r.r_id, true)) :: [])) allowed
    else (match start_request c
                  (set (fun l -> l.active) (fun f ->
                    let o = fun r0 -> f r0.active in
                    (fun x -> { now = x.now; rx_state = x.rx_state;
                    rx_buffer = x.rx_buffer; rx_frame_length =
                    x.rx_frame_length; last_seqnum = x.last_seqnum;
                    rx_block_counter = x.rx_block_counter; actual_rxdl =
                    x.actual_rxdl; pending_fc = x.pending_fc;
                    pending_fc_status = x.pending_fc_status; timer_rx_cf =
                    x.timer_rx_cf; rx_queue = x.rx_queue; tx_state =
                    x.tx_state; tx_queue = x.tx_queue; active = (o x);
                    tx_standby = x.tx_standby; last_fc = x.last_fc;
                    remote_bs = x.remote_bs; tx_block_counter =
                    x.tx_block_counter; tx_seqnum = x.tx_seqnum;
                    wft_counter = x.wft_counter; tx_frame_length =
                    x.tx_frame_length; timer_rx_fc = x.timer_rx_fc;
                    timer_tx_stmin = x.timer_tx_stmin; lim_times =
                    x.lim_times; lim_bits = x.lim_bits; lim_total =
                    x.lim_total; next_req_id = x.next_req_id })) (fun _ ->
                    Some r)
                    (set (fun l -> l.tx_queue) (fun f ->
                      let l = fun r0 -> f r0.tx_queue in
                      (fun x -> { now = x.now; rx_state = x.rx_state;
                      rx_buffer = x.rx_buffer; rx_frame_length =
                      x.rx_frame_length; last_seqnum = x.last_seqnum;
                      rx_block_counter = x.rx_block_counter; actual_rxdl =
                      x.actual_rxdl; pending_fc = x.pending_fc;
                      pending_fc_status = x.pending_fc_status; timer_rx_cf =
                      x.timer_rx_cf; rx_queue = x.rx_queue; tx_state =
                      x.tx_state; tx_queue = (l x); active = x.active;
                      tx_standby = x.tx_standby; last_fc = x.last_fc;
                      remote_bs = x.remote_bs; tx_block_counter =
                      x.tx_block_counter; tx_seqnum = x.tx_seqnum;
                      wft_counter = x.wft_counter; tx_frame_length =
                      x.tx_frame_length; timer_rx_fc = x.timer_rx_fc;
                      timer_tx_stmin = x.timer_tx_stmin; lim_times =
                      x.lim_times; lim_bits = x.lim_bits; lim_total =
                      x.lim_total; next_req_id = x.next_req_id })) (fun _ ->
                      rest) s)) r allowed with
          | SRCrash site -> SRCrash site
          | SRDone (s', evs', out) -> SRDone (s', (app evs evs'), out))

(** val handle_fc_active : cfg -> layer -> fcpdu -> layer * event list **)

let handle_fc_active c s fc =
  let p = c.c_p in
  if Z.eqb fc.fc_status coq_FS_WAIT
  then if Z.eqb p.p_wftmax Z0
       then (s, ((EErr UnsupportedWaitFrame) :: []))
       else if timer_timed_out s.now s.timer_rx_fc
            then (s, [])
            else if Z.leb p.p_wftmax s.wft_counter
                 then let (s1, evs) = stop_sending false s in
                      (s1, ((EErr MaximumWaitFrameReached) :: evs))
                 else ((start_rx_fc_timer c
                         (set (fun l -> l.tx_state) (fun f ->
                           let t = fun r -> f r.tx_state in
                           (fun x -> { now = x.now; rx_state = x.rx_state;
                           rx_buffer = x.rx_buffer; rx_frame_length =
                           x.rx_frame_length; last_seqnum = x.last_seqnum;
                           rx_block_counter = x.rx_block_counter;
                           actual_rxdl = x.actual_rxdl; pending_fc =
                           x.pending_fc; pending_fc_status =
                           x.pending_fc_status; timer_rx_cf = x.timer_rx_cf;
                           rx_queue = x.rx_queue; tx_state = (t x);
                           tx_queue = x.tx_queue; active = x.active;
                           tx_standby = x.tx_standby; last_fc = x.last_fc;
                           remote_bs = x.remote_bs; tx_block_counter =
                           x.tx_block_counter; tx_seqnum = x.tx_seqnum;
                           wft_counter = x.wft_counter; tx_frame_length =
                           x.tx_frame_length; timer_rx_fc = x.timer_rx_fc;
                           timer_tx_stmin = x.timer_tx_stmin; lim_times =
                           x.lim_times; lim_bits = x.lim_bits; lim_total =
                           x.lim_total; next_req_id = x.next_req_id }))
                           (fun _ -> TxWaitFC)
                           (set (fun l -> l.wft_counter) (fun f ->
                             let z = fun r -> f r.wft_counter in
                             (fun x -> { now = x.now; rx_state = x.rx_state;
                             rx_buffer = x.rx_buffer; rx_frame_length =
                             x.rx_frame_length; last_seqnum = x.last_seqnum;
                             rx_block_counter = x.rx_block_counter;
                             actual_rxdl = x.actual_rxdl; pending_fc =
                             x.pending_fc; pending_fc_status =
                             x.pending_fc_status; timer_rx_cf =
                             x.timer_rx_cf; rx_queue = x.rx_queue; tx_state =
                             x.tx_state; tx_queue = x.tx_queue; active =
                             x.active; tx_standby = x.tx_standby; last_fc =
                             x.last_fc; remote_bs = x.remote_bs;
                             tx_block_counter = x.tx_block_counter;
                             tx_seqnum = x.tx_seqnum; wft_counter = (z x);
                             tx_frame_length = x.tx_frame_length;
                             timer_rx_fc = x.timer_rx_fc; timer_tx_stmin =
                             x.timer_tx_stmin; lim_times = x.lim_times;
                             lim_bits = x.lim_bits; lim_total = x.lim_total;
                             next_req_id = x.next_req_id })) (fun _ ->
                             Z.add s.wft_counter (Zpos Coq_xH)) s))), [])
  else if (&&) (Z.eqb fc.fc_status coq_FS_CTS)
            (negb (timer_timed_out s.now s.timer_rx_fc))
       then let st =
              match p.p_override_stmin_ns with
              | Some o -> o
              | None -> stmin_ns fc.fc_stmin
            in
            let s1 =
              set (fun l -> l.remote_bs) (fun f ->
                let o = fun r -> f r.remote_bs in
                (fun x -> { now = x.now; rx_state = x.rx_state; rx_buffer =
                x.rx_buffer; rx_frame_length = x.rx_frame_length;
                last_seqnum = x.last_seqnum; rx_block_counter =
                x.rx_block_counter; actual_rxdl = x.actual_rxdl; pending_fc =
                x.pending_fc; pending_fc_status = x.pending_fc_status;
                timer_rx_cf = x.timer_rx_cf; rx_queue = x.rx_queue;
                tx_state = x.tx_state; tx_queue = x.tx_queue; active =
                x.active; tx_standby = x.tx_standby; last_fc = x.last_fc;
                remote_bs = (o x); tx_block_counter = x.tx_block_counter;
                tx_seqnum = x.tx_seqnum; wft_counter = x.wft_counter;
                tx_frame_length = x.tx_frame_length; timer_rx_fc =
                x.timer_rx_fc; timer_tx_stmin = x.timer_tx_stmin; lim_times =
                x.lim_times; lim_bits = x.lim_bits; lim_total = x.lim_total;
                next_req_id = x.next_req_id })) (fun _ -> Some fc.fc_bs)
                (set (fun l -> l.timer_tx_stmin) (fun f ->
                  let t = fun r -> f r.timer_tx_stmin in
                  (fun x -> { now = x.now; rx_state = x.rx_state; rx_buffer =
                  x.rx_buffer; rx_frame_length = x.rx_frame_length;
                  last_seqnum = x.last_seqnum; rx_block_counter =
                  x.rx_block_counter; actual_rxdl = x.actual_rxdl;
                  pending_fc = x.pending_fc; pending_fc_status =
                  x.pending_fc_status; timer_rx_cf = x.timer_rx_cf;
                  rx_queue = x.rx_queue; tx_state = x.tx_state; tx_queue =
                  x.tx_queue; active = x.active; tx_standby = x.tx_standby;
                  last_fc = x.last_fc; remote_bs = x.remote_bs;
                  tx_block_counter = x.tx_block_counter; tx_seqnum =
                  x.tx_seqnum; wft_counter = x.wft_counter; tx_frame_length =
                  x.tx_frame_length; timer_rx_fc = x.timer_rx_fc;
                  timer_tx_stmin = (t x); lim_times = x.lim_times; lim_bits =
                  x.lim_bits; lim_total = x.lim_total; next_req_id =
                  x.next_req_id })) (fun t ->
                  set (fun t0 -> t0.t_timeout) (fun f ->
                    let z = fun r -> f r.t_timeout in
                    (fun x -> { t_start = x.t_start; t_timeout = (z x) }))
                    (fun _ -> st) t)
                  (set (fun l -> l.timer_rx_fc) (fun f ->
                    let t = fun r -> f r.timer_rx_fc in
                    (fun x -> { now = x.now; rx_state = x.rx_state;
                    rx_buffer = x.rx_buffer; rx_frame_length =
                    x.rx_frame_length; last_seqnum = x.last_seqnum;
                    rx_block_counter = x.rx_block_counter; actual_rxdl =
                    x.actual_rxdl; pending_fc = x.pending_fc;
                    pending_fc_status = x.pending_fc_status; timer_rx_cf =
                    x.timer_rx_cf; rx_queue = x.rx_queue; tx_state =
                    x.tx_state; tx_queue = x.tx_queue; active = x.active;
                    tx_standby = x.tx_standby; last_fc = x.last_fc;
                    remote_bs = x.remote_bs; tx_block_counter =
                    x.tx_block_counter; tx_seqnum = x.tx_seqnum;
                    wft_counter = x.wft_counter; tx_frame_length =
                    x.tx_frame_length; timer_rx_fc = (t x); timer_tx_stmin =
                    x.timer_tx_stmin; lim_times = x.lim_times; lim_bits =
                    x.lim_bits; lim_total = x.lim_total; next_req_id =
                    x.next_req_id })) timer_stop
                    (set (fun l -> l.wft_counter) (fun f ->
                      let z = fun r -> f r.wft_counter in
                      (fun x -> { now = x.now; rx_state = x.rx_state;
                      rx_buffer = x.rx_buffer; rx_frame_length =
                      x.rx_frame_length; last_seqnum = x.last_seqnum;
                      rx_block_counter = x.rx_block_counter; actual_rxdl =
                      x.actual_rxdl; pending_fc = x.pending_fc;
                      pending_fc_status = x.pending_fc_status; timer_rx_cf =
                      x.timer_rx_cf; rx_queue = x.rx_queue; tx_state =
                      x.tx_state; tx_queue = x.tx_queue; active = x.active;
                      tx_standby = x.tx_standby; last_fc = x.last_fc;
                      remote_bs = x.remote_bs; tx_block_counter =
                      x.tx_block_counter; tx_seqnum = x.tx_seqnum;
                      wft_counter = (z x); tx_frame_length =
                      x.tx_frame_length; timer_rx_fc = x.timer_rx_fc;
                      timer_tx_stmin = x.timer_tx_stmin; lim_times =
                      x.lim_times; lim_bits = x.lim_bits; lim_total =
                      x.lim_total; next_req_id = x.next_req_id })) (fun _ ->
                      Z0) s)))
            in
            let s2 =
              match s1.tx_state with
              | TxWaitFC ->
                set (fun l -> l.timer_tx_stmin) (fun f ->
                  let t = fun r -> f r.timer_tx_stmin in
                  (fun x -> { now = x.now; rx_state = x.rx_state; rx_buffer =
                  x.rx_buffer; rx_frame_length = x.rx_frame_length;
                  last_seqnum = x.last_seqnum; rx_block_counter =
                  x.rx_block_counter; actual_rxdl = x.actual_rxdl;
                  pending_fc = x.pending_fc; pending_fc_status =
                  x.pending_fc_status; timer_rx_cf = x.timer_rx_cf;
                  rx_queue = x.rx_queue; tx_state = x.tx_state; tx_queue =
                  x.tx_queue; active = x.active; tx_standby = x.tx_standby;
                  last_fc = x.last_fc; remote_bs = x.remote_bs;
                  tx_block_counter = x.tx_block_counter; tx_seqnum =
                  x.tx_seqnum; wft_counter = x.wft_counter; tx_frame_length =
                  x.tx_frame_length; timer_rx_fc = x.timer_rx_fc;
                  timer_tx_stmin = (t x); lim_times = x.lim_times; lim_bits =
                  x.lim_bits; lim_total = x.lim_total; next_req_id =
                  x.next_req_id })) (timer_start s1.now)
                  (set (fun l -> l.tx_block_counter) (fun f ->
                    let z = fun r -> f r.tx_block_counter in
                    (fun x -> { now = x.now; rx_state = x.rx_state;
                    rx_buffer = x.rx_buffer; rx_frame_length =
                    x.rx_frame_length; last_seqnum = x.last_seqnum;
                    rx_block_counter = x.rx_block_counter; actual_rxdl =
                    x.actual_rxdl; pending_fc = x.pending_fc;
                    pending_fc_status = x.pending_fc_status; timer_rx_cf =
                    x.timer_rx_cf; rx_queue = x.rx_queue; tx_state =
                    x.tx_state; tx_queue = x.tx_queue; active = x.active;
                    tx_standby = x.tx_standby; last_fc = x.last_fc;
                    remote_bs = x.remote_bs; tx_block_counter = (z x);
                    tx_seqnum = x.tx_seqnum; wft_counter = x.wft_counter;
                    tx_frame_length = x.tx_frame_length; timer_rx_fc =
                    x.timer_rx_fc; timer_tx_stmin = x.timer_tx_stmin;
                    lim_times = x.lim_times; lim_bits = x.lim_bits;
                    lim_total = x.lim_total; next_req_id = x.next_req_id }))
                    (fun _ -> Z0) s1)
              | _ -> s1
            in
            ((set (fun l -> l.tx_state) (fun f ->
               let t = fun r -> f r.tx_state in
               (fun x -> { now = x.now; rx_state = x.rx_state; rx_buffer =
               x.rx_buffer; rx_frame_length = x.rx_frame_length;
               last_seqnum = x.last_seqnum; rx_block_counter =
               x.rx_block_counter; actual_rxdl = x.actual_rxdl; pending_fc =
               x.pending_fc; pending_fc_status = x.pending_fc_status;
               timer_rx_cf = x.timer_rx_cf; rx_queue = x.rx_queue; tx_state =
               (t x); tx_queue = x.tx_queue; active = x.active; tx_standby =
               x.tx_standby; last_fc = x.last_fc; remote_bs = x.remote_bs;
               tx_block_counter = x.tx_block_counter; tx_seqnum =
               x.tx_seqnum; wft_counter = x.wft_counter; tx_frame_length =
               x.tx_frame_length; timer_rx_fc = x.timer_rx_fc;
               timer_tx_stmin = x.timer_tx_stmin; lim_times = x.lim_times;
               lim_bits = x.lim_bits; lim_total = x.lim_total; next_req_id =
               x.next_req_id })) (fun _ -> TxTransmitCF) s2), [])
       else (s, [])

(** val handle_fc : cfg -> layer -> fcpdu -> bool * (layer * event list) **)

let handle_fc c s fc =
  if Z.eqb fc.fc_status coq_FS_OVFLW
  then let (s1, evs) = stop_sending false s in
       (true, (s1, (app evs ((EErr OverflowErr) :: []))))
  else (false,
         (match s.tx_state with
          | TxWaitFC -> handle_fc_active c s fc
          | TxTransmitCF -> handle_fc_active c s fc
          | _ -> (s, ((EErr UnexpectedFlowControl) :: []))))

(** val tx_after_fc : cfg -> layer -> (tx_report, layer * event list) sum **)

let tx_after_fc c s =
  let fc = s.last_fc in
  let s0 =
    set (fun l -> l.last_fc) (fun f ->
      let o = fun r -> f r.last_fc in
      (fun x -> { now = x.now; rx_state = x.rx_state; rx_buffer =
      x.rx_buffer; rx_frame_length = x.rx_frame_length; last_seqnum =
      x.last_seqnum; rx_block_counter = x.rx_block_counter; actual_rxdl =
      x.actual_rxdl; pending_fc = x.pending_fc; pending_fc_status =
      x.pending_fc_status; timer_rx_cf = x.timer_rx_cf; rx_queue =
      x.rx_queue; tx_state = x.tx_state; tx_queue = x.tx_queue; active =
      x.active; tx_standby = x.tx_standby; last_fc = (o x); remote_bs =
      x.remote_bs; tx_block_counter = x.tx_block_counter; tx_seqnum =
      x.tx_seqnum; wft_counter = x.wft_counter; tx_frame_length =
      x.tx_frame_length; timer_rx_fc = x.timer_rx_fc; timer_tx_stmin =
      x.timer_tx_stmin; lim_times = x.lim_times; lim_bits = x.lim_bits;
      lim_total = x.lim_total; next_req_id = x.next_req_id })) (fun _ ->
      None) s
  in
  let after_fc =
    match fc with
    | Some f -> handle_fc c s0 f
    | None -> (false, (s0, []))
  in
  let (b, p) = after_fc in
  if b
  then let (s1, evs) = p in Coq_inl (mk_tr s1 evs None false)
  else let (s1, evs1) = p in
       if timer_timed_out s1.now s1.timer_rx_fc
       then let (s', e) = stop_sending false s1 in
            let evs2 = (EErr FlowControlTimeout) :: e in
            (match s'.tx_state with
             | TxIdle -> Coq_inr (s', (app evs1 evs2))
             | _ ->
               (match s'.active with
                | Some r ->
                  if (&&) (r_is_depleted r)
                       (match s'.tx_standby with
                        | Some _ -> false
                        | None -> true)
                  then let (s3, evs3) = stop_sending true s' in
                       Coq_inr (s3, (app evs1 (app evs2 evs3)))
                  else Coq_inr (s', (app evs1 evs2))
                | None ->
                  Coq_inl
                    (mk_crash s' (app evs1 evs2) (Zpos (Coq_xI (Coq_xO
                      Coq_xH))))))
       else let evs2 = [] in
            (match s1.tx_state with
             | TxIdle -> Coq_inr (s1, (app evs1 evs2))
             | _ ->
               (match s1.active with
                | Some r ->
                  if (&&) (r_is_depleted r)
                       (match s1.tx_standby with
                        | Some _ -> false
                        | None -> true)
                  then let (s3, evs3) = stop_sending true s1 in
                       Coq_inr (s3, (app evs1 (app evs2 evs3)))
                  else Coq_inr (s1, (app evs1 evs2))
                | None ->
                  Coq_inl
                    (mk_crash s1 (app evs1 evs2) (Zpos (Coq_xI (Coq_xO
                      Coq_xH))))))

(** val tx_finish :
    params -> layer -> event list -> frame option -> bool -> tx_report **)

let tx_finish p s' evs' out imm =
  match out with
  | Some m -> mk_tr (lim_inform p (zlen m.f_data) s') evs' out imm
  | None -> mk_tr s' evs' None imm

(** val tx_cf : cfg -> coq_Z -> layer -> event list -> tx_report **)

let tx_cf c allowed s3 evs =
  let p = c.c_p in
  (match s3.remote_bs with
   | Some rbs ->
     (match s3.active with
      | Some r ->
        if timer_timed_out s3.now s3.timer_tx_stmin
        then let data_length =
               Z.sub (Z.sub p.p_tx_dl (Zpos Coq_xH)) (zlen (c_tx_prefix c))
             in
             let payload_length = Z.min data_length (r_remaining r) in
             if Z.leb payload_length allowed
             then let (o, r') = consume payload_length false r in
                  (match o with
                   | Some payload ->
                     let s4 =
                       set (fun l -> l.active) (fun f ->
                         let o0 = fun r0 -> f r0.active in
                         (fun x -> { now = x.now; rx_state = x.rx_state;
                         rx_buffer = x.rx_buffer; rx_frame_length =
                         x.rx_frame_length; last_seqnum = x.last_seqnum;
                         rx_block_counter = x.rx_block_counter; actual_rxdl =
                         x.actual_rxdl; pending_fc = x.pending_fc;
                         pending_fc_status = x.pending_fc_status;
                         timer_rx_cf = x.timer_rx_cf; rx_queue = x.rx_queue;
                         tx_state = x.tx_state; tx_queue = x.tx_queue;
                         active = (o0 x); tx_standby = x.tx_standby;
                         last_fc = x.last_fc; remote_bs = x.remote_bs;
                         tx_block_counter = x.tx_block_counter; tx_seqnum =
                         x.tx_seqnum; wft_counter = x.wft_counter;
                         tx_frame_length = x.tx_frame_length; timer_rx_fc =
                         x.timer_rx_fc; timer_tx_stmin = x.timer_tx_stmin;
                         lim_times = x.lim_times; lim_bits = x.lim_bits;
                         lim_total = x.lim_total; next_req_id =
                         x.next_req_id })) (fun _ -> Some r') s3
                     in
                     let emit =
                       if Z.ltb Z0 (zlen payload)
                       then (match make_tx_msg c (c_tx_id c Physical)
                                     (app (c_tx_prefix c)
                                       (app
                                         ((Z.coq_lor (Zpos (Coq_xO (Coq_xO
                                            (Coq_xO (Coq_xO (Coq_xO
                                            Coq_xH)))))) s4.tx_seqnum) :: [])
                                         payload)) with
                             | Some m ->
                               Some
                                 ((set (fun l -> l.tx_block_counter)
                                    (fun f ->
                                    let z = fun r0 -> f r0.tx_block_counter in
                                    (fun x -> { now = x.now; rx_state =
                                    x.rx_state; rx_buffer = x.rx_buffer;
                                    rx_frame_length = x.rx_frame_length;
                                    last_seqnum = x.last_seqnum;
                                    rx_block_counter = x.rx_block_counter;
                                    actual_rxdl = x.actual_rxdl; pending_fc =
                                    x.pending_fc; pending_fc_status =
                                    x.pending_fc_status; timer_rx_cf =
                                    x.timer_rx_cf; rx_queue = x.rx_queue;
                                    tx_state = x.tx_state; tx_queue =
                                    x.tx_queue; active = x.active;
                                    tx_standby = x.tx_standby; last_fc =
                                    x.last_fc; remote_bs = x.remote_bs;
                                    tx_block_counter = (z x); tx_seqnum =
                                    x.tx_seqnum; wft_counter = x.wft_counter;
                                    tx_frame_length = x.tx_frame_length;
                                    timer_rx_fc = x.timer_rx_fc;
                                    timer_tx_stmin = x.timer_tx_stmin;
                                    lim_times = x.lim_times; lim_bits =
                                    x.lim_bits; lim_total = x.lim_total;
                                    next_req_id = x.next_req_id })) (fun _ ->
                                    Z.add s4.tx_block_counter (Zpos Coq_xH))
                                    (set (fun l -> l.timer_tx_stmin)
                                      (fun f ->
                                      let t = fun r0 -> f r0.timer_tx_stmin in
                                      (fun x -> { now = x.now; rx_state =
                                      x.rx_state; rx_buffer = x.rx_buffer;
                                      rx_frame_length = x.rx_frame_length;
                                      last_seqnum = x.last_seqnum;
                                      rx_block_counter = x.rx_block_counter;
                                      actual_rxdl = x.actual_rxdl;
                                      pending_fc = x.pending_fc;
                                      pending_fc_status =
                                      x.pending_fc_status; timer_rx_cf =
                                      x.timer_rx_cf; rx_queue = x.rx_queue;
                                      tx_state = x.tx_state; tx_queue =
                                      x.tx_queue; active = x.active;
                                      tx_standby = x.tx_standby; last_fc =
                                      x.last_fc; remote_bs = x.remote_bs;
                                      tx_block_counter = x.tx_block_counter;
                                      tx_seqnum = x.tx_seqnum; wft_counter =
                                      x.wft_counter; tx_frame_length =
                                      x.tx_frame_length; timer_rx_fc =
                                      x.timer_rx_fc; timer_tx_stmin = 
                                      (t x); lim_times = x.lim_times;
                                      lim_bits = x.lim_bits; lim_total =
                                      x.lim_total; next_req_id =
                                      x.next_req_id })) (timer_start s4.now)
                                      (set (fun l -> l.tx_seqnum) (fun f ->
                                        let z = fun r0 -> f r0.tx_seqnum in
                                        (fun x -> { now = x.now; rx_state =
                                        x.rx_state; rx_buffer = x.rx_buffer;
                                        rx_frame_length = x.rx_frame_length;
                                        last_seqnum = x.last_seqnum;
                                        rx_block_counter =
                                        x.rx_block_counter; actual_rxdl =
                                        x.actual_rxdl; pending_fc =
                                        x.pending_fc; pending_fc_status =
                                        x.pending_fc_status; timer_rx_cf =
                                        x.timer_rx_cf; rx_queue = x.rx_queue;
                                        tx_state = x.tx_state; tx_queue =
                                        x.tx_queue; active = x.active;
                                        tx_standby = x.tx_standby; last_fc =
                                        x.last_fc; remote_bs = x.remote_bs;
                                        tx_block_counter =
                                        x.tx_block_counter; tx_seqnum =
                                        (z x); wft_counter = x.wft_counter;
                                        tx_frame_length = x.tx_frame_length;
                                        timer_rx_fc = x.timer_rx_fc;
                                        timer_tx_stmin = x.timer_tx_stmin;
                                        lim_times = x.lim_times; lim_bits =
                                        x.lim_bits; lim_total = x.lim_total;
                                        next_req_id = x.next_req_id }))
                                        (fun _ ->
                                        Z.coq_land
                                          (Z.add s4.tx_seqnum (Zpos Coq_xH))
                                          (Zpos (Coq_xI (Coq_xI (Coq_xI
                                          Coq_xH))))) s4))), (Some m))
                             | None -> None)
                       else Some (s4, None)
                     in
                     (match emit with
                      | Some p0 ->
                        let (s5, out) = p0 in
                        if r_is_depleted r'
                        then if Z.ltb Z0 (r_remaining r')
                             then let (s6, e6) = stop_sending false s5 in
                                  tx_finish p s6
                                    (app evs ((EErr BadGenerator) :: e6)) out
                                    false
                             else let (s6, e6) = stop_sending true s5 in
                                  tx_finish p s6 (app evs e6) out false
                        else if (&&) (negb (Z.eqb rbs Z0))
                                  (Z.leb rbs s5.tx_block_counter)
                             then tx_finish p
                                    (start_rx_fc_timer c
                                      (set (fun l -> l.tx_state) (fun f ->
                                        let t = fun r0 -> f r0.tx_state in
                                        (fun x -> { now = x.now; rx_state =
                                        x.rx_state; rx_buffer = x.rx_buffer;
                                        rx_frame_length = x.rx_frame_length;
                                        last_seqnum = x.last_seqnum;
                                        rx_block_counter =
                                        x.rx_block_counter; actual_rxdl =
                                        x.actual_rxdl; pending_fc =
                                        x.pending_fc; pending_fc_status =
                                        x.pending_fc_status; timer_rx_cf =
                                        x.timer_rx_cf; rx_queue = x.rx_queue;
                                        tx_state = (t x); tx_queue =
                                        x.tx_queue; active = x.active;
                                        tx_standby = x.tx_standby; last_fc =
                                        x.last_fc; remote_bs = x.remote_bs;
                                        tx_block_counter =
                                        x.tx_block_counter; tx_seqnum =
                                        x.tx_seqnum; wft_counter =
                                        x.wft_counter; tx_frame_length =
                                        x.tx_frame_length; timer_rx_fc =
                                        x.timer_rx_fc; timer_tx_stmin =
                                        x.timer_tx_stmin; lim_times =
                                        x.lim_times; lim_bits = x.lim_bits;
                                        lim_total = x.lim_total;
                                        next_req_id = x.next_req_id }))
                                        (fun _ -> TxWaitFC) s5)) evs out true
                             else tx_finish p s5 evs out false
                      | None ->
                        mk_crash s4 evs (Zpos (Coq_xI (Coq_xI Coq_xH))))
                   | None -> mk_crash s3 evs (Zpos (Coq_xO (Coq_xI Coq_xH))))
             else tx_finish p s3 evs None false
        else tx_finish p s3 evs None false
      | None -> mk_crash s3 evs (Zpos (Coq_xO (Coq_xO (Coq_xO Coq_xH)))))
   | None -> mk_crash s3 evs (Zpos (Coq_xO (Coq_xO (Coq_xO Coq_xH)))))

(** val tx_fsm : cfg -> coq_Z -> layer -> event list -> tx_report **)

let tx_fsm c allowed s3 evs =
  let p = c.c_p in
  (match s3.tx_state with
   | TxIdle ->
     (match idle_dequeue c s3.tx_queue s3 [] allowed with
      | SRCrash site -> mk_crash s3 evs site
      | SRDone (s4, evs4, out) -> tx_finish p s4 (app evs evs4) out false)
   | TxWaitFC -> tx_finish p s3 evs None false
   | TxTransmitCF -> tx_cf c allowed s3 evs
   | TxSFStandby ->
     (match s3.tx_standby with
      | Some m ->
        if Z.leb (zlen m.f_data) allowed
        then let s4 =
               set (fun l -> l.tx_standby) (fun f ->
                 let o = fun r -> f r.tx_standby in
                 (fun x -> { now = x.now; rx_state = x.rx_state; rx_buffer =
                 x.rx_buffer; rx_frame_length = x.rx_frame_length;
                 last_seqnum = x.last_seqnum; rx_block_counter =
                 x.rx_block_counter; actual_rxdl = x.actual_rxdl;
                 pending_fc = x.pending_fc; pending_fc_status =
                 x.pending_fc_status; timer_rx_cf = x.timer_rx_cf; rx_queue =
                 x.rx_queue; tx_state = x.tx_state; tx_queue = x.tx_queue;
                 active = x.active; tx_standby = (o x); last_fc = x.last_fc;
                 remote_bs = x.remote_bs; tx_block_counter =
                 x.tx_block_counter; tx_seqnum = x.tx_seqnum; wft_counter =
                 x.wft_counter; tx_frame_length = x.tx_frame_length;
                 timer_rx_fc = x.timer_rx_fc; timer_tx_stmin =
                 x.timer_tx_stmin; lim_times = x.lim_times; lim_bits =
                 x.lim_bits; lim_total = x.lim_total; next_req_id =
                 x.next_req_id })) (fun _ -> None) s3
             in
             (match s3.tx_state with
              | TxFFStandby ->
                tx_finish p
                  (set (fun l -> l.tx_state) (fun f ->
                    let t = fun r -> f r.tx_state in
                    (fun x -> { now = x.now; rx_state = x.rx_state;
                    rx_buffer = x.rx_buffer; rx_frame_length =
                    x.rx_frame_length; last_seqnum = x.last_seqnum;
                    rx_block_counter = x.rx_block_counter; actual_rxdl =
                    x.actual_rxdl; pending_fc = x.pending_fc;
                    pending_fc_status = x.pending_fc_status; timer_rx_cf =
                    x.timer_rx_cf; rx_queue = x.rx_queue; tx_state = 
                    (t x); tx_queue = x.tx_queue; active = x.active;
                    tx_standby = x.tx_standby; last_fc = x.last_fc;
                    remote_bs = x.remote_bs; tx_block_counter =
                    x.tx_block_counter; tx_seqnum = x.tx_seqnum;
                    wft_counter = x.wft_counter; tx_frame_length =
                    x.tx_frame_length; timer_rx_fc = x.timer_rx_fc;
                    timer_tx_stmin = x.timer_tx_stmin; lim_times =
                    x.lim_times; lim_bits = x.lim_bits; lim_total =
                    x.lim_total; next_req_id = x.next_req_id })) (fun _ ->
                    TxWaitFC) (start_rx_fc_timer c s4)) evs (Some m) false
              | _ ->
                let (s5, evs5) = stop_sending true s4 in
                tx_finish p s5 (app evs evs5) (Some m) false)
        else tx_finish p s3 evs None false
      | None -> tx_finish p s3 evs None false)
   | TxFFStandby ->
     (match s3.tx_standby with
      | Some m ->
        if Z.leb (zlen m.f_data) allowed
        then let s4 =
               set (fun l -> l.tx_standby) (fun f ->
                 let o = fun r -> f r.tx_standby in
                 (fun x -> { now = x.now; rx_state = x.rx_state; rx_buffer =
                 x.rx_buffer; rx_frame_length = x.rx_frame_length;
                 last_seqnum = x.last_seqnum; rx_block_counter =
                 x.rx_block_counter; actual_rxdl = x.actual_rxdl;
                 pending_fc = x.pending_fc; pending_fc_status =
                 x.pending_fc_status; timer_rx_cf = x.timer_rx_cf; rx_queue =
                 x.rx_queue; tx_state = x.tx_state; tx_queue = x.tx_queue;
                 active = x.active; tx_standby = (o x); last_fc = x.last_fc;
                 remote_bs = x.remote_bs; tx_block_counter =
                 x.tx_block_counter; tx_seqnum = x.tx_seqnum; wft_counter =
                 x.wft_counter; tx_frame_length = x.tx_frame_length;
                 timer_rx_fc = x.timer_rx_fc; timer_tx_stmin =
                 x.timer_tx_stmin; lim_times = x.lim_times; lim_bits =
                 x.lim_bits; lim_total = x.lim_total; next_req_id =
                 x.next_req_id })) (fun _ -> None) s3
             in
             (match s3.tx_state with
              | TxFFStandby ->
                tx_finish p
                  (set (fun l -> l.tx_state) (fun f ->
                    let t = fun r -> f r.tx_state in
                    (fun x -> { now = x.now; rx_state = x.rx_state;
                    rx_buffer = x.rx_buffer; rx_frame_length =
                    x.rx_frame_length; last_seqnum = x.last_seqnum;
                    rx_block_counter = x.rx_block_counter; actual_rxdl =
                    x.actual_rxdl; pending_fc = x.pending_fc;
                    pending_fc_status = x.pending_fc_status; timer_rx_cf =
                    x.timer_rx_cf; rx_queue = x.rx_queue; tx_state = 
                    (t x); tx_queue = x.tx_queue; active = x.active;
                    tx_standby = x.tx_standby; last_fc = x.last_fc;
                    remote_bs = x.remote_bs; tx_block_counter =
                    x.tx_block_counter; tx_seqnum = x.tx_seqnum;
                    wft_counter = x.wft_counter; tx_frame_length =
                    x.tx_frame_length; timer_rx_fc = x.timer_rx_fc;
                    timer_tx_stmin = x.timer_tx_stmin; lim_times =
                    x.lim_times; lim_bits = x.lim_bits; lim_total =
                    x.lim_total; next_req_id = x.next_req_id })) (fun _ ->
                    TxWaitFC) (start_rx_fc_timer c s4)) evs (Some m) false
              | _ ->
                let (s5, evs5) = stop_sending true s4 in
                tx_finish p s5 (app evs evs5) (Some m) false)
        else tx_finish p s3 evs None false
      | None -> tx_finish p s3 evs None false))

(** val process_tx_main : cfg -> coq_Z -> layer -> tx_report **)

let process_tx_main c allowed s =
  match tx_after_fc c s with
  | Coq_inl r -> r
  | Coq_inr p -> let (s3, evs) = p in tx_fsm c allowed s3 evs

(** val process_tx : cfg -> layer -> tx_report **)

let process_tx c s0 =
  let p = c.c_p in
  let allowed = lim_allowed_bytes p s0 in
  let pend =
    if s0.pending_fc
    then let s1 =
           set (fun l -> l.pending_fc) (fun f ->
             let b = fun r -> f r.pending_fc in
             (fun x -> { now = x.now; rx_state = x.rx_state; rx_buffer =
             x.rx_buffer; rx_frame_length = x.rx_frame_length; last_seqnum =
             x.last_seqnum; rx_block_counter = x.rx_block_counter;
             actual_rxdl = x.actual_rxdl; pending_fc = (b x);
             pending_fc_status = x.pending_fc_status; timer_rx_cf =
             x.timer_rx_cf; rx_queue = x.rx_queue; tx_state = x.tx_state;
             tx_queue = x.tx_queue; active = x.active; tx_standby =
             x.tx_standby; last_fc = x.last_fc; remote_bs = x.remote_bs;
             tx_block_counter = x.tx_block_counter; tx_seqnum = x.tx_seqnum;
             wft_counter = x.wft_counter; tx_frame_length =
             x.tx_frame_length; timer_rx_fc = x.timer_rx_fc; timer_tx_stmin =
             x.timer_tx_stmin; lim_times = x.lim_times; lim_bits =
             x.lim_bits; lim_total = x.lim_total; next_req_id =
             x.next_req_id })) (fun _ -> false) s0
         in
         let s2 =
           if opt_eqb s1.pending_fc_status (Some coq_FS_CTS)
           then start_rx_cf_timer c s1
           else s1
         in
         if negb p.p_listen
         then (match s2.pending_fc_status with
               | Some st ->
                 (match make_flow_control c st with
                  | Some m -> Coq_inl (mk_tr s2 [] (Some m) true)
                  | None ->
                    Coq_inl (mk_crash s2 [] (Zpos (Coq_xO (Coq_xO Coq_xH)))))
               | None -> Coq_inl (mk_crash s2 [] (Zpos (Coq_xI Coq_xH))))
         else Coq_inr s2
    else Coq_inr s0
  in
  (match pend with
   | Coq_inl r -> r
   | Coq_inr s -> process_tx_main c allowed s)

type stats = { st_received : coq_Z; st_processed : coq_Z; st_sent : coq_Z;
               st_frames : coq_Z }

(** val stats0 : stats **)

let stats0 =
  { st_received = Z0; st_processed = Z0; st_sent = Z0; st_frames = Z0 }

type world = { w_l : layer; w_inbox : frame list }

(** val rx_loop :
    cfg -> frame list -> layer -> event list -> stats -> ((frame
    list * layer) * event list) * stats **)

let rec rx_loop c inbox s evs st =
  match inbox with
  | [] -> let (s1, e1) = check_timeouts_rx s in ((([], s1), (app evs e1)), st)
  | m :: rest ->
    let (s1, e1) = check_timeouts_rx s in
    let st1 = { st_received = (Z.add st.st_received (Zpos Coq_xH));
      st_processed = st.st_processed; st_sent = st.st_sent; st_frames =
      st.st_frames }
    in
    if c_is_for_me c m
    then let r = process_rx c s1 m in
         let st2 = { st_received = st1.st_received; st_processed =
           (Z.add st1.st_processed (Zpos Coq_xH)); st_sent = st1.st_sent;
           st_frames =
           (Z.add st1.st_frames (if r.rr_frame then Zpos Coq_xH else Z0)) }
         in
         if r.rr_imm_tx
         then (((rest, r.rr_s), (app evs (app e1 r.rr_evs))), st2)
         else rx_loop c rest r.rr_s (app evs (app e1 r.rr_evs)) st2
    else rx_loop c rest s1 (app evs e1) st1

type loop_end =
| LEnd
| LRunAgain
| LCrash
| LOutOfFuel

(** val tx_loop :
    nat -> cfg -> layer -> event list -> stats -> ((layer * event
    list) * stats) * loop_end **)

let rec tx_loop fuel c s evs st =
  match fuel with
  | O -> (((s, evs), st), LOutOfFuel)
  | S fuel' ->
    let r = process_tx c s in
    if r.tr_crash
    then (((r.tr_s, (app evs r.tr_evs)), st), LCrash)
    else (match r.tr_msg with
          | Some m ->
            let evs1 = app evs (app r.tr_evs ((ETx m) :: [])) in
            let st1 = { st_received = st.st_received; st_processed =
              st.st_processed; st_sent = (Z.add st.st_sent (Zpos Coq_xH));
              st_frames = st.st_frames }
            in
            if r.tr_imm_rx
            then (((r.tr_s, evs1), st1), LRunAgain)
            else (match r.tr_msg with
                  | Some _ -> tx_loop fuel' c r.tr_s evs1 st1
                  | None -> (((r.tr_s, evs1), st1), LEnd))
          | None ->
            let evs1 = app evs r.tr_evs in
            if r.tr_imm_rx
            then (((r.tr_s, evs1), st), LRunAgain)
            else (match r.tr_msg with
                  | Some _ -> tx_loop fuel' c r.tr_s evs1 st
                  | None -> (((r.tr_s, evs1), st), LEnd)))

(** val is_nil : 'a1 list -> bool **)

let is_nil = function
| [] -> true
| _ :: _ -> false

(** val process_loop :
    nat -> cfg -> bool -> bool -> world -> event list -> stats ->
    ((world * event list) * stats) * loop_end **)

let rec process_loop fuel c do_rx do_tx w evs st =
  match fuel with
  | O -> (((w, evs), st), LOutOfFuel)
  | S fuel' ->
    let s = w.w_l in
    let start_with_tx =
      (&&)
        ((&&) ((&&) do_tx (negb (is_nil s.tx_queue)))
          (rxst_eqb s.rx_state RxIdle)) (txst_eqb s.tx_state TxIdle)
    in
    let (p, st1) =
      if (&&) do_rx (negb start_with_tx)
      then rx_loop c w.w_inbox s evs st
      else (((w.w_inbox, s), evs), st)
    in
    let (p0, evs1) = p in
    let (inbox1, s1) = p0 in
    let s2 = lim_update c.c_p s1 in
    let (p1, e) =
      if do_tx then tx_loop fuel' c s2 evs1 st1 else (((s2, evs1), st1), LEnd)
    in
    let (p2, st3) = p1 in
    let (s3, evs3) = p2 in
    let w3 = { w_l = s3; w_inbox = inbox1 } in
    (match e with
     | LEnd ->
       if start_with_tx
       then process_loop fuel' c do_rx do_tx w3 evs3 st3
       else (((w3, evs3), st3), LEnd)
     | LRunAgain -> process_loop fuel' c do_rx do_tx w3 evs3 st3
     | x -> (((w3, evs3), st3), x))

(** val process :
    nat -> cfg -> bool -> bool -> world -> ((world * event
    list) * stats) * loop_end **)

let process fuel c do_rx do_tx w =
  process_loop fuel c do_rx do_tx w [] stats0

type send_result =
| SendOk
| SendValueError

(** val send :
    cfg -> layer -> gen -> coq_Z -> tat option -> layer * send_result **)

let send c s g size t =
  let p = c.c_p in
  let tt = match t with
           | Some x -> x
           | None -> p.p_default_tat in
  if Z.ltb size Z0
  then (s, SendValueError)
  else if Z.ltb (Zpos (Coq_xI (Coq_xI (Coq_xI (Coq_xI (Coq_xI (Coq_xI (Coq_xI
            (Coq_xI (Coq_xI (Coq_xI (Coq_xI (Coq_xI (Coq_xI (Coq_xI (Coq_xI
            (Coq_xI (Coq_xI (Coq_xI (Coq_xI (Coq_xI (Coq_xI (Coq_xI (Coq_xI
            (Coq_xI (Coq_xI (Coq_xI (Coq_xI (Coq_xI (Coq_xI (Coq_xI (Coq_xI
            Coq_xH)))))))))))))))))))))))))))))))) size
       then (s, SendValueError)
       else let too_long =
              match tt with
              | Physical -> false
              | Functional ->
                let length_bytes =
                  if Z.eqb p.p_tx_dl (Zpos (Coq_xO (Coq_xO (Coq_xO Coq_xH))))
                  then Zpos Coq_xH
                  else Zpos (Coq_xO Coq_xH)
                in
                Z.ltb
                  (Z.sub (Z.sub p.p_tx_dl length_bytes)
                    (zlen (c_tx_prefix c))) size
            in
            if too_long
            then (s, SendValueError)
            else let r = { r_id = s.next_req_id; r_gen = g; r_size = size;
                   r_consumed = Z0; r_depleted = false; r_tat = tt }
                 in
                 ((set (fun l -> l.next_req_id) (fun f ->
                    let z = fun r0 -> f r0.next_req_id in
                    (fun x -> { now = x.now; rx_state = x.rx_state;
                    rx_buffer = x.rx_buffer; rx_frame_length =
                    x.rx_frame_length; last_seqnum = x.last_seqnum;
                    rx_block_counter = x.rx_block_counter; actual_rxdl =
                    x.actual_rxdl; pending_fc = x.pending_fc;
                    pending_fc_status = x.pending_fc_status; timer_rx_cf =
                    x.timer_rx_cf; rx_queue = x.rx_queue; tx_state =
                    x.tx_state; tx_queue = x.tx_queue; active = x.active;
                    tx_standby = x.tx_standby; last_fc = x.last_fc;
                    remote_bs = x.remote_bs; tx_block_counter =
                    x.tx_block_counter; tx_seqnum = x.tx_seqnum;
                    wft_counter = x.wft_counter; tx_frame_length =
                    x.tx_frame_length; timer_rx_fc = x.timer_rx_fc;
                    timer_tx_stmin = x.timer_tx_stmin; lim_times =
                    x.lim_times; lim_bits = x.lim_bits; lim_total =
                    x.lim_total; next_req_id = (z x) })) (fun _ ->
                    Z.add s.next_req_id (Zpos Coq_xH))
                    (set (fun l -> l.tx_queue) (fun f ->
                      let l = fun r0 -> f r0.tx_queue in
                      (fun x -> { now = x.now; rx_state = x.rx_state;
                      rx_buffer = x.rx_buffer; rx_frame_length =
                      x.rx_frame_length; last_seqnum = x.last_seqnum;
                      rx_block_counter = x.rx_block_counter; actual_rxdl =
                      x.actual_rxdl; pending_fc = x.pending_fc;
                      pending_fc_status = x.pending_fc_status; timer_rx_cf =
                      x.timer_rx_cf; rx_queue = x.rx_queue; tx_state =
                      x.tx_state; tx_queue = (l x); active = x.active;
                      tx_standby = x.tx_standby; last_fc = x.last_fc;
                      remote_bs = x.remote_bs; tx_block_counter =
                      x.tx_block_counter; tx_seqnum = x.tx_seqnum;
                      wft_counter = x.wft_counter; tx_frame_length =
                      x.tx_frame_length; timer_rx_fc = x.timer_rx_fc;
                      timer_tx_stmin = x.timer_tx_stmin; lim_times =
                      x.lim_times; lim_bits = x.lim_bits; lim_total =
                      x.lim_total; next_req_id = x.next_req_id })) (fun _ ->
                      app s.tx_queue (r :: [])) s)), SendOk)

(** val recv : layer -> layer * coq_Z list option **)

let recv s =
  match s.rx_queue with
  | [] -> (s, None)
  | x :: rest ->
    ((set (fun l -> l.rx_queue) (fun f ->
       let l = fun r -> f r.rx_queue in
       (fun x0 -> { now = x0.now; rx_state = x0.rx_state; rx_buffer =
       x0.rx_buffer; rx_frame_length = x0.rx_frame_length; last_seqnum =
       x0.last_seqnum; rx_block_counter = x0.rx_block_counter; actual_rxdl =
       x0.actual_rxdl; pending_fc = x0.pending_fc; pending_fc_status =
       x0.pending_fc_status; timer_rx_cf = x0.timer_rx_cf; rx_queue = 
       (l x0); tx_state = x0.tx_state; tx_queue = x0.tx_queue; active =
       x0.active; tx_standby = x0.tx_standby; last_fc = x0.last_fc;
       remote_bs = x0.remote_bs; tx_block_counter = x0.tx_block_counter;
       tx_seqnum = x0.tx_seqnum; wft_counter = x0.wft_counter;
       tx_frame_length = x0.tx_frame_length; timer_rx_fc = x0.timer_rx_fc;
       timer_tx_stmin = x0.timer_tx_stmin; lim_times = x0.lim_times;
       lim_bits = x0.lim_bits; lim_total = x0.lim_total; next_req_id =
       x0.next_req_id })) (fun _ -> rest) s), (Some x))

(** val available : layer -> bool **)

let available s =
  negb (is_nil s.rx_queue)

(** val transmitting : layer -> bool **)

let transmitting s =
  (||) (negb (is_nil s.tx_queue)) (negb (txst_eqb s.tx_state TxIdle))

(** val is_rx_active : layer -> bool **)

let is_rx_active s =
  negb (rxst_eqb s.rx_state RxIdle)

(** val is_tx_throttled : layer -> bool **)

let is_tx_throttled s =
  match s.tx_state with
  | TxSFStandby -> true
  | TxFFStandby -> true
  | _ -> false

(** val reset : cfg -> layer -> layer * event list **)

let reset _ s =
  let evq = map (fun r -> EDone (r.r_id, false)) s.tx_queue in
  let (s1, evs) =
    stop_sending false
      (set (fun l -> l.tx_queue) (fun f ->
        let l = fun r -> f r.tx_queue in
        (fun x -> { now = x.now; rx_state = x.rx_state; rx_buffer =
        x.rx_buffer; rx_frame_length = x.rx_frame_length; last_seqnum =
        x.last_seqnum; rx_block_counter = x.rx_block_counter; actual_rxdl =
        x.actual_rxdl; pending_fc = x.pending_fc; pending_fc_status =
        x.pending_fc_status; timer_rx_cf = x.timer_rx_cf; rx_queue =
        x.rx_queue; tx_state = x.tx_state; tx_queue = (l x); active =
        x.active; tx_standby = x.tx_standby; last_fc = x.last_fc; remote_bs =
        x.remote_bs; tx_block_counter = x.tx_block_counter; tx_seqnum =
        x.tx_seqnum; wft_counter = x.wft_counter; tx_frame_length =
        x.tx_frame_length; timer_rx_fc = x.timer_rx_fc; timer_tx_stmin =
        x.timer_tx_stmin; lim_times = x.lim_times; lim_bits = x.lim_bits;
        lim_total = x.lim_total; next_req_id = x.next_req_id })) (fun _ ->
        [])
        (set (fun l -> l.rx_queue) (fun f ->
          let l = fun r -> f r.rx_queue in
          (fun x -> { now = x.now; rx_state = x.rx_state; rx_buffer =
          x.rx_buffer; rx_frame_length = x.rx_frame_length; last_seqnum =
          x.last_seqnum; rx_block_counter = x.rx_block_counter; actual_rxdl =
          x.actual_rxdl; pending_fc = x.pending_fc; pending_fc_status =
          x.pending_fc_status; timer_rx_cf = x.timer_rx_cf; rx_queue = 
          (l x); tx_state = x.tx_state; tx_queue = x.tx_queue; active =
          x.active; tx_standby = x.tx_standby; last_fc = x.last_fc;
          remote_bs = x.remote_bs; tx_block_counter = x.tx_block_counter;
          tx_seqnum = x.tx_seqnum; wft_counter = x.wft_counter;
          tx_frame_length = x.tx_frame_length; timer_rx_fc = x.timer_rx_fc;
          timer_tx_stmin = x.timer_tx_stmin; lim_times = x.lim_times;
          lim_bits = x.lim_bits; lim_total = x.lim_total; next_req_id =
          x.next_req_id })) (fun _ -> []) s))
  in
  ((lim_reset (stop_receiving s1)), (app evq evs))

(** val tick : coq_Z -> layer -> layer **)

let tick d s =
  set (fun l -> l.now) (fun f ->
    let z = fun r -> f r.now in
    (fun x -> { now = (z x); rx_state = x.rx_state; rx_buffer = x.rx_buffer;
    rx_frame_length = x.rx_frame_length; last_seqnum = x.last_seqnum;
    rx_block_counter = x.rx_block_counter; actual_rxdl = x.actual_rxdl;
    pending_fc = x.pending_fc; pending_fc_status = x.pending_fc_status;
    timer_rx_cf = x.timer_rx_cf; rx_queue = x.rx_queue; tx_state =
    x.tx_state; tx_queue = x.tx_queue; active = x.active; tx_standby =
    x.tx_standby; last_fc = x.last_fc; remote_bs = x.remote_bs;
    tx_block_counter = x.tx_block_counter; tx_seqnum = x.tx_seqnum;
    wft_counter = x.wft_counter; tx_frame_length = x.tx_frame_length;
    timer_rx_fc = x.timer_rx_fc; timer_tx_stmin = x.timer_tx_stmin;
    lim_times = x.lim_times; lim_bits = x.lim_bits; lim_total = x.lim_total;
    next_req_id = x.next_req_id })) (fun _ -> Z.add s.now d) s
