open BinNat
open BinNums
open BinPos
open Datatypes

module Z :
 sig
  val double : coq_Z -> coq_Z

  val succ_double : coq_Z -> coq_Z

  val pred_double : coq_Z -> coq_Z

  val pos_sub : positive -> positive -> coq_Z

  val add : coq_Z -> coq_Z -> coq_Z

  val opp : coq_Z -> coq_Z

  val pred : coq_Z -> coq_Z

  val sub : coq_Z -> coq_Z -> coq_Z

  val mul : coq_Z -> coq_Z -> coq_Z

  val compare : coq_Z -> coq_Z -> comparison

  val leb : coq_Z -> coq_Z -> bool

  val ltb : coq_Z -> coq_Z -> bool

  val eqb : coq_Z -> coq_Z -> bool

  val max : coq_Z -> coq_Z -> coq_Z

  val min : coq_Z -> coq_Z -> coq_Z

  val to_nat : coq_Z -> nat

  val of_nat : nat -> coq_Z

  val of_N : coq_N -> coq_Z

  val pos_div_eucl : positive -> coq_Z -> coq_Z * coq_Z

  val div_eucl : coq_Z -> coq_Z -> coq_Z * coq_Z

  val div : coq_Z -> coq_Z -> coq_Z

  val modulo : coq_Z -> coq_Z -> coq_Z

  val div2 : coq_Z -> coq_Z

  val shiftl : coq_Z -> coq_Z -> coq_Z

  val shiftr : coq_Z -> coq_Z -> coq_Z

  val coq_lor : coq_Z -> coq_Z -> coq_Z

  val coq_land : coq_Z -> coq_Z -> coq_Z

  val lnot : coq_Z -> coq_Z
 end
