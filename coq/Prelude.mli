open BinInt
open BinNums
open Datatypes
open List

val zlen : 'a1 list -> coq_Z

val ztake : coq_Z -> 'a1 list -> 'a1 list

val zdrop : coq_Z -> 'a1 list -> 'a1 list

val zrepeat : 'a1 -> coq_Z -> 'a1 list

val opt_eqb : coq_Z option -> coq_Z option -> bool

val zmem : coq_Z -> coq_Z list -> bool
