open BinInt
open BinNums
open Datatypes
open List
open Prelude

type pdu =
| PSF of bool * coq_Z * coq_Z list
| PFF of bool * coq_Z * coq_Z list
| PCF of coq_Z * coq_Z list
| PFC of coq_Z * coq_Z * coq_Z

type decoded = { d_pdu : pdu; d_can_dl : coq_Z; d_rx_dl : coq_Z }

(** val byte_at : coq_Z list -> nat -> coq_Z **)

let byte_at l i =
  nth i l Z0

(** val stmin_valid : coq_Z -> bool **)

let stmin_valid b =
  (||)
    ((&&) (Z.leb Z0 b)
      (Z.leb b (Zpos (Coq_xI (Coq_xI (Coq_xI (Coq_xI (Coq_xI (Coq_xI
        Coq_xH)))))))))
    ((&&)
      (Z.leb (Zpos (Coq_xI (Coq_xO (Coq_xO (Coq_xO (Coq_xI (Coq_xI (Coq_xI
        Coq_xH)))))))) b)
      (Z.leb b (Zpos (Coq_xI (Coq_xO (Coq_xO (Coq_xI (Coq_xI (Coq_xI (Coq_xI
        Coq_xH))))))))))

(** val pdu_decode : coq_Z list -> coq_Z -> decoded option **)

let pdu_decode data start_of_data =
  if Z.ltb (zlen data) start_of_data
  then None
  else let can_dl = zlen data in
       let rx_dl = Z.max (Zpos (Coq_xO (Coq_xO (Coq_xO Coq_xH)))) can_dl in
       let d = zdrop start_of_data data in
       let datalen = zlen d in
       let mk = fun p -> Some { d_pdu = p; d_can_dl = can_dl; d_rx_dl =
         rx_dl }
       in
       (match d with
        | [] -> None
        | b0 :: _ ->
          let hnb =
            Z.coq_land (Z.shiftr b0 (Zpos (Coq_xO (Coq_xO Coq_xH)))) (Zpos
              (Coq_xI (Coq_xI (Coq_xI Coq_xH))))
          in
          if Z.ltb (Zpos (Coq_xI Coq_xH)) hnb
          then None
          else if Z.eqb hnb Z0
               then let lp =
                      Z.coq_land b0 (Zpos (Coq_xI (Coq_xI (Coq_xI Coq_xH))))
                    in
                    if negb (Z.eqb lp Z0)
                    then if Z.ltb (Z.sub datalen (Zpos Coq_xH)) lp
                         then None
                         else mk (PSF (false, lp,
                                (ztake lp (zdrop (Zpos Coq_xH) d))))
                    else if Z.ltb datalen (Zpos (Coq_xO Coq_xH))
                         then None
                         else let l = byte_at d (S O) in
                              if Z.eqb l Z0
                              then None
                              else if Z.ltb
                                        (Z.sub datalen (Zpos (Coq_xO Coq_xH)))
                                        l
                                   then None
                                   else mk (PSF (true, l,
                                          (ztake l
                                            (zdrop (Zpos (Coq_xO Coq_xH)) d))))
               else if Z.eqb hnb (Zpos Coq_xH)
                    then if Z.ltb datalen (Zpos (Coq_xO Coq_xH))
                         then None
                         else let lp =
                                Z.coq_lor
                                  (Z.shiftl
                                    (Z.coq_land b0 (Zpos (Coq_xI (Coq_xI
                                      (Coq_xI Coq_xH))))) (Zpos (Coq_xO
                                    (Coq_xO (Coq_xO Coq_xH)))))
                                  (byte_at d (S O))
                              in
                              if negb (Z.eqb lp Z0)
                              then mk (PFF (false, lp,
                                     (ztake
                                       (Z.min lp
                                         (Z.sub datalen (Zpos (Coq_xO
                                           Coq_xH))))
                                       (zdrop (Zpos (Coq_xO Coq_xH)) d))))
                              else if Z.ltb datalen (Zpos (Coq_xO (Coq_xI
                                        Coq_xH)))
                                   then None
                                   else let l =
                                          Z.coq_lor
                                            (Z.coq_lor
                                              (Z.coq_lor
                                                (Z.shiftl
                                                  (byte_at d (S (S O))) (Zpos
                                                  (Coq_xO (Coq_xO (Coq_xO
                                                  (Coq_xI Coq_xH))))))
                                                (Z.shiftl
                                                  (byte_at d (S (S (S O))))
                                                  (Zpos (Coq_xO (Coq_xO
                                                  (Coq_xO (Coq_xO Coq_xH)))))))
                                              (Z.shiftl
                                                (byte_at d (S (S (S (S O)))))
                                                (Zpos (Coq_xO (Coq_xO (Coq_xO
                                                Coq_xH))))))
                                            (byte_at d (S (S (S (S (S O))))))
                                        in
                                        mk (PFF (true, l,
                                          (ztake
                                            (Z.min l
                                              (Z.sub datalen (Zpos (Coq_xO
                                                (Coq_xI Coq_xH)))))
                                            (zdrop (Zpos (Coq_xO (Coq_xI
                                              Coq_xH))) d))))
                    else if Z.eqb hnb (Zpos (Coq_xO Coq_xH))
                         then mk (PCF
                                ((Z.coq_land b0 (Zpos (Coq_xI (Coq_xI (Coq_xI
                                   Coq_xH))))), (zdrop (Zpos Coq_xH) d)))
                         else if Z.ltb datalen (Zpos (Coq_xI Coq_xH))
                              then None
                              else let fs =
                                     Z.coq_land b0 (Zpos (Coq_xI (Coq_xI
                                       (Coq_xI Coq_xH))))
                                   in
                                   if Z.leb (Zpos (Coq_xI Coq_xH)) fs
                                   then None
                                   else let st = byte_at d (S (S O)) in
                                        if stmin_valid st
                                        then mk (PFC (fs, (byte_at d (S O)),
                                               st))
                                        else None)
