open BinInt
open BinNums
open Datatypes
open List
open Prelude

type pdu =
| PSF of bool * coq_Z * coq_Z list
| PFF of bool * coq_Z * coq_Z list
| PCF of coq_Z * coq_Z list
| PFC of coq_Z * coq_Z * coq_Z

type decoded = { d_pdu : pdu; d_can_dl : coq_Z; d_rx_dl : coq_Z }

val byte_at : coq_Z list -> nat -> coq_Z

val stmin_valid : coq_Z -> bool

val pdu_decode : coq_Z list -> coq_Z -> decoded option
