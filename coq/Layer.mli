open Address
open BinInt
open BinNums
open Datatypes
open Frames
open List
open Nat
open Pdu
open Prelude
open RecordSet
open Types

val new_timer : coq_Z -> timer

val timer_stop : timer -> timer

val timer_start : coq_Z -> timer -> timer

val timer_timed_out : coq_Z -> timer -> bool

val timer_remaining : coq_Z -> timer -> coq_Z

val stmin_ns : coq_Z -> coq_Z

val gen_take : coq_Z -> gen -> coq_Z list * gen

val r_remaining : request -> coq_Z

val r_is_depleted : request -> bool

val consume : coq_Z -> bool -> request -> coq_Z list option * request

val coq_NO_LIMIT : coq_Z

val coq_SLOT_NS : coq_Z

val lim_allowed_bytes : params -> layer -> coq_Z

val lim_pop :
  coq_Z -> coq_Z -> coq_Z list -> coq_Z list -> coq_Z -> (coq_Z list * coq_Z
  list) * coq_Z

val lim_reset : layer -> layer

val lim_update : params -> layer -> layer

val add_last : coq_Z list -> coq_Z -> coq_Z list

val lim_inform : params -> coq_Z -> layer -> layer

val init_layer : cfg -> coq_Z -> layer

val start_rx_fc_timer : cfg -> layer -> layer

val start_rx_cf_timer : cfg -> layer -> layer

val request_tx_fc : coq_Z -> layer -> layer

val stop_sending_fc : layer -> layer

val stop_receiving : layer -> layer

val stop_sending : bool -> layer -> layer * event list

val check_timeouts_rx : layer -> layer * event list

val valid_rxdl : coq_Z -> bool

val start_reception_after_ff :
  cfg -> layer -> coq_Z -> coq_Z list -> coq_Z -> (layer * event list) * bool

type rx_report = { rr_s : layer; rr_evs : event list; rr_imm_tx : bool;
                   rr_frame : bool }

val mk_rr : layer -> event list -> bool -> bool -> rx_report

val process_rx : cfg -> layer -> frame -> rx_report

type tx_report = { tr_s : layer; tr_evs : event list; tr_msg : frame option;
                   tr_imm_rx : bool; tr_crash : bool }

val mk_tr : layer -> event list -> frame option -> bool -> tx_report

val mk_crash : layer -> event list -> coq_Z -> tx_report

val sf_on_first_byte : cfg -> coq_Z -> bool

type start_result =
| SRCrash of coq_Z
| SRDone of layer * event list * frame option

val start_request : cfg -> layer -> request -> coq_Z -> start_result

val idle_dequeue :
  cfg -> request list -> layer -> event list -> coq_Z -> start_result

val handle_fc_active : cfg -> layer -> fcpdu -> layer * event list

val handle_fc : cfg -> layer -> fcpdu -> bool * (layer * event list)

val tx_after_fc : cfg -> layer -> (tx_report, layer * event list) sum

val tx_finish :
  params -> layer -> event list -> frame option -> bool -> tx_report

val tx_cf : cfg -> coq_Z -> layer -> event list -> tx_report

val tx_fsm : cfg -> coq_Z -> layer -> event list -> tx_report

val process_tx_main : cfg -> coq_Z -> layer -> tx_report

val process_tx : cfg -> layer -> tx_report

type stats = { st_received : coq_Z; st_processed : coq_Z; st_sent : coq_Z;
               st_frames : coq_Z }

val stats0 : stats

type world = { w_l : layer; w_inbox : frame list }

val rx_loop :
  cfg -> frame list -> layer -> event list -> stats -> ((frame
  list * layer) * event list) * stats

type loop_end =
| LEnd
| LRunAgain
| LCrash
| LOutOfFuel

val tx_loop :
  nat -> cfg -> layer -> event list -> stats -> ((layer * event
  list) * stats) * loop_end

val is_nil : 'a1 list -> bool

val process_loop :
  nat -> cfg -> bool -> bool -> world -> event list -> stats ->
  ((world * event list) * stats) * loop_end

val process :
  nat -> cfg -> bool -> bool -> world -> ((world * event
  list) * stats) * loop_end

type send_result =
| SendOk
| SendValueError

val send : cfg -> layer -> gen -> coq_Z -> tat option -> layer * send_result

val recv : layer -> layer * coq_Z list option

val available : layer -> bool

val transmitting : layer -> bool

val is_rx_active : layer -> bool

val is_tx_throttled : layer -> bool

val reset : cfg -> layer -> layer * event list

val tick : coq_Z -> layer -> layer
