open Types

(** val mode29 : amode -> bool **)

let mode29 = function
| Normal11 -> false
| Extended11 -> false
| Mixed11 -> false
| _ -> true
