open AddrSpec
open Address
open BinInt
open BinNums
open Datatypes
open FrameSpec
open List
open Prelude
open Types

val spec_frame : cfg -> coq_Z -> coq_Z list -> frame

val sf_short_ok : cfg -> coq_Z -> bool

val sf_escape_ok : cfg -> coq_Z -> bool

val ff_cap : cfg -> coq_Z -> coq_Z

val cf_cap : cfg -> coq_Z

val ff_header : coq_Z -> coq_Z list

val cf_data : cfg -> coq_Z list -> coq_Z -> coq_Z list

val n_cf : cfg -> coq_Z -> coq_Z

val zseq : coq_Z -> coq_Z -> coq_Z list

val seg : cfg -> tat -> coq_Z list -> frame list
