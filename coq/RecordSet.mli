
type ('r, 't) coq_Setter = ('t -> 't) -> 'r -> 'r

val set : ('a1 -> 'a2) -> ('a1, 'a2) coq_Setter -> ('a2 -> 'a2) -> 'a1 -> 'a1
