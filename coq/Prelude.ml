open BinInt
open BinNums
open Datatypes
open List

(** val zlen : 'a1 list -> coq_Z **)

let zlen l =
  Z.of_nat (length l)

(** val ztake : coq_Z -> 'a1 list -> 'a1 list **)

let ztake n l =
  firstn (Z.to_nat n) l

(** val zdrop : coq_Z -> 'a1 list -> 'a1 list **)

let zdrop n l =
  skipn (Z.to_nat n) l

(** val zrepeat : 'a1 -> coq_Z -> 'a1 list **)

let zrepeat x n =
  repeat x (Z.to_nat n)

(** val opt_eqb : coq_Z option -> coq_Z option -> bool **)

let opt_eqb a b =
  match a with
  | Some x -> (match b with
               | Some y -> Z.eqb x y
               | None -> false)
  | None -> (match b with
             | Some _ -> false
             | None -> true)

(** val zmem : coq_Z -> coq_Z list -> bool **)

let zmem x l =
  existsb (Z.eqb x) l
