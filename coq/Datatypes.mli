
val negb : bool -> bool

type nat =
| O
| S of nat

type ('a, 'b) sum =
| Coq_inl of 'a
| Coq_inr of 'b

val length : 'a1 list -> nat

val app : 'a1 list -> 'a1 list -> 'a1 list

type comparison =
| Eq
| Lt
| Gt

val coq_CompOpp : comparison -> comparison
