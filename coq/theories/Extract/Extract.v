(** Extraction of the executable model (and Spec oracles) to OCaml.
    Only ExtrOcamlBasic is used: Z, positive, nat stay the extracted inductives. *)
Require Extraction.
Require Import ExtrOcamlBasic.
From IsoTp Require Import Model.Layer Spec.Segment.

Extraction Language OCaml.
Separate Extraction
  Layer.init_layer Layer.process Layer.send Layer.recv Layer.reset Layer.tick
  Layer.stop_sending Layer.stop_receiving Layer.available Layer.transmitting
  Layer.is_rx_active Layer.is_tx_throttled Layer.process_rx Layer.process_tx
  Layer.timer_remaining Layer.timer_timed_out
  Address.addr_validate Address.is_for_me Address.tx_arb_id Address.rx_arb_id
  Address.tx_prefix Address.rx_prefix_size Address.tx_ext_byte Address.rx_ext_byte
  Pdu.pdu_decode Frames.make_tx_msg Frames.make_flow_control
  Segment.seg Segment.spec_frame.
