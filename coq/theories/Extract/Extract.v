(** Extraction of the executable model (and Spec oracles) to OCaml.
    Only ExtrOcamlBasic is used: Z, positive, nat stay the extracted inductives. *)
Require Extraction.
Require Import ExtrOcamlBasic.
From IsoTp Require Import Model.Layer Model.Sock Model.Params Model.Threaded Model.Joint Spec.Segment Spec.Kernel.

Extraction Language OCaml.
Separate Extraction
  Layer.init_layer Layer.process Layer.send Layer.recv Layer.reset Layer.tick
  Layer.stop_sending Layer.stop_receiving Layer.available Layer.transmitting
  Layer.is_rx_active Layer.is_tx_throttled Layer.process_rx Layer.process_tx
  Layer.timer_remaining Layer.timer_timed_out
  Address.addr_validate Address.is_for_me Address.tx_arb_id Address.rx_arb_id
  Address.tx_prefix Address.rx_prefix_size Address.tx_ext_byte Address.rx_ext_byte
  Pdu.pdu_decode Frames.make_tx_msg Frames.make_flow_control
  Segment.seg Segment.spec_frame
  Sock.wsock0 Sock.w_set_opts Sock.w_set_fc_opts Sock.w_set_ll_opts Sock.w_bind Sock.w_send Sock.w_recv Sock.w_close
  Params.validate
  Threaded.tl_init Threaded.lstep Threaded.run_sched
  Joint.cstep Joint.crun Joint.jstep Joint.init_net
  Kernel.kinit Kernel.kapply Kernel.kernel_tx_id Kernel.kernel_tx_prefix Kernel.kernel_accepts Kernel.kernel_rx_byte.
