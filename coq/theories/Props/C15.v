(** C15 - Rate limiter bounds bursts and never stalls a transfer (local accounting facts). *)
From IsoTp Require Import Base.Prelude Model.Layer Spec.ConfigSpec Proofs.LocalP Model.Micro Proofs.LimP Proofs.LimWinP.

(** With the limiter disabled the allowance is 2^32-1 bytes: no frame (at most 64 bytes) is
    ever held back. *)
Theorem C15_off : forall p s, p_lim_enable p = false -> lim_allowed_bytes p s = 0xFFFFFFFF.
Proof. exact limiter_off_no_limit. Qed.

(** The allowance granted never lets the accounted bits exceed bitrate x window. *)
Theorem C15_allowance : forall p s, 0 < p_lim_bd p -> p_lim_enable p = true ->
  0 <= lim_allowed_bytes p s /\
  8 * lim_allowed_bytes p s * p_lim_bd p + lim_total s * p_lim_bd p <= Z.max (p_lim_bn p) (lim_total s * p_lim_bd p).
Proof. exact limiter_allowance. Qed.

(** Every emitted frame is accounted with exactly its data-field bits. *)
Theorem C15_accounting : forall p n s, p_lim_enable p = true -> lim_total (lim_inform p n s) = lim_total s + n * 8.
Proof. exact limiter_accounts. Qed.

(** Run level: in EVERY state reachable by micro-steps from the initial state (any schedule, any
    traffic, any sends) the bits accounted in the limiter's live window stay within the budget
    bitrate x window (the exact rational bn/bd) plus one CAN FD frame. *)
Theorem C15_window_bound : forall c t0 ms, params_ok (c_p c) ->
  let s := fst (mrun c (init_layer c t0) ms) in
  lim_total s * p_lim_bd (c_p c) <= p_lim_bn (c_p c) + 8 * 64 * p_lim_bd (c_p c).
Proof. exact lim_bound_reachable. Qed.

(** A data frame leaves a transmit pass only while the budget is not exhausted (allowance >= 1 byte and
    the frame is at most 64 bytes), or if the whole frame fits in what is left ([Efact]). *)
Theorem C15_emission_needs_budget : forall c s, params_ok (c_p c) -> pending_fc s = false ->
  forall m, tr_msg (process_tx c s) = Some m -> Efact (lim_allowed_bytes (c_p c) s) m.
Proof. exact emission_needs_budget. Qed.

(** The sliding window itself, on the clock the layer reads.  [grunE] logs, along a run, the instant and
    the data-field bits of every Single / First / Consecutive Frame handed to txfn.  After ANY run of
    micro-steps from the initial state with the limiter enabled (any traffic, any sends, any schedule;
    the clock is never set back and reset() - which empties the limiter - is not called), the frames
    emitted during the last (window - 5 ms) carry at most bitrate x window bits (the exact rational
    bn/bd) plus one CAN FD frame.  As the bound holds in every reachable state, it holds in particular
    right after each emission: for every interval that ends at an emission and is shorter than
    window - 5 ms. *)
Theorem C15_sliding_window : forall c, params_ok (c_p c) -> p_lim_enable (c_p c) = true ->
  forall t0 ms, Forall tick_ok ms ->
  let s := fst (mrun c (init_layer c t0) ms) in
  let E := grunE c (init_layer c t0) [] ms in
  forall T, now s - p_lim_window_ns (c_p c) + SLOT_NS <= T ->
    log_sum T E * p_lim_bd (c_p c) <= p_lim_bn (c_p c) + 8 * 64 * p_lim_bd (c_p c).
Proof. exact sliding_window. Qed.

Print Assumptions C15_off.
Print Assumptions C15_allowance.
Print Assumptions C15_accounting.
Print Assumptions C15_window_bound.
Print Assumptions C15_emission_needs_budget.
Print Assumptions C15_sliding_window.
