(** C15 - Rate limiter bounds bursts and never stalls a transfer (local accounting facts). *)
From IsoTp Require Import Base.Prelude Model.Layer Spec.ConfigSpec Proofs.LocalP.

(** With the limiter disabled the allowance is 2^32-1 bytes: no frame (at most 64 bytes) is
    ever held back. *)
Theorem C15_off : forall p s, p_lim_enable p = false -> lim_allowed_bytes p s = 0xFFFFFFFF.
Proof. exact limiter_off_no_limit. Qed.

(** The allowance granted never lets the accounted bits exceed bitrate x window. *)
Theorem C15_allowance : forall p s, 0 < p_lim_bd p -> p_lim_enable p = true ->
  0 <= lim_allowed_bytes p s /\
  8 * lim_allowed_bytes p s * p_lim_bd p + lim_total s * p_lim_bd p <= Z.max (p_lim_bn p) (lim_total s * p_lim_bd p).
Proof. exact limiter_allowance. Qed.

(** Every emitted frame is accounted with exactly its data-field bits. *)
Theorem C15_accounting : forall p n s, p_lim_enable p = true -> lim_total (lim_inform p n s) = lim_total s + n * 8.
Proof. exact limiter_accounts. Qed.

Print Assumptions C15_off.
Print Assumptions C15_allowance.
Print Assumptions C15_accounting.
