(** C08 - Separation time (STmin) requested by the receiver is honoured. *)
From IsoTp Require Import Base.Prelude Model.Micro Model.FloatTables Proofs.LocalP Proofs.PacingP.

(** A Consecutive Frame is handed out only if the STmin timer has expired: since the instant t0
    at which it was last started, more than its timeout elapsed (or the timeout is zero). *)
Theorem C08_gate : forall c a s evs m, tr_msg (tx_cf c a s evs) = Some m ->
  exists t0, t_start (timer_tx_stmin s) = Some t0 /\
    (t_timeout (timer_tx_stmin s) < now s - t0 \/ t_timeout (timer_tx_stmin s) = 0).
Proof. intros c a s evs m H. apply timed_out_elapsed. exact (cf_gate c a s evs m H). Qed.

(** Handing it out restarts the timer at that very instant with the same separation time - so
    the next Consecutive Frame of the block is at least that much later. *)
Theorem C08_restart : forall c a s evs m,
  tr_msg (tx_cf c a s evs) = Some m -> tx_state (tr_s (tx_cf c a s evs)) = TxTransmitCF ->
  t_start (timer_tx_stmin (tr_s (tx_cf c a s evs))) = Some (now s) /\
  t_timeout (timer_tx_stmin (tr_s (tx_cf c a s evs))) = t_timeout (timer_tx_stmin s).
Proof. exact cf_restarts_timer. Qed.

(** The separation time in force is the one of the most recent accepted ContinueToSend (or the
    override); leaving the wait state also starts the timer and a new block. *)
Theorem C08_programmed : forall c s fc,
  fc_status fc = FS_CTS -> timer_timed_out (now s) (timer_rx_fc s) = false ->
  let s' := fst (handle_fc_active c s fc) in
  t_timeout (timer_tx_stmin s') =
    (match p_override_stmin_ns (c_p c) with Some o => o | None => stmin_ns (fc_stmin fc) end) /\
  tx_state s' = TxTransmitCF /\ remote_bs s' = Some (fc_bs fc) /\
  (tx_state s = TxWaitFC -> t_start (timer_tx_stmin s') = Some (now s) /\ tx_block_counter s' = 0).
Proof. exact cts_sets_stmin. Qed.

(** STmin bytes decode to the documented times: 0..127 ms, 100..900 us; the float computation
    of the implementation equals the table for every byte (exhaustive, vm_compute). *)
Theorem C08_table : forall b, 0 <= b < 256 ->
  stmin_float_ns b = stmin_ns b /\
  (0 <= b <= 0x7F -> stmin_ns b = b * 1000000) /\ (0xF1 <= b <= 0xF9 -> stmin_ns b = (b - 0xF0) * 100000).
Proof. exact stmin_ns_table. Qed.

(** With a zero separation time frames are not delayed at all. *)
Theorem C08_zero : forall nw t, t_timeout t = 0 -> timer_running t = true -> timer_timed_out nw t = true.
Proof. exact zero_stmin_no_delay. Qed.

(** Run level.  [cf_emitted c s = Some s3]: the transmit pass taken in state [s] emits a Consecutive
    Frame, built from state [s3] (Proofs/PacingP.v).  [paced c s lc ms]: along the run [ms] from
    [s], with [lc] the instant of the last Consecutive Frame so far, every Consecutive Frame leaves
    at least the separation time held by the STmin timer at that moment (programmed by the last
    accepted ContinueToSend, C08_programmed) after the previous one.  It holds for EVERY run of
    micro-steps from the initial state - every schedule of process() passes, user calls, received
    frames and non-negative clock ticks. *)
Theorem C08_pass : forall c s t0, Q t0 s ->
  match cf_emitted c s with
  | Some s3 => t_timeout (timer_tx_stmin s3) <= now s - t0 /\ Q (now s) (tr_s (process_tx c s))
  | None => Q t0 (tr_s (process_tx c s))
  end.
Proof. exact tx_pass_pacing. Qed.

Theorem C08_run : forall c t0 ms, ticks_nonneg ms -> paced c (init_layer c t0) None ms.
Proof. exact pacing_from_init. Qed.

Print Assumptions C08_gate.
Print Assumptions C08_restart.
Print Assumptions C08_programmed.
Print Assumptions C08_table.
Print Assumptions C08_zero.
Print Assumptions C08_pass.
Print Assumptions C08_run.
