(** C10 - Full duplex: concurrent send and receive never disturb each other.

    Proved: non-interference of the two directions inside one layer (the transmit state machine
    never modifies reception state; data frames never modify transmission state; the only shared
    cells are the two flow-control mailboxes), and absence of a wedge in either direction in
    every reachable state (whatever the interleaving of process() passes, deliveries and ticks).
    Over every schedule of process() / send() / recv() calls and ticks on two linked peers, both
    transmitting and receiving at once (C10_both_directions): as long as no error is reported, each
    direction's deliveries are a prefix of what the other side accepted, and all of it at rest -
    whatever the other direction is doing meanwhile.  That no error is reported under timely
    processing is explored by the duplex campaign (harness/props/C10.py). *)
From IsoTp Require Import Base.Prelude Model.Micro Model.Joint Spec.ConfigSpec Proofs.Inv Proofs.FsmProps Proofs.DuplexP
  Model.Pdu Proofs.WireP Proofs.JointP Proofs.JointProcP Proofs.TokenP Proofs.MailboxP.

Theorem C10_tx_preserves_rx : forall c allowed s, rxv (tr_s (process_tx_main c allowed s)) = rxv s.
Proof. exact tx_preserves_rx. Qed.

Theorem C10_rx_preserves_tx : forall c s f,
  (forall d fs bs st, pdu_decode (f_data f) (c_rx_prefix_size c) = Some d -> d_pdu d <> PFC fs bs st) ->
  txv (rr_s (process_rx c s f)) = txv s /\
  (last_fc (rr_s (process_rx c s f)) = last_fc s \/ last_fc (rr_s (process_rx c s f)) = None).
Proof. exact rx_data_preserves_tx. Qed.

Theorem C10_fc_only_mailbox : forall c s f d fs bs st,
  pdu_decode (f_data f) (c_rx_prefix_size c) = Some d -> d_pdu d = PFC fs bs st ->
  process_rx c s f = mk_rr (s <| last_fc := Some {| fc_status := fs; fc_bs := bs; fc_stmin := st |} |>) [] true false.
Proof. exact rx_fc_only_mailbox. Qed.

Theorem C10_fc_answer_pass : forall c s, pending_fc s = true -> p_listen (c_p c) = false ->
  txv (tr_s (process_tx c s)) = txv s /\ last_fc (tr_s (process_tx c s)) = last_fc s /\
  rx_state (tr_s (process_tx c s)) = rx_state s /\ rx_buffer (tr_s (process_tx c s)) = rx_buffer s /\
  rx_queue (tr_s (process_tx c s)) = rx_queue s /\ last_seqnum (tr_s (process_tx c s)) = last_seqnum s /\
  pending_fc (tr_s (process_tx c s)) = false.
Proof. exact pending_fc_pass. Qed.

Theorem C10_user_calls : forall c s g size t,
  (rxv (fst (send c s g size t)) = rxv s /\ last_fc (fst (send c s g size t)) = last_fc s) /\
  (txv (fst (recv s)) = txv s /\ last_fc (fst (recv s)) = last_fc s).
Proof. exact user_calls. Qed.

(** The end of a transfer in one direction - success, protocol error, timeout, or the user's stop_sending() / stop_receiving() -
    leaves the other direction alone: ending a transmission touches nothing of the reception in progress (state, buffer, announced
    length, counters, the Flow Control still owed, its deadline, delivered payloads), of the limiter window or of the queue; ending a
    reception touches nothing of the transmission in progress (state, request, queue, standby frame, grant, counters, timers). *)
Theorem C10_stop_calls : forall b s,
  (receiver_part (fst (stop_sending b s)) = receiver_part s /\ limiter_part (fst (stop_sending b s)) = limiter_part s /\
   tx_queue (fst (stop_sending b s)) = tx_queue s /\ last_fc (fst (stop_sending b s)) = last_fc s) /\
  (sender_core (stop_receiving s) = sender_core s /\ limiter_part (stop_receiving s) = limiter_part s /\
   rx_queue (stop_receiving s) = rx_queue s).
Proof. intros b s. exact (conj (stop_sending_keeps_reception b s) (stop_receiving_keeps_transmission s)). Qed.

(** No state is reachable - under any interleaving - in which a transfer is in progress and
    nothing can end the wait: a transmitter that is not idle has its deadline or pacing timer
    running (or a frame in rate-limiter standby), a receiver that is not idle has N_Cr running
    or the Flow Control that starts it pending. *)
Theorem C10_no_wedge : forall c s, reachable c s ->
  (tx_state s <> TxIdle ->
    (tx_state s = TxWaitFC /\ timer_running (timer_rx_fc s) = true /\ t_timeout (timer_rx_fc s) = p_tbs_ns (c_p c)) \/
    (tx_state s = TxTransmitCF /\ timer_running (timer_tx_stmin s) = true /\ remote_bs s <> None) \/
    ((tx_state s = TxSFStandby \/ tx_state s = TxFFStandby) /\ tx_standby s <> None)) /\
  (rx_state s = RxWaitCF ->
    (timer_running (timer_rx_cf s) = true /\ t_timeout (timer_rx_cf s) = p_tcr_ns (c_p c)) \/
    (pending_fc s = true /\ pending_fc_status s = Some FS_CTS)).
Proof. exact no_wedge. Qed.

(** Full duplex over EVERY schedule of user-level calls on two linked peers (any interleaving of the two
    process() loops with any flags, send() on both sides at any moment, recv(), ticks): unless an error
    event has been reported, B has been handed a prefix of what A accepted AND A a prefix of what B
    accepted - same bytes, same order, exactly once - and at rest both have everything. *)
Theorem C10_both_directions : forall ca cb, params_ok (c_p ca) -> params_ok (c_p cb) ->
  linked ca cb -> linked cb ca ->
  forall ta tb cls, Forall (call_ok ca cb) cls ->
  let n := fst (crun ca cb (init_net ca cb ta tb) cls) in
  let tr := snd (crun ca cb (init_net ca cb ta tb) cls) in
  jerr tr = true \/
  ((exists later, sent_of SA tr = (recv_of SB tr ++ rx_queue (nB n)) ++ later) /\
   (exists later, sent_of SB tr = (recv_of SA tr ++ rx_queue (nA n)) ++ later) /\
   (at_rest n -> sent_of SA tr = recv_of SB tr ++ rx_queue (nB n) /\
                 sent_of SB tr = recv_of SA tr ++ rx_queue (nA n))).
Proof. exact calls_transfer. Qed.

(** ... and, with non-reserved STmin bytes, the only errors a full-duplex exchange can report first are
    missed deadlines: neither direction ever sees a Flow Control it does not expect, whatever the
    interleaving of the two process() loops and of the two directions of traffic. *)
Theorem C10_only_deadline_errors : forall ca cb, params_ok (c_p ca) -> params_ok (c_p cb) ->
  linked ca cb -> linked cb ca ->
  forall ta tb cls,
  stmin_valid (p_stmin (c_p ca)) = true -> stmin_valid (p_stmin (c_p cb)) = true -> Forall (call_ok ca cb) cls ->
  let n := fst (crun ca cb (init_net ca cb ta tb) cls) in
  let tr := snd (crun ca cb (init_net ca cb ta tb) cls) in
  jto tr = true \/
  (jerr tr = false /\
   (exists later, sent_of SA tr = (recv_of SB tr ++ rx_queue (nB n)) ++ later) /\
   (exists later, sent_of SB tr = (recv_of SA tr ++ rx_queue (nA n)) ++ later) /\
   (at_rest n -> sent_of SA tr = recv_of SB tr ++ rx_queue (nB n) /\
                 sent_of SB tr = recv_of SA tr ++ rx_queue (nA n))).
Proof. exact calls_only_deadlines. Qed.

Print Assumptions C10_tx_preserves_rx.
Print Assumptions C10_rx_preserves_tx.
Print Assumptions C10_fc_only_mailbox.
Print Assumptions C10_fc_answer_pass.
Print Assumptions C10_user_calls.
Print Assumptions C10_stop_calls.
Print Assumptions C10_no_wedge.
Print Assumptions C10_both_directions.
Print Assumptions C10_only_deadline_errors.
