(** C10 - Full duplex: concurrent send and receive never disturb each other.

    Proved: non-interference of the two directions inside one layer (the transmit state machine
    never modifies reception state; data frames never modify transmission state; the only shared
    cells are the two flow-control mailboxes), and absence of a wedge in either direction in
    every reachable state (whatever the interleaving of process() passes, deliveries and ticks).
    Delivery of both directions' payloads then follows per direction from C01 / C02 / C03.
    The joint two-peer statement over every interleaving is explored, not proved
    (harness/props/C10.py). *)
From IsoTp Require Import Base.Prelude Model.Micro Spec.ConfigSpec Proofs.Inv Proofs.FsmProps Proofs.DuplexP.

Theorem C10_tx_preserves_rx : forall c allowed s, rxv (tr_s (process_tx_main c allowed s)) = rxv s.
Proof. exact tx_preserves_rx. Qed.

Theorem C10_rx_preserves_tx : forall c s f,
  (forall d fs bs st, pdu_decode (f_data f) (c_rx_prefix_size c) = Some d -> d_pdu d <> PFC fs bs st) ->
  txv (rr_s (process_rx c s f)) = txv s /\
  (last_fc (rr_s (process_rx c s f)) = last_fc s \/ last_fc (rr_s (process_rx c s f)) = None).
Proof. exact rx_data_preserves_tx. Qed.

Theorem C10_fc_only_mailbox : forall c s f d fs bs st,
  pdu_decode (f_data f) (c_rx_prefix_size c) = Some d -> d_pdu d = PFC fs bs st ->
  process_rx c s f = mk_rr (s <| last_fc := Some {| fc_status := fs; fc_bs := bs; fc_stmin := st |} |>) [] true false.
Proof. exact rx_fc_only_mailbox. Qed.

Theorem C10_fc_answer_pass : forall c s, pending_fc s = true -> p_listen (c_p c) = false ->
  txv (tr_s (process_tx c s)) = txv s /\ last_fc (tr_s (process_tx c s)) = last_fc s /\
  rx_state (tr_s (process_tx c s)) = rx_state s /\ rx_buffer (tr_s (process_tx c s)) = rx_buffer s /\
  rx_queue (tr_s (process_tx c s)) = rx_queue s /\ last_seqnum (tr_s (process_tx c s)) = last_seqnum s /\
  pending_fc (tr_s (process_tx c s)) = false.
Proof. exact pending_fc_pass. Qed.

Theorem C10_user_calls : forall c s g size t,
  (rxv (fst (send c s g size t)) = rxv s /\ last_fc (fst (send c s g size t)) = last_fc s) /\
  (txv (fst (recv s)) = txv s /\ last_fc (fst (recv s)) = last_fc s).
Proof. exact user_calls. Qed.

(** No state is reachable - under any interleaving - in which a transfer is in progress and
    nothing can end the wait: a transmitter that is not idle has its deadline or pacing timer
    running (or a frame in rate-limiter standby), a receiver that is not idle has N_Cr running
    or the Flow Control that starts it pending. *)
Theorem C10_no_wedge : forall c s, reachable c s ->
  (tx_state s <> TxIdle ->
    (tx_state s = TxWaitFC /\ timer_running (timer_rx_fc s) = true /\ t_timeout (timer_rx_fc s) = p_tbs_ns (c_p c)) \/
    (tx_state s = TxTransmitCF /\ timer_running (timer_tx_stmin s) = true /\ remote_bs s <> None) \/
    ((tx_state s = TxSFStandby \/ tx_state s = TxFFStandby) /\ tx_standby s <> None)) /\
  (rx_state s = RxWaitCF ->
    (timer_running (timer_rx_cf s) = true /\ t_timeout (timer_rx_cf s) = p_tcr_ns (c_p c)) \/
    (pending_fc s = true /\ pending_fc_status s = Some FS_CTS)).
Proof. exact no_wedge. Qed.

Print Assumptions C10_tx_preserves_rx.
Print Assumptions C10_rx_preserves_tx.
Print Assumptions C10_fc_only_mailbox.
Print Assumptions C10_fc_answer_pass.
Print Assumptions C10_user_calls.
Print Assumptions C10_no_wedge.
