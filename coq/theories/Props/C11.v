(** C11 - A single lost or duplicated frame is contained.

    One theorem per kind of hit frame, each for every configuration and every state meeting the
    stated precondition; their composition along a whole exchange (which message is missing,
    "at most one") is checked exhaustively over fault positions by harness/props/C11.py, not
    proved as one statement. *)
From IsoTp Require Proofs.JustifiedP.
From IsoTp Require Import Base.Prelude Model.Micro Spec.ConfigSpec Spec.Stream
  Proofs.Events Proofs.Inv Proofs.FsmProps Proofs.RxP Proofs.AnomalyP Proofs.FaultP Proofs.LocalP.

(** duplicated Single Frame: delivered twice, no error (the tolerated case) *)
Theorem C11_dup_single : forall c mk, (forall d, f_data (mk d) = d) -> forall p f s,
  wf_stream (c_rx_prefix_size c) p [f] -> zlen p <= p_max_frame_size (c_p c) -> rx_state s = RxIdle ->
  let '(s', evs) := rx_run c s [f; f] mk in
  evs = [] /\ rx_queue s' = rx_queue s ++ [p; p] /\ rx_state s' = RxIdle.
Proof. exact dup_single. Qed.

(** lost First Frame: the Consecutive Frames that follow are reported and ignored, nothing is
    delivered, the receiver stays idle *)
Theorem C11_lost_first_frame : forall c mk, (forall d, f_data (mk d) = d) -> forall T j rest frames,
  wf_cfs (c_rx_prefix_size c) T j rest frames -> forall s, rx_state s = RxIdle ->
  let '(s', evs) := rx_run c s frames mk in
  evs = repeat (EErr UnexpectedConsecutiveFrame) (length frames) /\
  rx_queue s' = rx_queue s /\ rx_state s' = RxIdle /\
  tx_state s' = tx_state s /\ tx_queue s' = tx_queue s /\ active s' = active s.
Proof. exact drop_first. Qed.

(** lost or duplicated Consecutive Frame: the next frame seen carries a sequence number that is
    not the expected one; WrongSequenceNumberError, the partial message is dropped (never
    delivered truncated or merged), receiver idle *)
Theorem C11_sequence_gap : forall c s f d sn data,
  pdu_decode (f_data f) (c_rx_prefix_size c) = Some d -> d_pdu d = PCF sn data -> rx_state s = RxWaitCF ->
  sn <> Z.land (last_seqnum s + 1) 0xF ->
  process_rx c s f = mk_rr (stop_receiving s) [EErr WrongSequenceNumber] false false /\
  rx_queue (stop_receiving s) = rx_queue s /\ rx_state (stop_receiving s) = RxIdle /\ rx_buffer (stop_receiving s) = [].
Proof. exact sequence_gap. Qed.

(** lost last Consecutive Frame(s) / lost Flow Control towards the sender, seen from the
    receiver: a reception in progress always has a deadline, and when it passes the reception is
    abandoned with ConsecutiveFrameTimeoutError, nothing delivered *)
Theorem C11_lost_tail_reported : forall c s, reachable c s -> rx_state s = RxWaitCF ->
  ((timer_running (timer_rx_cf s) = true /\ t_timeout (timer_rx_cf s) = p_tcr_ns (c_p c)) \/
   (pending_fc s = true /\ pending_fc_status s = Some FS_CTS)) /\
  (timer_timed_out (now s) (timer_rx_cf s) = true ->
     snd (check_timeouts_rx s) = [EErr ConsecutiveFrameTimeout] /\
     rx_state (fst (check_timeouts_rx s)) = RxIdle /\ rx_queue (fst (check_timeouts_rx s)) = rx_queue s).
Proof. exact lost_tail_reported. Qed.

(** lost Flow Control, seen from the sender: FlowControlTimeoutError, request failed *)
Theorem C11_lost_fc_reported : forall c s r, WF c s -> pending_fc s = false -> active s = Some r ->
  timer_timed_out (now s) (timer_rx_fc s) = true ->
  (last_fc s = None \/ exists fc, last_fc s = Some fc /\ fc_status fc <> FS_OVFLW /\
                                  (fc_status fc = FS_WAIT -> p_wftmax (c_p c) <> 0)) ->
  forall a, exists rest,
    tr_evs (process_tx_main c a s) = EErr FlowControlTimeout :: EDone (r_id r) false :: rest /\
    (tr_crash (process_tx_main c a s) = false -> forallb fsm_ev_ok rest = true).
Proof. exact fc_timeout_fires. Qed.

(** duplicated ContinueToSend: harmless *)
Theorem C11_dup_cts : forall c s fc, WF c s -> tx_state s = TxTransmitCF -> fc_status fc = FS_CTS ->
  exists s', handle_fc c s fc = (false, (s', [])) /\ tx_state s' = TxTransmitCF /\
    active s' = active s /\ tx_seqnum s' = tx_seqnum s /\ tx_block_counter s' = tx_block_counter s /\
    tx_queue s' = tx_queue s /\ timer_running (timer_tx_stmin s') = timer_running (timer_tx_stmin s).
Proof. exact dup_cts_harmless. Qed.

(** after the fault: from whatever state the fault left the receiver in, the next message is
    delivered intact, exactly once; at most the interruption of the abandoned reception is reported *)
Theorem C11_after_fault : forall c mk, (forall d, f_data (mk d) = d) ->
  forall p frames, wf_stream (c_rx_prefix_size c) p frames -> zlen p <= p_max_frame_size (c_p c) ->
  forall s,
    let '(s', evs) := rx_run c s frames mk in
    rx_queue s' = rx_queue s ++ [p] /\ rx_state s' = RxIdle /\
    (evs = interrupt_evs s InterruptedWithSF \/ evs = interrupt_evs s InterruptedWithFF) /\
    tx_state s' = tx_state s /\ tx_queue s' = tx_queue s /\ active s' = active s.
Proof. exact rx_stream. Qed.

(** whatever the fault (any number of them, in fact): what is delivered is never truncated, merged or
    corrupted - every delivery of every run is the data of one Single Frame or of one First Frame and
    the in-sequence Consecutive Frames accepted after it (C05_justified_run) *)
Theorem C11_never_corrupted : forall c t0 ms,
  Forall (fun d => JustifiedP.justified c (fst d) (snd d)) (JustifiedP.jrun c (init_layer c t0) [] ms).
Proof. exact JustifiedP.justified_from_init. Qed.

Print Assumptions C11_dup_single.
Print Assumptions C11_lost_first_frame.
Print Assumptions C11_sequence_gap.
Print Assumptions C11_lost_tail_reported.
Print Assumptions C11_lost_fc_reported.
Print Assumptions C11_dup_cts.
Print Assumptions C11_after_fault.
Print Assumptions C11_never_corrupted.
