(** C07 - Timeouts fire exactly when the deadline is missed, and only then.
    Time is the integer-nanosecond virtual clock; T_cr / T_bs are the values held by the Timer
    objects (Model/FloatTables.v relates them to the millisecond parameters). The statements
    quantify over every state reachable by any sequence of micro-steps (Proofs/MicroP.v:
    every schedule of process() calls, user calls and clock ticks is such a sequence). *)
From IsoTp Require Import Base.Prelude Model.Micro Model.FloatTables Spec.ConfigSpec Proofs.Events Proofs.Inv Proofs.FsmProps Proofs.LocalP Proofs.MailboxP.

(** ConsecutiveFrameTimeoutError is reported by a micro-step iff that step is the timeout check
    of the reception loop, a reception is in progress, and more than rx_consecutive_frame_timeout
    elapsed since N_Cr was last (re)started. *)
Theorem C07_rx_iff : forall c s m, params_ok (c_p c) -> reachable c s ->
  (In (EErr ConsecutiveFrameTimeout) (snd (mstep c s m)) <->
   m = MCheck /\ rx_state s = RxWaitCF /\
   exists t0, t_start (timer_rx_cf s) = Some t0 /\
              (p_tcr_ns (c_p c) < now s - t0 \/ p_tcr_ns (c_p c) = 0)).
Proof. exact cf_timeout_iff. Qed.

(** When it fires: exactly one error, reception abandoned, nothing delivered, timer stopped. *)
Theorem C07_rx_effect : forall s, timer_timed_out (now s) (timer_rx_cf s) = true ->
  snd (check_timeouts_rx s) = [EErr ConsecutiveFrameTimeout] /\
  rx_state (fst (check_timeouts_rx s)) = RxIdle /\
  rx_queue (fst (check_timeouts_rx s)) = rx_queue s /\
  rx_buffer (fst (check_timeouts_rx s)) = [] /\
  timer_running (timer_rx_cf (fst (check_timeouts_rx s))) = false.
Proof. exact cf_timeout_effect. Qed.

(** Before the deadline the check changes nothing: the frame is processed normally. *)
Theorem C07_rx_accept : forall s, timer_timed_out (now s) (timer_rx_cf s) = false ->
  check_timeouts_rx s = (s, []).
Proof. exact cf_no_timeout_noop. Qed.

(** FlowControlTimeoutError is only reported by a transmit pass while the sender waits for a
    Flow Control whose deadline has passed ... *)
Theorem C07_tx_only_if : forall c s m,
  params_ok (c_p c) -> 0 < p_tbs_ns (c_p c) -> reachable c s ->
  In (EErr FlowControlTimeout) (snd (mstep c s m)) ->
  m = MTx /\ tx_state s = TxWaitFC /\
  exists t0, t_start (timer_rx_fc s) = Some t0 /\ p_tbs_ns (c_p c) < now s - t0.
Proof. exact fc_timeout_only_if. Qed.

(** ... and such a pass (no Flow Control received, or a ContinueToSend / Wait that came too
    late) reports it first and exactly once, fails the request, and goes on with the queue. *)
Theorem C07_tx_fires : forall c s r, WF c s -> pending_fc s = false -> active s = Some r ->
  timer_timed_out (now s) (timer_rx_fc s) = true ->
  (last_fc s = None \/ exists fc, last_fc s = Some fc /\ fc_status fc <> FS_OVFLW /\
                                  (fc_status fc = FS_WAIT -> p_wftmax (c_p c) <> 0)) ->
  forall a, exists rest,
    tr_evs (process_tx_main c a s) = EErr FlowControlTimeout :: EDone (r_id r) false :: rest /\
    (tr_crash (process_tx_main c a s) = false -> forallb fsm_ev_ok rest = true).
Proof. exact fc_timeout_fires. Qed.

(** No timer runs while no transfer is in progress. *)
Theorem C07_idle : forall c s, reachable c s ->
  (rx_state s = RxIdle -> timer_running (timer_rx_cf s) = false) /\
  (tx_state s <> TxWaitFC -> timer_running (timer_rx_fc s) = false).
Proof. exact timers_idle. Qed.

(** The nanosecond value a Timer holds for a millisecond parameter (float computation of the
    implementation, evaluated on Coq's binary64 floats) is the exact value or 1 ns less, for
    every timeout from 0 to 20 s. *)
Theorem C07_conversion : forall ms, 0 <= ms <= 20000 -> ms * 1000000 - 1 <= to_ns ms <= ms * 1000000.
Proof. exact to_ns_bounds. Qed.

(** The boundary: a running N_Cr / N_Bs / STmin timer with a non-zero timeout has expired iff MORE than the timeout has elapsed since it
    was started - what is processed exactly on the deadline is still in time, one nanosecond later it is late. *)
Theorem C07_boundary : forall nw t s, t_start t = Some s -> 0 < t_timeout t ->
  (timer_timed_out nw t = true <-> t_timeout t < nw - s).
Proof. exact timer_boundary. Qed.

Theorem C07_on_deadline : forall t s, t_start t = Some s -> 0 < t_timeout t ->
  timer_timed_out (s + t_timeout t) t = false /\ timer_timed_out (s + t_timeout t + 1) t = true.
Proof. exact timer_on_deadline. Qed.

Print Assumptions C07_boundary.
Print Assumptions C07_on_deadline.
Print Assumptions C07_rx_iff.
Print Assumptions C07_conversion.
Print Assumptions C07_rx_effect.
Print Assumptions C07_rx_accept.
Print Assumptions C07_tx_only_if.
Print Assumptions C07_tx_fires.
Print Assumptions C07_idle.
