(** C06 - Reception anomalies raise the documented error and never poison the receiver. *)
From IsoTp Require Import Base.Prelude Model.Layer Spec.ConfigSpec Spec.Stream Proofs.RxP Proofs.AnomalyP.

(** Recovery: after ANY history - i.e. from any receiver state whatsoever - the next
    well-formed message is received intact, exactly once. *)
Theorem C06_recovery : forall c mk, (forall d, f_data (mk d) = d) ->
  forall p frames, wf_stream (c_rx_prefix_size c) p frames -> zlen p <= p_max_frame_size (c_p c) ->
  forall s,
    let '(s', evs) := rx_run c s frames mk in
    rx_queue s' = rx_queue s ++ [p] /\ rx_state s' = RxIdle /\
    (evs = interrupt_evs s InterruptedWithSF \/ evs = interrupt_evs s InterruptedWithFF) /\
    tx_state s' = tx_state s /\ tx_queue s' = tx_queue s /\ active s' = active s.
Proof. exact rx_stream. Qed.

Theorem C06_undecodable : forall c s f, pdu_decode (f_data f) (c_rx_prefix_size c) = None ->
  process_rx c s f = mk_rr (stop_receiving s) [EErr InvalidCanData] false false.
Proof. exact anomaly_undecodable. Qed.

Theorem C06_missing_escape : forall c s f d len data,
  pdu_decode (f_data f) (c_rx_prefix_size c) = Some d -> d_pdu d = PSF false len data -> 8 < d_can_dl d ->
  process_rx c s f = mk_rr s [EErr MissingEscapeSequence] false false.
Proof. exact anomaly_missing_escape. Qed.

Theorem C06_cf_idle : forall c s f d sn data,
  pdu_decode (f_data f) (c_rx_prefix_size c) = Some d -> d_pdu d = PCF sn data -> rx_state s = RxIdle ->
  rr_evs (process_rx c s f) = [EErr UnexpectedConsecutiveFrame] /\
  rx_queue (rr_s (process_rx c s f)) = rx_queue s /\ rx_state (rr_s (process_rx c s f)) = RxIdle.
Proof. exact anomaly_cf_idle. Qed.

Theorem C06_wrong_seq : forall c s f d sn data,
  pdu_decode (f_data f) (c_rx_prefix_size c) = Some d -> d_pdu d = PCF sn data -> rx_state s = RxWaitCF ->
  sn <> Z.land (last_seqnum s + 1) 0xF ->
  process_rx c s f = mk_rr (stop_receiving s) [EErr WrongSequenceNumber] false false.
Proof. exact anomaly_wrong_seq. Qed.

Theorem C06_sf_interrupt : forall c s f d esc len data,
  pdu_decode (f_data f) (c_rx_prefix_size c) = Some d -> d_pdu d = PSF esc len data ->
  ((8 <? d_can_dl d) && negb esc) = false -> rx_state s = RxWaitCF ->
  rr_evs (process_rx c s f) = [EErr InterruptedWithSF] /\
  rx_queue (rr_s (process_rx c s f)) = rx_queue s ++ [data] /\
  rx_state (rr_s (process_rx c s f)) = RxIdle /\ rx_buffer (rr_s (process_rx c s f)) = [].
Proof. exact anomaly_sf_interrupt. Qed.

Theorem C06_ff_too_long : forall c s f d esc len data,
  pdu_decode (f_data f) (c_rx_prefix_size c) = Some d -> d_pdu d = PFF esc len data ->
  valid_rxdl (d_rx_dl d) = true -> p_max_frame_size (c_p c) < len ->
  let r := process_rx c s f in
  In (EErr FrameTooLong) (rr_evs r) /\ rx_state (rr_s r) = RxIdle /\ rx_queue (rr_s r) = rx_queue s /\
  pending_fc (rr_s r) = true /\ pending_fc_status (rr_s r) = Some FS_OVFLW /\ rx_buffer (rr_s r) = [] /\
  timer_running (timer_rx_cf (rr_s r)) = false.
Proof. exact anomaly_ff_too_long. Qed.

Theorem C06_bad_ff_rxdl : forall c s f d esc len data,
  pdu_decode (f_data f) (c_rx_prefix_size c) = Some d -> d_pdu d = PFF esc len data ->
  valid_rxdl (d_rx_dl d) = false ->
  let r := process_rx c s f in
  In (EErr InvalidCanFdFirstFrameRXDL) (rr_evs r) /\ rx_state (rr_s r) = RxIdle /\
  rx_queue (rr_s r) = rx_queue s /\ rx_buffer (rr_s r) = [] /\ pending_fc (rr_s r) = false.
Proof. exact anomaly_bad_ff_rxdl. Qed.

Theorem C06_changing_rxdl : forall c s f d sn data,
  pdu_decode (f_data f) (c_rx_prefix_size c) = Some d -> d_pdu d = PCF sn data -> rx_state s = RxWaitCF ->
  sn = Z.land (last_seqnum s + 1) 0xF ->
  Some (d_rx_dl d) <> actual_rxdl s -> d_rx_dl d < rx_frame_length s - zlen (rx_buffer s) ->
  process_rx c s f = mk_rr s [EErr ChangingInvalidRXDL] false false.
Proof. exact anomaly_changing_rxdl. Qed.

Print Assumptions C06_recovery.
Print Assumptions C06_undecodable.
Print Assumptions C06_missing_escape.
Print Assumptions C06_cf_idle.
Print Assumptions C06_wrong_seq.
Print Assumptions C06_sf_interrupt.
Print Assumptions C06_ff_too_long.
Print Assumptions C06_bad_ff_rxdl.
Print Assumptions C06_changing_rxdl.
