(** C03 - Receiver reassembles every well-formed stream and issues correct flow control. *)
From IsoTp Require Import Base.Prelude Model.Layer Spec.ConfigSpec Spec.Stream Spec.Segment Proofs.RxP Proofs.FcPosP.

(** For every receiver configuration, every payload, every stream a conforming sender may
    produce for it (Spec/Stream.v: any link-layer size, SF short/escape, 12/32-bit FF, any
    padding of the last frame) and ANY receiver state: the payload is appended to the reception
    queue exactly once, at the last frame; the receiver is idle afterwards; the only error
    possible is the interruption report for a reception it replaces (none from idle);
    the transmit side is untouched. *)
Theorem C03_reassembly : forall c mk, (forall d, f_data (mk d) = d) ->
  forall p frames, wf_stream (c_rx_prefix_size c) p frames -> zlen p <= p_max_frame_size (c_p c) ->
  forall s,
    let '(s', evs) := rx_run c s frames mk in
    rx_queue s' = rx_queue s ++ [p] /\ rx_state s' = RxIdle /\
    (evs = interrupt_evs s InterruptedWithSF \/ evs = interrupt_evs s InterruptedWithFF) /\
    tx_state s' = tx_state s /\ tx_queue s' = tx_queue s /\ active s' = active s.
Proof. exact rx_stream. Qed.

(** The Flow Control the receiver emits is exactly the reference frame: status, configured
    blocksize and stmin, address prefix, padding, DLC, identifier and flags. *)
Theorem C03_flow_control_frame : forall c s st,
  params_ok (c_p c) -> p_listen (c_p c) = false ->
  pending_fc s = true -> pending_fc_status s = Some st -> (st = FS_CTS \/ st = FS_OVFLW) ->
  let r := process_tx c s in
  tr_msg r = Some (spec_frame c (Address.tx_arb_id (c_txa c) Physical)
                     (Address.tx_prefix (c_txa c) ++ [0x30 + st; p_blocksize (c_p c); p_stmin (c_p c)])) /\
  tr_evs r = [] /\ pending_fc (tr_s r) = false /\ tr_crash r = false /\
  rx_state (tr_s r) = rx_state s /\ rx_queue (tr_s r) = rx_queue s /\ rx_buffer (tr_s r) = rx_buffer s.
Proof. exact fc_answer. Qed.

(** Run level, with the answers ([rx_run_fc]: each frame through _process_rx, and the transmit pass that
    answers as soon as a Flow Control is pending): for a well-formed multi-frame stream reaching an idle
    receiver, the payload is delivered intact without error and the Flow Controls emitted are exactly:
    one after the First Frame and one after every [blocksize]-th Consecutive Frame that is not the last
    ([fc_due]), each equal to the reference ContinueToSend frame; nothing after the other frames. *)
Theorem C03_flow_control_positions : forall c mk, (forall d, f_data (mk d) = d) -> params_ok (c_p c) ->
  p_listen (c_p c) = false ->
  forall p T pre first rest cfs s,
  In T LL_SIZES -> zlen pre = c_rx_prefix_size c -> p = first ++ rest -> rest <> [] -> 0 < zlen p < 2 ^ 32 ->
  zlen (pre ++ ff_hdr (zlen p) ++ first) = T -> wf_cfs (c_rx_prefix_size c) T 1 rest cfs ->
  zlen p <= p_max_frame_size (c_p c) -> rx_state s = RxIdle -> pending_fc s = false ->
  let fcref := spec_frame c (Address.tx_arb_id (c_txa c) Physical)
                 (Address.tx_prefix (c_txa c) ++ [0x30 + FS_CTS; p_blocksize (c_p c); p_stmin (c_p c)]) in
  let '(s', evs, fcs) := rx_run_fc c s ((pre ++ ff_hdr (zlen p) ++ first) :: cfs) mk in
  evs = [] /\ rx_queue s' = rx_queue s ++ [p] /\ rx_state s' = RxIdle /\
  fcs = Some fcref :: map (fun i => if fc_due c i (zlen cfs) then Some fcref else None) (zseq 1 (zlen cfs)).
Proof. exact rx_stream_fc. Qed.

Print Assumptions C03_reassembly.
Print Assumptions C03_flow_control_frame.
Print Assumptions C03_flow_control_positions.
