(** C17 - Generator payloads are streamed lazily and size mismatches are caught. *)
From IsoTp Require Import Base.Prelude Model.Layer Spec.ConfigSpec Spec.Segment Proofs.Inv Proofs.LocalP Proofs.TxP Proofs.Events Proofs.LazyP Model.Micro Proofs.LazyRunP.

(** One consume() pulls at most the requested number of values; a transmit pass calls it at most
    once, for at most one frame worth of payload (tx_data_length bytes). *)
Theorem C17_pull_bound : forall size exact r res r',
  consume size exact r = (res, r') -> r_consumed r <= r_consumed r' <= r_consumed r + Z.max 0 size.
Proof. exact consume_pull_bound. Qed.

(** Building the First Frame pulls exactly its payload bytes, the j-th Consecutive Frame exactly
    its chunk: the generator is always advanced by precisely the bytes put into frames, and
    values beyond the declared size are never pulled (C02_first_frame / C02_consecutive_frame
    state the generator position after each frame). *)
Theorem C17_first_frame_pulls : forall c, params_ok (c_p c) -> forall s rid payload extra t allowed,
  1 <= zlen payload < 2 ^ 32 -> is_single c (zlen payload) = false -> (zlen (c_tx_prefix c ++ ff_header (zlen payload) ++ ztake (ff_cap c (zlen payload)) payload) <=? allowed) = true ->
  exists s' ff, start_request c (s <| active := Some (fresh_req rid payload extra t) |>) (fresh_req rid payload extra t) allowed = SRDone s' [] (Some ff) /\
    active s' = Some (adv_req rid payload extra t (ff_cap c (zlen payload))).
Proof.
  intros c Hok s rid payload extra t allowed Hn Hm Ha.
  destruct (start_first c Hok s rid payload extra t allowed Hn Hm) as (_ & _ & H1 & _).
  destruct (H1 Ha) as (s' & E & _ & Hact & _). eauto.
Qed.

(** A generator that ends early while a Single / First Frame is built: BadGeneratorError, the
    request is failed, nothing is emitted. *)
Theorem C17_short_at_start : forall c s r allowed s' evs out,
  start_request c s r allowed = SRDone s' evs out ->
  fst (consume (r_size r) true r) = None ->
  r_size r <= p_tx_dl (c_p c) - (if sf_on_first_byte c (r_remaining r) then 1 else 2) - zlen (c_tx_prefix c) ->
  out = None /\ exists e, evs = EErr BadGenerator :: e /\ forallb done_only e = true.
Proof. intros c s r allowed s' evs out H. exact (start_request_short_generator c s r allowed (or_intror I) s' evs out H). Qed.

(** Laziness, pass level: while the sender has to wait - the separation time has not elapsed, or the
    rate limiter does not allow the next frame - a pass pulls nothing from the generator and leaves the
    state exactly as it was; *)
Theorem C17_waiting_pass_pulls_nothing : forall c a s evs rbs r,
  remote_bs s = Some rbs -> active s = Some r ->
  timer_timed_out (now s) (timer_tx_stmin s) = false \/
  a < Z.min (p_tx_dl (c_p c) - 1 - zlen (c_tx_prefix c)) (r_remaining r) ->
  tx_cf c a s evs = mk_tr s evs None false.
Proof. exact cf_waits_no_pull. Qed.

(** ... and a pass that emits a Consecutive Frame pulled exactly the bytes that frame carries (at most
    one frame worth), once. *)
Theorem C17_cf_pulls_what_it_sends : forall c a s evs rbs r m,
  remote_bs s = Some rbs -> active s = Some r -> tr_msg (tx_cf c a s evs) = Some m ->
  exists payload r',
    consume (Z.min (p_tx_dl (c_p c) - 1 - zlen (c_tx_prefix c)) (r_remaining r)) false r = (Some payload, r') /\
    r_consumed r' = r_consumed r + zlen payload /\ 1 <= zlen payload <= p_tx_dl (c_p c) - 1 - zlen (c_tx_prefix c) /\
    make_tx_msg c (c_tx_id c Physical) (c_tx_prefix c ++ [Z.lor 0x20 (tx_seqnum s)] ++ payload) = Some m.
Proof. exact cf_pulls_what_it_sends. Qed.

(** Laziness, run level: along EVERY run of micro-steps from the initial state (any interleaving of
    send(), transmit passes, received frames, timeouts, ticks, stop/reset calls), the values pulled
    so far from the generator of the message in transmission are exactly the payload bytes of that
    message already on the wire - counted by decoding the emitted frames themselves ([wire]) - plus
    the payload of the one frame the rate limiter is holding back, if any, which is at most one
    Consecutive Frame's worth; nothing has been pulled from the generators of queued messages. *)
Theorem C17_lazy_run : forall c, params_ok (c_p c) -> forall t0 ms,
  let s := fst (mrun c (init_layer c t0) ms) in
  let G := wire c 0 (snd (mrun c (init_layer c t0) ms)) in
  pulled s = on_wire s G + held c s /\ 0 <= held c s <= p_tx_dl (c_p c) - 1 - zlen (c_tx_prefix c) /\
  Forall (fun r => r_consumed r = 0) (tx_queue s).
Proof. exact lazy_run. Qed.

(** ... as an inductive invariant, from any well-formed state: one step keeps "pulled = on the wire
    (+ held back)" with the wire count advanced by the frame the step emitted. *)
Theorem C17_lazy_step : forall c, params_ok (c_p c) -> forall s G m,
  WF c s -> L c s G -> L c (fst (mstep c s m)) (gstep c s G m).
Proof. exact L_step. Qed.

Print Assumptions C17_pull_bound.
Print Assumptions C17_lazy_run.
Print Assumptions C17_lazy_step.
Print Assumptions C17_first_frame_pulls.
Print Assumptions C17_short_at_start.
Print Assumptions C17_waiting_pass_pulls_nothing.
Print Assumptions C17_cf_pulls_what_it_sends.
