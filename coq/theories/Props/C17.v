(** C17 - Generator payloads are streamed lazily and size mismatches are caught. *)
From IsoTp Require Import Base.Prelude Model.Layer Spec.ConfigSpec Spec.Segment Proofs.Inv Proofs.LocalP Proofs.TxP Proofs.Events.

(** One consume() pulls at most the requested number of values; a transmit pass calls it at most
    once, for at most one frame worth of payload (tx_data_length bytes). *)
Theorem C17_pull_bound : forall size exact r res r',
  consume size exact r = (res, r') -> r_consumed r <= r_consumed r' <= r_consumed r + Z.max 0 size.
Proof. exact consume_pull_bound. Qed.

(** Building the First Frame pulls exactly its payload bytes, the j-th Consecutive Frame exactly
    its chunk: the generator is always advanced by precisely the bytes put into frames, and
    values beyond the declared size are never pulled (C02_first_frame / C02_consecutive_frame
    state the generator position after each frame). *)
Theorem C17_first_frame_pulls : forall c, params_ok (c_p c) -> forall s rid payload extra t allowed,
  1 <= zlen payload < 2 ^ 32 -> is_single c (zlen payload) = false -> (zlen (c_tx_prefix c ++ ff_header (zlen payload) ++ ztake (ff_cap c (zlen payload)) payload) <=? allowed) = true ->
  exists s' ff, start_request c (s <| active := Some (fresh_req rid payload extra t) |>) (fresh_req rid payload extra t) allowed = SRDone s' [] (Some ff) /\
    active s' = Some (adv_req rid payload extra t (ff_cap c (zlen payload))).
Proof.
  intros c Hok s rid payload extra t allowed Hn Hm Ha.
  destruct (start_first c Hok s rid payload extra t allowed Hn Hm) as (_ & _ & H1 & _).
  destruct (H1 Ha) as (s' & E & _ & Hact & _). eauto.
Qed.

(** A generator that ends early while a Single / First Frame is built: BadGeneratorError, the
    request is failed, nothing is emitted. *)
Theorem C17_short_at_start : forall c s r allowed s' evs out,
  start_request c s r allowed = SRDone s' evs out ->
  fst (consume (r_size r) true r) = None ->
  r_size r <= p_tx_dl (c_p c) - (if sf_on_first_byte c (r_remaining r) then 1 else 2) - zlen (c_tx_prefix c) ->
  out = None /\ exists e, evs = EErr BadGenerator :: e /\ forallb done_only e = true.
Proof. intros c s r allowed s' evs out H. exact (start_request_short_generator c s r allowed (or_intror I) s' evs out H). Qed.

Print Assumptions C17_pull_bound.
Print Assumptions C17_first_frame_pulls.
Print Assumptions C17_short_at_start.
