(** C20 - Socket bind maps every address to the kernel addressing the Python layer uses. *)
From IsoTp Require Import Base.Prelude Model.Sock Proofs.SockP.

(** identifiers: EFF flag exactly for 29-bit ids; the kernel emits the identifier the Python
    layer emits for physical addressing and accepts a frame iff id type, identifier and (when
    the options say so) first byte match *)
Theorem C20_ids : forall txa rxa,
  id_in_range (a_mode txa) (tx_arb_id txa Physical) -> id_in_range (a_mode rxa) (rx_arb_id rxa Physical) ->
  let rxid' := if is29 (a_mode rxa) then Z.lor (Z.land (rx_arb_id rxa Physical) CAN_EFF_MASK) CAN_EFF_FLAG
               else Z.land (rx_arb_id rxa Physical) CAN_SFF_MASK in
  let txid' := if is29 (a_mode txa) then Z.lor (Z.land (tx_arb_id txa Physical) CAN_EFF_MASK) CAN_EFF_FLAG
               else Z.land (tx_arb_id txa Physical) CAN_SFF_MASK in
  forall k, kernel_tx_id (kapply k (Bind rxid' txid')) = Some (tx_arb_id txa Physical, is29 (a_mode txa)) /\
    forall id ext data,
      kernel_accepts (kapply k (Bind rxid' txid')) id ext data =
      Bool.eqb ext (is29 (a_mode rxa)) && (id =? rx_arb_id rxa Physical) &&
      match kernel_rx_byte k with None => true | Some b => match data with x :: _ => x =? b | [] => false end end.
Proof. exact bind_ids. Qed.

(** address with a prefix byte: EXTEND_ADDR / RX_EXT_ADDR with the tx / rx extension bytes, every
    other option and every flag configured earlier preserved *)
Theorem C20_ext : forall w txa rxa tb rb asym,
  kstate_ok (w_k w) -> w_bound w = false ->
  requires_ext_byte txa = true -> requires_ext_byte rxa = true ->
  tx_ext_byte txa = Some tb -> rx_ext_byte rxa = Some rb -> 0 <= tb <= 255 -> 0 <= rb <= 255 ->
  exists w' calls, w_bind w txa rxa asym = (w', ROk calls) /\ w_bound w' = true /\
    kernel_tx_prefix (w_k w') = [tb] /\ kernel_rx_byte (w_k w') = Some rb /\
    k_txtime (w_k w') = k_txtime (w_k w) /\ k_txpad (w_k w') = k_txpad (w_k w) /\ k_rxpad (w_k w') = k_rxpad (w_k w) /\
    k_txstmin (w_k w') = k_txstmin (w_k w) /\ k_bs (w_k w') = k_bs (w_k w) /\ k_mtu (w_k w') = k_mtu (w_k w) /\
    (forall f, has_flag (k_flags (w_k w)) f = true -> has_flag (k_flags (w_k w')) f = true).
Proof. exact bind_ext_opts. Qed.

(** address without prefix byte: no prefix emitted or expected, whatever was configured before *)
Theorem C20_plain : forall w txa rxa asym,
  kstate_ok (w_k w) -> w_bound w = false ->
  requires_ext_byte txa = false -> requires_ext_byte rxa = false ->
  exists w' calls, w_bind w txa rxa asym = (w', ROk calls) /\ w_bound w' = true /\
    kernel_tx_prefix (w_k w') = [] /\ kernel_rx_byte (w_k w') = None /\
    k_txtime (w_k w') = k_txtime (w_k w) /\ k_txpad (w_k w') = k_txpad (w_k w) /\ k_rxpad (w_k w') = k_rxpad (w_k w) /\
    k_txstmin (w_k w') = k_txstmin (w_k w) /\ k_bs (w_k w') = k_bs (w_k w) /\ k_mtu (w_k w') = k_mtu (w_k w).
Proof. exact bind_plain_opts. Qed.

(** asymmetric addresses the kernel cannot express are refused, nothing is bound *)
Theorem C20_refuse : forall w txa rxa,
  requires_ext_byte rxa <> requires_ext_byte txa -> w_bind w txa rxa true = (w, RValueError).
Proof. exact bind_refuses_inconsistent. Qed.

(** options cannot be changed after bind(); send()/recv() are refused before bind() and after close() *)
Theorem C20_set_after_bind : forall w a1 a2 a3 a4 a5 a6 a7, w_bound w = true ->
  w_set_opts w a1 a2 a3 a4 a5 a6 a7 = (w, RRuntimeError) /\
  w_set_fc_opts w a1 a2 a3 = (w, RRuntimeError) /\ w_set_ll_opts w a1 a2 a3 = (w, RRuntimeError).
Proof. exact set_after_bind_refused. Qed.
Theorem C20_io_guard : forall w,
  (w_send w = RRuntimeError <-> w_bound w = false) /\ (w_recv w = RRuntimeError <-> w_bound w = false).
Proof. exact io_guard. Qed.
Theorem C20_closed : forall w, w_send (w_close w) = RRuntimeError /\ w_recv (w_close w) = RRuntimeError.
Proof. exact closed_refuses_io. Qed.

Print Assumptions C20_ids.
Print Assumptions C20_ext.
Print Assumptions C20_plain.
Print Assumptions C20_refuse.
Print Assumptions C20_set_after_bind.
Print Assumptions C20_io_guard.
Print Assumptions C20_closed.
