(** C04 - Sender obeys flow control from any peer and always terminates (structural part). *)
From IsoTp Require Import Base.Prelude Model.Micro Spec.ConfigSpec Proofs.Inv Proofs.FsmProps Proofs.PacingP Proofs.BlockP Proofs.ProgressP Proofs.TokTxP Proofs.MailboxP.

(** No wedge: in every reachable state an active transmitter is waiting with a running N_Bs
    deadline, or pacing Consecutive Frames with a running STmin timer and a known block size,
    or holds a frame in rate-limiter standby. *)
Theorem C04_nowedge : forall c s, reachable c s -> tx_state s <> TxIdle ->
  (tx_state s = TxWaitFC /\ timer_running (timer_rx_fc s) = true /\
     t_timeout (timer_rx_fc s) = p_tbs_ns (c_p c)) \/
  (tx_state s = TxTransmitCF /\ timer_running (timer_tx_stmin s) = true /\ remote_bs s <> None) \/
  ((tx_state s = TxSFStandby \/ tx_state s = TxFFStandby) /\ tx_standby s <> None).
Proof. exact nowedge. Qed.

(** Overflow abandons the message: OverflowError, request failed, nothing emitted, idle. *)
Theorem C04_overflow : forall c s fc a, last_fc s = Some fc -> fc_status fc = FS_OVFLW ->
  let r := process_tx_main c a s in
  tr_msg r = None /\ tx_state (tr_s r) = TxIdle /\ active (tr_s r) = None /\
  tr_evs r = (match active s with Some q => [EDone (r_id q) false] | None => [] end) ++ [EErr OverflowErr].
Proof. exact overflow_aborts. Qed.

(** wftmax = 0: a Wait frame is reported as unsupported and changes nothing else. *)
Theorem C04_wait0 : forall c s fc, p_wftmax (c_p c) = 0 -> fc_status fc = FS_WAIT ->
  handle_fc_active c s fc = (s, [EErr UnsupportedWaitFrame]).
Proof. exact wait_unsupported. Qed.

(** More Wait frames than a non-zero wftmax allows abandon the message. *)
Theorem C04_wait_max : forall c s fc, p_wftmax (c_p c) <> 0 -> fc_status fc = FS_WAIT ->
  timer_timed_out (now s) (timer_rx_fc s) = false -> p_wftmax (c_p c) <= wft_counter s ->
  handle_fc_active c s fc =
    (fst (stop_sending false s), EErr MaximumWaitFrameReached :: snd (stop_sending false s)).
Proof. exact wait_max_reached. Qed.

Theorem C04_wait_ok : forall c s fc, p_wftmax (c_p c) <> 0 -> fc_status fc = FS_WAIT ->
  timer_timed_out (now s) (timer_rx_fc s) = false -> wft_counter s < p_wftmax (c_p c) ->
  let s' := fst (handle_fc_active c s fc) in
  snd (handle_fc_active c s fc) = [] /\ tx_state s' = TxWaitFC /\
  wft_counter s' = wft_counter s + 1 /\ t_start (timer_rx_fc s') = Some (now s).
Proof. exact wait_accepted. Qed.

(** A ContinueToSend handled while the sender waits and before the deadline is obeyed: no error, the sender leaves the wait with the
    granted block size and a fresh block count; request, queue, sequence number untouched. *)
Theorem C04_cts_obeyed : forall c s fc, tx_state s = TxWaitFC -> fc_status fc = FS_CTS ->
  timer_timed_out (now s) (timer_rx_fc s) = false ->
  exists s2, handle_fc_active c s fc = (s2, []) /\ tx_state s2 = TxTransmitCF /\ remote_bs s2 = Some (fc_bs fc) /\
    tx_block_counter s2 = 0 /\ active s2 = active s /\ tx_queue s2 = tx_queue s /\ tx_standby s2 = tx_standby s /\
    tx_seqnum s2 = tx_seqnum s /\ last_fc s2 = last_fc s /\ timer_timed_out (now s2) (timer_rx_fc s2) = false.
Proof. exact handle_cts. Qed.

(** Full duplex hand-over: a transmit pass that first owes the peer a Flow Control of its own emits exactly that frame and returns;
    the received Flow Control waiting in the mailbox, and everything else the sender holds (state, request, queue, counters, timers),
    is left for the pass that follows. *)
Theorem C04_own_flow_control_first : forall c s0,
  pending_fc s0 = true -> p_listen (c_p c) = false -> tr_crash (process_tx c s0) = false ->
  sender_part (tr_s (process_tx c s0)) = sender_part s0 /\
  pending_fc (tr_s (process_tx c s0)) = false /\
  tr_evs (process_tx c s0) = [] /\
  exists st m, pending_fc_status s0 = Some st /\ make_flow_control c st = Some m /\ tr_msg (process_tx c s0) = Some m.
Proof. exact pending_pass_keeps_sender. Qed.

(** The Wait budget belongs to the message: whenever no First Frame is awaiting its Flow Control and no block is being transmitted
    (idle, or the first frame held by the rate limiter) the count of accepted Wait frames is zero, so the abort of C04_wait_max needs
    more than wftmax Wait frames accepted since the First Frame of the very message that is abandoned. *)
Theorem C04_wait_count_per_message : forall c s, reachable c s ->
  tx_state s <> TxWaitFC -> tx_state s <> TxTransmitCF -> wft_counter s = 0.
Proof. exact wait_count_per_message. Qed.

(** The Consecutive Frame that completes the granted block puts the sender back to waiting. *)
Theorem C04_block : forall c a s evs rbs,
  tx_state s = TxTransmitCF -> remote_bs s = Some rbs -> rbs <> 0 ->
  rbs <= tx_block_counter s + 1 ->
  forall m, tr_msg (tx_cf c a s evs) = Some m ->
  tx_state (tr_s (tx_cf c a s evs)) <> TxTransmitCF.
Proof. exact cf_respects_blocksize. Qed.

(** Run level.  [cts_accepted c s]: the flow-control part of the transmit pass taken in [s] accepts a
    ContinueToSend; [cf_emitted c s = Some s3]: the pass emits a Consecutive Frame (built from [s3]);
    ghost [g] = Consecutive Frames emitted since the most recently accepted ContinueToSend.
    [within_grant c s g]: the frame this pass emits (if any) is within that grant - fewer than
    max(1, blocksize) frames since the ContinueToSend, or block size 0 (no limit).  It holds for EVERY
    pass of EVERY run of micro-steps from the initial state: whatever the peer sends (duplicate, early,
    late ContinueToSend, Wait, Overflow, garbage) and whatever the schedule, the sender never emits
    more Consecutive Frames than the last accepted ContinueToSend granted. *)
Theorem C04_block_pass : forall c s g, B g s -> within_grant c s g /\ B (gpass c s g) (tr_s (process_tx c s)).
Proof. exact tx_pass_block. Qed.

Theorem C04_block_run : forall c t0 ms, BlockP.granted c (init_layer c t0) 0 ms.
Proof. exact granted_from_init. Qed.

(** Termination.  C04_nowedge: a transmitter that is not idle always has a deadline or pacing timer
    running (or a frame in standby).  When the flow-control deadline passes, the next pass aborts the
    request (C07_tx_fires).  When the separation time has passed and the rate limiter allows the next
    frame, the pass emits a frame or ends the request - it never stays put ... *)
Theorem C04_cf_progress : forall c a s evs rbs r,
  remote_bs s = Some rbs -> active s = Some r -> 0 <= r_remaining r -> 0 < p_tx_dl (c_p c) - 1 - zlen (c_tx_prefix c) ->
  timer_timed_out (now s) (timer_tx_stmin s) = true ->
  Z.min (p_tx_dl (c_p c) - 1 - zlen (c_tx_prefix c)) (r_remaining r) <= a ->
  tr_crash (tx_cf c a s evs) = false ->
  tr_msg (tx_cf c a s evs) <> None \/ tx_state (tr_s (tx_cf c a s evs)) = TxIdle.
Proof. exact cf_progress. Qed.

(** ... and every Consecutive Frame strictly decreases the bytes still to send (the ranking function):
    a request of [size] bytes is finished or aborted after at most [size] emitting passes. *)
Theorem C04_cf_decreases : forall c a s evs rbs r m,
  remote_bs s = Some rbs -> active s = Some r -> tr_msg (tx_cf c a s evs) = Some m ->
  match active (tr_s (tx_cf c a s evs)) with
  | Some r' => r_id r' = r_id r /\ r_remaining r' < r_remaining r
  | None => True
  end.
Proof. exact cf_decreases. Qed.

Print Assumptions C04_nowedge.
Print Assumptions C04_overflow.
Print Assumptions C04_wait0.
Print Assumptions C04_wait_max.
Print Assumptions C04_wait_ok.
Print Assumptions C04_wait_count_per_message.
Print Assumptions C04_cts_obeyed.
Print Assumptions C04_own_flow_control_first.
Print Assumptions C04_block.
Print Assumptions C04_block_pass.
Print Assumptions C04_block_run.
Print Assumptions C04_cf_progress.
Print Assumptions C04_cf_decreases.
