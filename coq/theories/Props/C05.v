(** C05 - Receiver is safe on arbitrary bus traffic (crash freedom and error funnel). *)
From IsoTp Require Import Base.Prelude Model.Micro Spec.ConfigSpec Proofs.Inv Proofs.Events Proofs.NoCrash Proofs.FsmProps Proofs.JustifiedP.

(** process() never raises: for every reachable state, every inbox content (any identifiers,
    lengths, bytes), every flag combination and fuel, the outcome is not a crash. *)
Theorem C05_never_raises : forall c fuel do_rx do_tx w,
  params_ok (c_p c) -> reachable c (w_l w) -> snd (process fuel c do_rx do_tx w) <> LCrash.
Proof. exact process_never_raises. Qed.

(** The reception state machine reports problems only as reception error classes; it never
    emits a frame and never touches a send request. *)
Theorem C05_rx_errors_only : forall c s f, forallb rx_ev_ok (rr_evs (process_rx c s f)) = true.
Proof. exact process_rx_evs. Qed.

(** The structural invariant holds whatever is received. *)
Theorem C05_invariant : forall c ms s, WF c s -> WF c (fst (mrun c s ms)).
Proof. intros c ms s. exact (WF_mrun c ms s). Qed.

(** Justification of deliveries.  [justified c fs p] (Proofs/JustifiedP.v): [p] is the data of the single
    Single Frame [fs], or [fs] = a First Frame followed by Consecutive Frames with sequence numbers
    1, 2, ... (mod 16) and [p] = First Frame data ++ their data, the last one cut at the announced
    length, at least as long as announced.  [Ginv] ties the ghost list [G] (frames behind the
    reception in progress) to the receiver state.  One frame through _process_rx keeps the tie and
    appends at most one payload, which is justified by [gsource c G f]: *)
Theorem C05_justified_step : forall c s G f, Ginv c s G ->
  let s' := rr_s (process_rx c s f) in
  Ginv c s' (gnext c s G f) /\
  (rx_queue s' = rx_queue s \/
   exists p, rx_queue s' = rx_queue s ++ [p] /\ justified c (gsource c G f) p).
Proof. exact jstep. Qed.

(** ... hence along EVERY run of micro-steps from the initial state (any frames - garbage, foreign,
    truncated, duplicated, reordered -, any schedule, any timeouts) every delivery is justified. *)
Theorem C05_justified_run : forall c t0 ms,
  Forall (fun d => justified c (fst d) (snd d)) (jrun c (init_layer c t0) [] ms).
Proof. exact justified_from_init. Qed.

Print Assumptions C05_never_raises.
Print Assumptions C05_rx_errors_only.
Print Assumptions C05_invariant.
Print Assumptions C05_justified_step.
Print Assumptions C05_justified_run.
