(** C05 - Receiver is safe on arbitrary bus traffic (crash freedom and error funnel). *)
From IsoTp Require Import Base.Prelude Model.Micro Spec.ConfigSpec Proofs.Inv Proofs.Events Proofs.NoCrash Proofs.FsmProps.

(** process() never raises: for every reachable state, every inbox content (any identifiers,
    lengths, bytes), every flag combination and fuel, the outcome is not a crash. *)
Theorem C05_never_raises : forall c fuel do_rx do_tx w,
  params_ok (c_p c) -> reachable c (w_l w) -> snd (process fuel c do_rx do_tx w) <> LCrash.
Proof. exact process_never_raises. Qed.

(** The reception state machine reports problems only as reception error classes; it never
    emits a frame and never touches a send request. *)
Theorem C05_rx_errors_only : forall c s f, forallb rx_ev_ok (rr_evs (process_rx c s f)) = true.
Proof. exact process_rx_evs. Qed.

(** The structural invariant holds whatever is received. *)
Theorem C05_invariant : forall c ms s, WF c s -> WF c (fst (mrun c s ms)).
Proof. intros c ms s. exact (WF_mrun c ms s). Qed.

Print Assumptions C05_never_raises.
Print Assumptions C05_rx_errors_only.
Print Assumptions C05_invariant.
