(** C16 - Configuration is validated up front; accepted configurations never crash. *)
From Coq Require Import QArith.
From IsoTp Require Import Base.Prelude Model.Micro Model.Params Model.Address Spec.ConfigSpec Spec.AddrSpec
  Proofs.ParamsP Proofs.AddressP Proofs.Inv Proofs.NoCrash Proofs.FsmProps Proofs.IgnoreP.
Open Scope Z_scope.

(** The params dictionary is accepted iff every key has its documented type and range, the
    minimum length does not exceed the link-layer size and the rate limit can carry one frame
    per window (arguments range over None / int / bool / finite float / non-finite float / str /
    other objects). *)
Theorem C16_params_iff : forall p, validate p = true <-> params_doc_ok p.
Proof. exact validate_iff. Qed.

(** Address(...) is accepted iff the documented table of required parameters and the value
    ranges are met (integer or None arguments; full, tx_only, rx_only). *)
Theorem C16_address_iff : forall a, addr_validate a = true <-> address_ok a.
Proof. exact addr_validate_iff. Qed.

(** Every accepted params dictionary yields model parameters satisfying [params_ok] ... *)
Theorem C16_accepted_ok : forall p tbs tcr ov bn bd wns,
  validate p = true -> 0 <= tbs -> 0 <= tcr -> (forall o, ov = Some o -> 0 <= o) ->
  0 < bd -> 8 * int_val (q_tx_dl p) * bd <= bn -> 0 <= wns ->
  params_ok (to_params p tbs tcr ov bn bd wns).
Proof. exact accepted_params_ok. Qed.

(** ... and under [params_ok], from every reachable state, with any inbox content and any
    flags, process() never raises: no modelled Python exception site is reachable. *)
Theorem C16_nocrash : forall c fuel do_rx do_tx w,
  params_ok (c_p c) -> reachable c (w_l w) -> snd (process fuel c do_rx do_tx w) <> LCrash.
Proof. exact process_never_raises. Qed.

(** send() raises at most the documented ValueError and then queues nothing. *)
Theorem C16_send_total : forall c s g size t,
  snd (send c s g size t) = SendOk \/ (snd (send c s g size t) = SendValueError /\ fst (send c s g size t) = s).
Proof.
  intros. destruct (snd (send c s g size t)) eqn:E; [left; reflexivity|right; split; [reflexivity|]].
  apply send_refused_unchanged. exact E.
Qed.

Print Assumptions C16_params_iff.
Print Assumptions C16_address_iff.
Print Assumptions C16_accepted_ok.
Print Assumptions C16_nocrash.
Print Assumptions C16_send_total.
