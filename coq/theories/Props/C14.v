(** C14 - start/stop lifecycle is clean, bounded and restartable (bookkeeping part).

    Proved on Model/Threaded.v for every operation sequence and every state: which calls raise
    (exactly the documented RuntimeError cases), that worker/relay threads exist exactly while
    started, what stop() leaves behind in ANY state, that a stopped layer restarts into the
    protocol state of a fresh one.  "Returns within bounded time" and "no thread alive" are
    facts of the Python runtime: they are measured on real threads by harness/props/C14.py on
    every run and are not theorems. *)
From IsoTp Require Import Base.Prelude Model.Layer Model.Threaded Proofs.ThreadedP.

Theorem C14_exceptions : forall fuel c s o,
  snd (fst (lstep fuel c s o)) = LRuntimeError <->
  (t_started s = true /\ (o = LStart \/ o = LProcess \/ o = LReset)).
Proof. exact lstep_runtime_error. Qed.

Theorem C14_threads : forall fuel c ops s, threads_ok s -> threads_ok (fst (lrun fuel c s ops)).
Proof. exact threads_ok_run. Qed.

Theorem C14_stop_clean : forall fuel c s,
  let '(s', out, evs) := lstep fuel c s LStop in
  let l := w_l (t_w s) in let l' := w_l (t_w s') in
  out = LOk /\ t_started s' = false /\ t_threads s' = 0%nat /\
  tx_state l' = TxIdle /\ rx_state l' = RxIdle /\ tx_queue l' = [] /\ rx_queue l' = [] /\ active l' = None /\
  w_inbox (t_w s') = [] /\
  transmitting l' = false /\ available l' = false /\ is_rx_active l' = false /\
  evs = map (fun r => EDone (r_id r) false) (tx_queue l) ++
        match active l with Some r => [EDone (r_id r) false] | None => [] end.
Proof. exact stop_clean. Qed.

Theorem C14_stop_never_started : forall fuel c t0,
  let '(s', out, evs) := lstep fuel c (tl_init c t0) LStop in
  out = LOk /\ evs = [] /\ t_started s' = false /\ t_threads s' = 0%nat.
Proof. exact stop_never_started. Qed.

Theorem C14_restart : forall fuel c s,
  let s1 := fst (fst (lstep fuel c s LStop)) in
  let '(s2, out, evs) := lstep fuel c s1 LStart in
  let l := w_l (t_w s2) in
  out = LOk /\ evs = [] /\ t_started s2 = true /\ t_threads s2 = 2%nat /\
  tx_state l = TxIdle /\ rx_state l = RxIdle /\ tx_queue l = [] /\ rx_queue l = [] /\ active l = None /\
  pending_fc l = false /\ last_fc l = None /\ tx_standby l = None /\
  timer_running (timer_rx_cf l) = false /\ timer_running (timer_rx_fc l) = false /\ w_inbox (t_w s2) = [].
Proof. exact restart_idle. Qed.

Print Assumptions C14_exceptions.
Print Assumptions C14_threads.
Print Assumptions C14_stop_clean.
Print Assumptions C14_stop_never_started.
Print Assumptions C14_restart.
