(** C12 - Every send request terminates exactly once with the right outcome (logic level). *)
From IsoTp Require Import Base.Prelude Model.Micro Spec.ConfigSpec Spec.Segment Proofs.Inv Proofs.FsmProps Proofs.LocalP Proofs.TxP Proofs.OnceP.

(** The transmitter is idle exactly when it holds no request: a finished or dropped request is
    never kept (so it cannot be completed a second time). *)
Theorem C12_idle_iff : forall c s, reachable c s -> (tx_state s = TxIdle <-> active s = None).
Proof. exact idle_iff_no_request. Qed.

(** stop_sending() / a protocol abort completes the active request once, with the given outcome,
    and forgets it; the queue is untouched. *)
Theorem C12_abort : forall b s,
  snd (stop_sending b s) = match active s with Some r => [EDone (r_id r) b] | None => [] end /\
  active (fst (stop_sending b s)) = None /\ tx_state (fst (stop_sending b s)) = TxIdle /\
  tx_queue (fst (stop_sending b s)) = tx_queue s.
Proof. exact stop_sending_completes. Qed.

(** reset() (and stop(), which calls it) completes with failure every queued request and the
    active one, and leaves nothing behind. *)
Theorem C12_reset : forall c s,
  snd (reset c s) = map (fun r => EDone (r_id r) false) (tx_queue s) ++
                    match active s with Some r => [EDone (r_id r) false] | None => [] end /\
  tx_queue (fst (reset c s)) = [] /\ active (fst (reset c s)) = None /\
  tx_state (fst (reset c s)) = TxIdle /\ rx_state (fst (reset c s)) = RxIdle /\ rx_queue (fst (reset c s)) = [].
Proof. exact reset_completes_all. Qed.

(** An empty payload is completed with success when dequeued and is forgotten. *)
Theorem C12_empty : forall c r rest s evs allowed, r_is_depleted r = true ->
  idle_dequeue c (r :: rest) s evs allowed =
  idle_dequeue c rest (s <| active := None |>) (evs ++ [EDone (r_id r) true]) allowed.
Proof. exact empty_request_completed. Qed.

(** Success of a multi-frame request is signalled in the very transmit pass that produces its
    last Consecutive Frame (never before), see C02_consecutive_frame; of a single-frame request
    in the pass that produces its frame, see C02_single. Only transmission errors and request
    completions are ever reported by a transmit pass: *)
Theorem C12_tx_events : forall c s, tr_crash (process_tx c s) = false ->
  forallb Events.tx_ev_ok (tr_evs (process_tx c s)) = true.
Proof. exact Events.process_tx_evs. Qed.

(** Run level: along ANY run of micro-steps from the initial state - every schedule of process()
    passes, user calls (send, stop_sending, reset, ...), received frames and clock ticks - the
    identifiers of the completions reported ([dones evs]) contain no duplicate: no request is
    completed twice; every completion concerns a request send() accepted earlier; and a request
    the layer still holds (queued or active, [live s]) has not been completed yet. *)
Theorem C12_exactly_once : forall c t0 ms,
  let '(s, evs) := mrun c (init_layer c t0) ms in
  NoDup (dones evs) /\ (forall x, In x (dones evs) -> x < next_req_id s) /\
  (forall x, In x (live s) -> ~ In x (dones evs)).
Proof. exact exactly_once. Qed.

Print Assumptions C12_idle_iff.
Print Assumptions C12_abort.
Print Assumptions C12_reset.
Print Assumptions C12_empty.
Print Assumptions C12_tx_events.
Print Assumptions C12_exactly_once.
