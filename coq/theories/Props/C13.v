(** C13 - Threaded layer: concurrent senders get exactly-once, per-thread-ordered delivery.

    Proved: for EVERY schedule of the user threads' send() calls, the transmit queue holds each
    thread's payloads in that thread's order, none twice, none invented (C13_per_thread,
    C13_complete, C13_queue_grows); send() appends at the end and the worker starts the head:
    FIFO (C13_send_appends, C13_dequeue_head); frames that are not for this layer - unrelated
    identifiers; error and remote frames never reach it - are no-ops of the reception loop
    (C13_noise_ignored).  Delivery of the queue's content to the peer, in queue order, each once,
    is C01/C02.  Assumed, not proved: queue.Queue is a linearizable FIFO; protocol state is
    touched by the worker thread only; Python/OS scheduling.  Those are sampled by
    harness/props/C13.py on real threads with perturbed schedules. *)
From IsoTp Require Import Base.Prelude Model.Layer Model.Threaded Proofs.ThreadedP Proofs.IgnoreP.

Theorem C13_per_thread : forall (A : Type) (sched : list nat) (pend : list (list A)) q i,
  let '(q', pend') := run_sched sched pend q in
  of_thread i q' ++ nth i pend' [] = of_thread i q ++ nth i pend [].
Proof. exact @run_sched_thread. Qed.

Theorem C13_complete : forall (A : Type) sched (pend : list (list A)) i,
  let '(q', pend') := run_sched sched pend [] in
  nth i pend' [] = [] -> of_thread i q' = nth i pend [].
Proof. exact @run_sched_complete. Qed.

Theorem C13_queue_grows : forall (A : Type) sched (pend : list (list A)) q,
  exists more, fst (run_sched sched pend q) = q ++ more.
Proof. exact @run_sched_extends. Qed.

Theorem C13_send_appends : forall c s g size t,
  snd (send c s g size t) = SendOk ->
  exists r, tx_queue (fst (send c s g size t)) = tx_queue s ++ [r] /\ r_gen r = g /\ r_size r = size /\
            r_consumed r = 0 /\ r_id r = next_req_id s.
Proof. exact send_appends. Qed.

Theorem C13_dequeue_head : forall c r rest s evs allowed,
  r_is_depleted r = false ->
  idle_dequeue c (r :: rest) s evs allowed =
  match start_request c (s <| tx_queue := rest |> <| active := Some r |>) r allowed with
  | SRCrash site => SRCrash site
  | SRDone s' evs' out => SRDone s' (evs ++ evs') out
  end.
Proof. exact dequeue_head. Qed.

Theorem C13_noise_ignored : forall c f rest s evs st,
  c_is_for_me c f = false ->
  rx_loop c (f :: rest) s evs st = map_st bump (rx_loop c rest s evs st).
Proof. exact rx_loop_ignore. Qed.

Print Assumptions C13_per_thread.
Print Assumptions C13_complete.
Print Assumptions C13_queue_grows.
Print Assumptions C13_send_appends.
Print Assumptions C13_dequeue_head.
Print Assumptions C13_noise_ignored.
