(** C02 - Emitted frames are exactly the ISO-15765-2 segmentation of the payload. *)
From IsoTp Require Import Base.Prelude Model.Layer Spec.ConfigSpec Spec.FrameSpec Spec.Segment
  Proofs.FramesP Proofs.TxP Proofs.IgnoreP Proofs.CoopP.

(** Every frame the layer builds (data frames and Flow Control alike) is the reference frame:
    the data followed by the configured padding byte up to the reference target length, the
    matching DLC, the identifier, 29-bit / FD / BRS flags of the configuration; the length is a
    legal CAN / CAN FD length not above tx_data_length. *)
Theorem C02_wellformed : forall c id d,
  params_ok (c_p c) -> 2 <= zlen d <= p_tx_dl (c_p c) -> (p_tx_dl (c_p c) = 8 -> zlen d <= 8) ->
  let n := pad_target (c_p c) (zlen d) in
  make_tx_msg c id d =
    Some {| f_id := id; f_ext := c_tx_ext c; f_data := d ++ zrepeat (pad_byte (c_p c)) (n - zlen d);
            f_dlc := dlc_table n; f_fd := p_can_fd (c_p c); f_brs := p_brs (c_p c) |} /\
  zlen d <= n <= p_tx_dl (c_p c) /\ legal_len n.
Proof. exact make_tx_msg_spec. Qed.

(** A payload that fits is sent as the reference Single Frame (length in the first byte only if
    the whole padded frame is at most 8 bytes, escape form otherwise), directly or after a rate
    limiter standby, and the request is then completed. *)
Theorem C02_single : forall c, params_ok (c_p c) -> forall s rid payload extra t allowed,
  1 <= zlen payload -> is_single c (zlen payload) = true ->
  let r := fresh_req rid payload extra t in
  let frame := hd_error (seg c t payload) in
  exists m, frame = Some m /\ (zlen (f_data m) <= 64) /\
    ((allowed <? zlen (c_tx_prefix c ++ (if sf_short_ok c (zlen payload) then [zlen payload] else [0; zlen payload]) ++ payload)) = false ->
       exists s', start_request c (s <| active := Some r |>) r allowed = SRDone s' [EDone rid true] (Some m) /\
                  tx_state s' = TxIdle /\ active s' = None) /\
    ((allowed <? zlen (c_tx_prefix c ++ (if sf_short_ok c (zlen payload) then [zlen payload] else [0; zlen payload]) ++ payload)) = true ->
       exists s', start_request c (s <| active := Some r |>) r allowed = SRDone s' [] None /\
                  tx_state s' = TxSFStandby /\ tx_standby s' = Some m).
Proof. exact start_single. Qed.

(** Otherwise the First Frame of the reference segmentation is built (true total length, 12-bit
    form up to 4095 bytes, 32-bit escape form above) and exactly its payload bytes are consumed. *)
Theorem C02_first_frame : forall c, params_ok (c_p c) -> forall s rid payload extra t allowed,
  1 <= zlen payload < 2 ^ 32 -> is_single c (zlen payload) = false ->
  let n := zlen payload in
  let r := fresh_req rid payload extra t in
  let d := c_tx_prefix c ++ ff_header n ++ ztake (ff_cap c n) payload in
  let ff := spec_frame c (Address.tx_arb_id (c_txa c) Physical) d in
  hd_error (seg c t payload) = Some ff /\ 0 < ff_cap c n < n /\
  ((zlen d <=? allowed) = true ->
     exists s', start_request c (s <| active := Some r |>) r allowed = SRDone s' [] (Some ff) /\
       tx_state s' = TxWaitFC /\ active s' = Some (adv_req rid payload extra t (ff_cap c n)) /\
       tx_seqnum s' = 1 /\ t_start (timer_rx_fc s') = Some (now s) /\ tx_standby s' = tx_standby s) /\
  ((zlen d <=? allowed) = false ->
     exists s', start_request c (s <| active := Some r |>) r allowed = SRDone s' [] None /\
       tx_state s' = TxFFStandby /\ active s' = Some (adv_req rid payload extra t (ff_cap c n)) /\
       tx_seqnum s' = 1 /\ tx_standby s' = Some ff).
Proof. exact start_first. Qed.

(** The j-th Consecutive Frame: with the generator advanced by ff_cap + (j-1) cf_cap bytes and
    tx_seqnum = j mod 16, the frame built is the j-th Consecutive Frame of the reference
    segmentation (sequence number j mod 16, full except the last one); the counters move on
    to j+1, and the last one completes the request with success. *)
Theorem C02_consecutive_frame : forall c, params_ok (c_p c) -> forall s evs rid payload extra t j rbs allowed,
  let n := zlen payload in
  let k := ff_cap c n + (j - 1) * cf_cap c in
  1 <= j -> 0 < ff_cap c n -> k < n ->
  tx_state s = TxTransmitCF -> remote_bs s = Some rbs ->
  active s = Some (adv_req rid payload extra t k) -> tx_seqnum s = j mod 16 ->
  timer_timed_out (now s) (timer_tx_stmin s) = true ->
  Z.min (cf_cap c) (n - k) <= allowed ->
  let r := tx_cf c allowed s evs in
  tr_msg r = Some (spec_frame c (Address.tx_arb_id (c_txa c) Physical) (cf_data c payload j)) /\
  tr_crash r = false /\
  (k + cf_cap c < n ->
     active (tr_s r) = Some (adv_req rid payload extra t (k + cf_cap c)) /\
     tx_seqnum (tr_s r) = (j + 1) mod 16 /\ tx_block_counter (tr_s r) = tx_block_counter s + 1 /\
     (tx_state (tr_s r) = TxTransmitCF \/ tx_state (tr_s r) = TxWaitFC) /\ tr_evs r = evs) /\
  (n <= k + cf_cap c ->
     tx_state (tr_s r) = TxIdle /\ active (tr_s r) = None /\ tr_evs r = evs ++ [EDone rid true]).
Proof. exact cf_step. Qed.

(** A payload whose length cannot be announced is refused by send(), nothing is queued. *)
Theorem C02_refuse : forall c s g size t, 2 ^ 32 <= size ->
  send c s g size t = (s, SendValueError).
Proof.
  intros c s g size t H. unfold send.
  destruct (Z.ltb_spec size 0); [lia|]. destruct (Z.ltb_spec 0xFFFFFFFF size); [reflexivity|lia].
Qed.

(** Run level, cooperative peer ([coop]: grant with a ContinueToSend whenever the sender waits for one,
    otherwise let the separation time pass and run the Consecutive Frame branch; Proofs/CoopP.v): the
    frames emitted for a multi-frame request are EXACTLY the reference segmentation, in order; the
    request is completed once, with success; the sender is idle again.  Any block size and separation
    time in the grant, any payload of 1..2^32-1 bytes that does not fit a Single Frame. *)
Theorem C02_cooperative_run : forall c, params_ok (c_p c) -> 0 < p_tbs_ns (c_p c) ->
  forall fc, fc_status fc = FS_CTS -> forall a, p_tx_dl (c_p c) <= a ->
  forall s rid payload extra t,
  1 <= zlen payload < 2 ^ 32 -> is_single c (zlen payload) = false ->
  let r := fresh_req rid payload extra t in
  exists ff s1,
    start_request c (s <| active := Some r |>) r a = SRDone s1 [] (Some ff) /\
    let '(cfs, evs, s') := coop c fc a (2 * Z.to_nat (n_cf c (zlen payload))) s1 [] [] in
    ff :: cfs = seg c t payload /\ evs = [EDone rid true] /\ tx_state s' = TxIdle /\ active s' = None.
Proof. exact multi_frame_run. Qed.

Print Assumptions C02_wellformed.
Print Assumptions C02_single.
Print Assumptions C02_first_frame.
Print Assumptions C02_consecutive_frame.
Print Assumptions C02_refuse.
Print Assumptions C02_cooperative_run.
