(** C09 - Addressing: only my frames are accepted; mirrored peers understand each other.
    Statements only; proofs are in Proofs/AddressP.v and Proofs/IgnoreP.v. *)
From IsoTp Require Import Base.Prelude Model.Layer Spec.AddrSpec Proofs.AddressP Proofs.IgnoreP.

(** A CAN frame is accepted iff it meets the documented reception condition of the address
    (every addressing mode, every 11/29-bit identifier, any data). *)
Theorem C09_iff : forall a f, 0 <= f_id f < 2 ^ 29 ->
  (is_for_me a f = true <-> accepts a f).
Proof. exact is_for_me_iff. Qed.

(** A frame that is not accepted changes nothing and reports nothing: the reception loop of
    process() gives the same state, events and remaining inbox as without the frame; only the
    `received` statistic counts it. *)
Theorem C09_ignore : forall c f rest s evs st, c_is_for_me c f = false ->
  rx_loop c (f :: rest) s evs st = map_st bump (rx_loop c rest s evs st).
Proof. exact rx_loop_ignore. Qed.

(** The identifier / prefix byte computed for emitted frames are the documented ones. *)
Theorem C09_emit_id : forall a t, address_ok a -> a_rx_only a = false -> emit_id a t (tx_arb_id a t).
Proof. exact tx_arb_id_spec. Qed.

Theorem C09_emit_prefix : forall a, address_ok a -> a_rx_only a = false -> emit_prefix a (tx_prefix a).
Proof. exact tx_prefix_spec. Qed.

(** ... and such a frame is accepted by a layer configured with the mirrored address. *)
Theorem C09_mirror : forall a t id pfx rest f,
  address_ok a -> a_rx_only a = false -> emit_id a t id -> emit_prefix a pfx ->
  f_id f = id -> f_ext f = mode29 (a_mode a) -> f_data f = pfx ++ rest ->
  accepts (mirror a) f.
Proof. exact mirror_accepts. Qed.

(** send() with the Functional target type is accepted exactly for payloads that fit a Single
    Frame; a refused send() queues nothing. *)
Theorem C09_func : forall c s g size,
  snd (send c s g size (Some Functional)) = SendOk <-> (0 <= size <= 0xFFFFFFFF /\ sf_fits c size).
Proof. exact send_functional. Qed.

Theorem C09_func_refused : forall c s g size t,
  snd (send c s g size t) = SendValueError -> fst (send c s g size t) = s.
Proof. exact send_refused_unchanged. Qed.

(** An explicit target address type wins over default_target_address_type (a Physical send is accepted for every size and its request
    is Physical whatever the default says); an omitted one takes the default. *)
Theorem C09_explicit_physical : forall c s g size, 0 <= size <= 0xFFFFFFFF ->
  send c s g size (Some Physical) =
  (s <| tx_queue := tx_queue s ++ [{| r_id := next_req_id s; r_gen := g; r_size := size; r_consumed := 0; r_depleted := false; r_tat := Physical |}] |>
     <| next_req_id := next_req_id s + 1 |>, SendOk).
Proof. exact send_explicit_physical. Qed.

Theorem C09_default_target : forall c s g size, send c s g size None = send c s g size (Some (p_default_tat (c_p c))).
Proof. exact send_default_target. Qed.

(** The constructor's validation is the documented table of required parameters and ranges. *)
Theorem C09_validate : forall a, addr_validate a = true <-> address_ok a.
Proof. exact addr_validate_iff. Qed.

Print Assumptions C09_iff.
Print Assumptions C09_ignore.
Print Assumptions C09_emit_id.
Print Assumptions C09_emit_prefix.
Print Assumptions C09_mirror.
Print Assumptions C09_func.
Print Assumptions C09_func_refused.
Print Assumptions C09_validate.
Print Assumptions C09_explicit_physical.
Print Assumptions C09_default_target.
