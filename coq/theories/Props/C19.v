(** C19 - Socket option setters write the exact kernel ABI and keep unspecified fields.
    [kapply] is the kernel side (Spec/Kernel.v: uapi struct layouts, little endian);
    [general_write]/[fc_write]/[ll_write] model isotp/tpsock/opts.py. *)
From IsoTp Require Import Base.Prelude Model.Sock Proofs.SockP.

(** set_opts: for arguments that pass validation, the setsockopt calls issued are at
    SOL_CAN_ISOTP with the 12-byte can_isotp_options image (preceded by the 4-byte TX_STMIN image
    when tx_stmin is given); after the kernel parsed them it holds every given value, every
    argument left at None keeps its value, the flags are the requested-or-previous ones plus the
    implied ones, and nothing else (flow-control, link-layer options, binding) changes. *)
Theorem C19_set_opts : forall k a1 a2 a3 a4 a5 a6 a7 calls,
  kstate_ok k -> general_write k a1 a2 a3 a4 a5 a6 a7 = Some calls ->
  let k' := kapply_all k calls in
  k_flags k' = new_flags k a1 a3 a4 a5 a6 a7 /\
  k_txtime k' = newv a2 (k_txtime k) /\ k_ext k' = newv a3 (k_ext k) /\ k_txpad k' = newv a4 (k_txpad k) /\
  k_rxpad k' = newv a5 (k_rxpad k) /\ k_rxext k' = newv a6 (k_rxext k) /\ k_txstmin k' = newv a7 (k_txstmin k) /\
  k_bs k' = k_bs k /\ k_stmin k' = k_stmin k /\ k_wft k' = k_wft k /\
  k_mtu k' = k_mtu k /\ k_txdl k' = k_txdl k /\ k_llflags k' = k_llflags k /\ k_bound k' = k_bound k /\
  kstate_ok k' /\
  Forall (fun cl => match cl with SetOpt l o b => l = SOL_CAN_ISOTP /\ (o = CAN_ISOTP_OPTS /\ zlen b = 12 \/ o = CAN_ISOTP_TX_STMIN /\ zlen b = 4) | Bind _ _ => False end) calls.
Proof. exact general_write_effect. Qed.

(** out-of-range or non-integer argument <-> ValueError, and then NO setsockopt is issued *)
Theorem C19_invalid : forall k a1 a2 a3 a4 a5 a6 a7,
  (chk a1 0xFFFFFFFF = None \/ chk a2 0xFFFFFFFF = None \/ chk a3 0xFF = None \/ chk a4 0xFF = None \/
   chk a5 0xFF = None \/ chk a6 0xFF = None \/ chk a7 0xFFFFFFFF = None) <->
  general_write k a1 a2 a3 a4 a5 a6 a7 = None.
Proof. exact general_write_invalid. Qed.

Theorem C19_invalid_arg : forall v hi, chk v hi = None <-> (v = VOther \/ exists z, v = VInt z /\ ~ (0 <= z <= hi)).
Proof. exact chk_none. Qed.

(** implied flags; flags configured earlier are kept when optflag is left at None *)
Theorem C19_flag_ext : forall k a1 z a4 a5 a6 a7, has_flag (new_flags k a1 (VInt z) a4 a5 a6 a7) F_EXTEND_ADDR = true.
Proof. exact new_flags_implied. Qed.
Theorem C19_flag_txstmin : forall k a1 a3 a4 a5 a6 z, has_flag (new_flags k a1 a3 a4 a5 a6 (VInt z)) F_FORCE_TXSTMIN = true.
Proof. exact new_flags_txstmin. Qed.
Theorem C19_flags_kept : forall k a3 a4 a5 a6 a7 f,
  has_flag (k_flags k) f = true -> has_flag (new_flags k VNone a3 a4 a5 a6 a7) f = true.
Proof. exact new_flags_keeps. Qed.

(** set_fc_opts / set_ll_opts *)
Theorem C19_set_fc_opts : forall k a1 a2 a3 calls, fc_write k a1 a2 a3 = Some calls ->
  calls = [SetOpt SOL_CAN_ISOTP CAN_ISOTP_RECV_FC [newv a1 (k_bs k); newv a2 (k_stmin k); newv a3 (k_wft k)]] /\
  let k' := kapply_all k calls in
  k_bs k' = newv a1 (k_bs k) /\ k_stmin k' = newv a2 (k_stmin k) /\ k_wft k' = newv a3 (k_wft k) /\
  k_flags k' = k_flags k /\ k_ext k' = k_ext k /\ k_txstmin k' = k_txstmin k /\ k_mtu k' = k_mtu k.
Proof. exact fc_write_effect. Qed.
Theorem C19_fc_invalid : forall k a1 a2 a3,
  (chk a1 0xFF = None \/ chk a2 0xFF = None \/ chk a3 0xFF = None) <-> fc_write k a1 a2 a3 = None.
Proof. exact fc_write_invalid. Qed.
Theorem C19_set_ll_opts : forall k a1 a2 a3 calls, ll_write k a1 a2 a3 = Some calls ->
  calls = [SetOpt SOL_CAN_ISOTP CAN_ISOTP_LL_OPTS [newv a1 (k_mtu k); newv a2 (k_txdl k); newv a3 (k_llflags k)]] /\
  let k' := kapply_all k calls in
  k_mtu k' = newv a1 (k_mtu k) /\ k_txdl k' = newv a2 (k_txdl k) /\ k_llflags k' = newv a3 (k_llflags k) /\
  k_flags k' = k_flags k /\ k_bs k' = k_bs k /\ k_txstmin k' = k_txstmin k.
Proof. exact ll_write_effect. Qed.

Print Assumptions C19_set_opts.
Print Assumptions C19_invalid.
Print Assumptions C19_invalid_arg.
Print Assumptions C19_flag_ext.
Print Assumptions C19_flag_txstmin.
Print Assumptions C19_flags_kept.
Print Assumptions C19_set_fc_opts.
Print Assumptions C19_fc_invalid.
Print Assumptions C19_set_ll_opts.
