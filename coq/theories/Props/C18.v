(** C18 - Listen mode never transmits (and hears the same: see Proofs for the reception side,
    which does not read listen_mode, blocksize, stmin or padding). *)
From IsoTp Require Import Base.Prelude Model.Micro Spec.ConfigSpec Proofs.Inv Proofs.FsmProps.

(** A transmit pass of a listener with nothing to send emits no frame, whatever Flow Control
    the reception side requested. *)
Theorem C18_pass_silent : forall c s, p_listen (c_p c) = true -> tx_quiet s ->
  tr_msg (process_tx c s) = None /\ tx_quiet (tr_s (process_tx c s)).
Proof. exact listen_silent. Qed.

(** For every sequence of micro-steps without send() - any traffic, any batching, ticks,
    stop / reset calls - a listener never hands a frame to txfn. *)
Theorem C18_silent : forall c ms, params_ok (c_p c) -> p_listen (c_p c) = true ->
  Forall not_send ms -> forall s, WF c s -> tx_quiet s ->
  tx_quiet (fst (mrun c s ms)) /\ forall f, ~ In (ETx f) (snd (mrun c s ms)).
Proof. exact listen_run_silent. Qed.

Print Assumptions C18_pass_silent.
Print Assumptions C18_silent.
