(** C18 - Listen mode never transmits (and hears the same: see Proofs for the reception side,
    which does not read listen_mode, blocksize, stmin or padding). *)
From IsoTp Require Import Base.Prelude Model.Micro Spec.ConfigSpec Proofs.Inv Proofs.FsmProps Proofs.DuplexP Proofs.ListenP.

(** A transmit pass of a listener with nothing to send emits no frame, whatever Flow Control
    the reception side requested. *)
Theorem C18_pass_silent : forall c s, p_listen (c_p c) = true -> tx_quiet s ->
  tr_msg (process_tx c s) = None /\ tx_quiet (tr_s (process_tx c s)).
Proof. exact listen_silent. Qed.

(** For every sequence of micro-steps without send() - any traffic, any batching, ticks,
    stop / reset calls - a listener never hands a frame to txfn. *)
Theorem C18_silent : forall c ms, params_ok (c_p c) -> p_listen (c_p c) = true ->
  Forall not_send ms -> forall s, WF c s -> tx_quiet s ->
  tx_quiet (fst (mrun c s ms)) /\ forall f, ~ In (ETx f) (snd (mrun c s ms)).
Proof. exact listen_run_silent. Qed.

(** "Hears the same".  Reception does not depend on listen mode nor on any transmit parameter: *)
Theorem C18_same_reception : forall c c' s f, same_rx_cfg c c' -> process_rx c' s f = process_rx c s f.
Proof. exact process_rx_cfg. Qed.

(** A listener [c'] and a receiver [c] with the same reception parameters, taken through the same
    frames, timeout checks, transmit passes, recv() calls and clock ticks from states with the same
    reception view (DuplexP.rxv: reception state, buffer, announced length, sequence number, block
    counter, N_Cr timer, reception queue, pending flow control), end with the same reception view:
    same deliveries, same reception in progress - whatever their transmit sides do. *)
Theorem C18_hears_the_same : forall c c', same_rx_cfg c c' -> forall ms s1 s2,
  Forall rx_relevant ms -> rxv s1 = rxv s2 ->
  rxv (fst (mrun c' s1 ms)) = rxv (fst (mrun c s2 ms)).
Proof. exact hears_the_same. Qed.

Print Assumptions C18_pass_silent.
Print Assumptions C18_silent.
Print Assumptions C18_same_reception.
Print Assumptions C18_hears_the_same.
