(** C01 - Lossless, ordered, exactly-once transfer between two peers.

    The statement proved here is the composition
      sender side  : the frames a request produces are those of the reference segmentation
                     Spec.Segment.seg (theorems C02_single, C02_first_frame, C02_consecutive_frame);
      wire         : the reference segmentation of every payload, under every accepted transmit
                     configuration, is a well-formed stream (C01_segmentation_wellformed);
      receiver side: any sequence of well-formed streams is delivered in order, exactly once,
                     without error (C01_messages), hence so is the reference segmentation of any
                     message list between peers whose prefix sizes agree (C01_transfer);
      identifiers  : frames emitted under an address are accepted by the mirrored address (C09_mirror);
      user side    : recv() hands over the oldest payload and removes it (C01_recv_fifo).
    Over EVERY interleaving of the two process() loops, user calls and clock ticks
    (C01_every_interleaving on joint micro-steps, C01_every_schedule on user-level calls,
    C01_process_is_joint_steps relating the two): as long as neither side has reported an error, what
    one side delivered is a prefix of what the other accepted - same bytes, same order, none twice, none
    invented - in both directions at once, and at rest it is everything.  And with non-reserved STmin
    parameters (C01_only_deadline_errors, C01_only_deadline_errors_schedule): unless a DEADLINE error
    (FlowControlTimeoutError, ConsecutiveFrameTimeoutError) has been reported, no error has been reported
    at all - by the flow-control credit invariant of Proofs/TokenP.v: a Flow Control only ever reaches a
    sender that is waiting for it.  What remains outside the theorems is the timing itself: that the
    deadlines are met when both sides are processed regularly (explored by harness/props/C01.py). *)
From IsoTp Require Import Base.Prelude Model.Layer Model.Address Spec.ConfigSpec Spec.Stream Spec.Segment
  Proofs.RxP Proofs.SegP Proofs.FaultP Proofs.TransferP Proofs.TxP Proofs.CoopP Proofs.FcPosP
  Model.Micro Model.Joint Model.Pdu Proofs.Inv Proofs.SendTraceP Proofs.WireP Proofs.JointP Proofs.JointProcP Proofs.TokenP.

Theorem C01_segmentation_wellformed : forall c, params_ok (c_p c) -> forall t payload,
  1 <= zlen payload < 2 ^ 32 ->
  wf_stream (zlen (tx_prefix (c_txa c))) payload (map f_data (seg c t payload)).
Proof. exact seg_wf. Qed.

Theorem C01_messages : forall c mk, (forall d, f_data (mk d) = d) ->
  forall (msgs : list (list Z * list (list Z))) s,
  Forall (fun m => wf_stream (c_rx_prefix_size c) (fst m) (snd m) /\ zlen (fst m) <= p_max_frame_size (c_p c)) msgs ->
  rx_state s = RxIdle ->
  let '(s', evs) := rx_run c s (concat (map snd msgs)) mk in
  evs = [] /\ rx_queue s' = rx_queue s ++ map fst msgs /\ rx_state s' = RxIdle /\
  tx_state s' = tx_state s /\ tx_queue s' = tx_queue s /\ active s' = active s.
Proof. exact rx_messages. Qed.

(** Sender configuration [ca] (any accepted one), receiver configuration [cb] stripping as many
    prefix bytes as [ca] adds (mirrored addresses), any list of non-empty payloads the receiver
    admits: feeding the receiver the reference segmentation of each message in turn delivers
    exactly the message list, in order, each once, and reports nothing. *)
Theorem C01_transfer : forall ca cb mk t, params_ok (c_p ca) -> (forall d, f_data (mk d) = d) ->
  zlen (tx_prefix (c_txa ca)) = c_rx_prefix_size cb ->
  forall msgs s,
  Forall (fun p => 1 <= zlen p < 2 ^ 32 /\ zlen p <= p_max_frame_size (c_p cb)) msgs ->
  rx_state s = RxIdle ->
  let '(s', evs) := rx_run cb s (concat (map (fun p => map f_data (seg ca t p)) msgs)) mk in
  evs = [] /\ rx_queue s' = rx_queue s ++ msgs /\ rx_state s' = RxIdle.
Proof. exact transfer_reference. Qed.

Theorem C01_recv_fifo : forall s,
  match rx_queue s with
  | [] => recv s = (s, None)
  | x :: rest => snd (recv s) = Some x /\ rx_queue (fst (recv s)) = rest
  end.
Proof. exact recv_fifo. Qed.

(** End to end for one multi-frame message under the cooperative schedule: the frames the sender
    model emits (First Frame, then Consecutive Frames as the peer grants them) are reassembled by a
    receiver with the mirrored prefix into exactly the payload, delivered once, with no error on
    either side and the request completed with success. *)
Theorem C01_end_to_end_cooperative : forall ca cb, params_ok (c_p ca) -> 0 < p_tbs_ns (c_p ca) ->
  forall fc, fc_status fc = FS_CTS -> forall a, p_tx_dl (c_p ca) <= a ->
  forall s rid payload extra t mk, (forall d, f_data (mk d) = d) ->
  zlen (tx_prefix (c_txa ca)) = c_rx_prefix_size cb ->
  1 <= zlen payload < 2 ^ 32 -> zlen payload <= p_max_frame_size (c_p cb) -> is_single ca (zlen payload) = false ->
  exists ff s1,
    start_request ca (s <| active := Some (fresh_req rid payload extra t) |>) (fresh_req rid payload extra t) a = SRDone s1 [] (Some ff) /\
    let '(cfs, evs, s') := coop ca fc a (2 * Z.to_nat (n_cf ca (zlen payload))) s1 [] [] in
    evs = [EDone rid true] /\ tx_state s' = TxIdle /\ active s' = None /\
    forall srx, rx_state srx = RxIdle ->
      let '(s2, e2) := rx_run cb srx (map f_data (ff :: cfs)) mk in
      e2 = [] /\ rx_queue s2 = rx_queue srx ++ [payload] /\ rx_state s2 = RxIdle.
Proof. exact end_to_end_multi. Qed.

(** Lock step with the flow control really exchanged.  The sender uses the ContinueToSend the receiver
    answers with (its blocksize and stmin).  [coopw] records, for each Consecutive Frame, whether the sender
    had to be granted since the previous one; [rx_run_fc] records, after each frame, the Flow Control the
    receiver emits.  Both runs are over the same frames - the reference segmentation - and: the sender
    completes once with success, the receiver delivers exactly the payload without error, the receiver
    answers the First Frame and then exactly after every completed block that is not the end of the
    message, and the sender waits for a grant exactly at those points ([waits_before fc i = fc_due cb
    (i-1) ncf]): neither side ever waits for the other in vain, and no Flow Control arrives unexpected. *)
Theorem C01_lockstep : forall ca cb, params_ok (c_p ca) -> params_ok (c_p cb) -> p_listen (c_p cb) = false ->
  0 < p_tbs_ns (c_p ca) -> forall a, p_tx_dl (c_p ca) <= a ->
  forall s rid payload extra t mk, (forall d, f_data (mk d) = d) ->
  zlen (tx_prefix (c_txa ca)) = c_rx_prefix_size cb ->
  1 <= zlen payload < 2 ^ 32 -> zlen payload <= p_max_frame_size (c_p cb) -> is_single ca (zlen payload) = false ->
  let fc := {| fc_status := FS_CTS; fc_bs := p_blocksize (c_p cb); fc_stmin := p_stmin (c_p cb) |} in
  let ncf := n_cf ca (zlen payload) in
  let fcref := spec_frame cb (Address.tx_arb_id (c_txa cb) Physical)
                 (Address.tx_prefix (c_txa cb) ++ [0x30 + FS_CTS; p_blocksize (c_p cb); p_stmin (c_p cb)]) in
  exists ff s1,
    start_request ca (s <| active := Some (fresh_req rid payload extra t) |>) (fresh_req rid payload extra t) a = SRDone s1 [] (Some ff) /\
    let '(cfs, evs, s') := coopw ca fc a (2 * Z.to_nat ncf) s1 true [] [] in
    ff :: map snd cfs = seg ca t payload /\ evs = [EDone rid true] /\ tx_state s' = TxIdle /\ active s' = None /\
    map fst cfs = map (waits_before fc) (zseq 1 ncf) /\
    forall srx, rx_state srx = RxIdle -> pending_fc srx = false ->
      let '(s2, e2, fcs) := rx_run_fc cb srx (map f_data (ff :: map snd cfs)) mk in
      e2 = [] /\ rx_queue s2 = rx_queue srx ++ [payload] /\ rx_state s2 = RxIdle /\
      fcs = Some fcref :: map (fun i => if fc_due cb i ncf then Some fcref else None) (zseq 1 ncf) /\
      (forall i, 2 <= i <= ncf -> waits_before fc i = fc_due cb (i - 1) ncf).
Proof. exact lockstep_multi. Qed.


(** Two layers [ca], [cb] with accepted parameters and mirrored addresses ([linked] both ways), joined by
    a reliable in-order link ([Model/Joint.v]: what one side hands to txfn is, in that order, what the
    other side's rxfn returns).  For EVERY list of joint steps from the initial state - micro-steps of
    either side in any interleaving (timeout checks, limiter updates, transmit passes, send() with any
    non-empty payload the peer's max_frame_size admits, recv(), clock ticks) and deliveries of the oldest
    frame in flight to either side, i.e. any process() granularity and any batching - either an error
    event has been reported on one side, or: the payloads recv() returned on B followed by those waiting
    in B's reception queue are a prefix of the payloads send() accepted on A, in the same order, and
    the same from B to A; and when the system is at rest (nothing in flight, transmitters idle with
    empty queues, receivers idle) they are exactly all of them. *)
Theorem C01_every_interleaving : forall ca cb, params_ok (c_p ca) -> params_ok (c_p cb) ->
  linked ca cb -> linked cb ca ->
  forall ta tb ops, Forall (jop_ok ca cb) ops ->
  let n := fst (jrun ca cb (init_net ca cb ta tb) ops) in
  let tr := snd (jrun ca cb (init_net ca cb ta tb) ops) in
  jerr tr = true \/
  ((exists later, sent_of SA tr = (recv_of SB tr ++ rx_queue (nB n)) ++ later) /\
   (exists later, sent_of SB tr = (recv_of SA tr ++ rx_queue (nA n)) ++ later) /\
   (at_rest n -> sent_of SA tr = recv_of SB tr ++ rx_queue (nB n) /\
                 sent_of SB tr = recv_of SA tr ++ rx_queue (nA n))).
Proof. exact joint_transfer. Qed.

(** One process() call of one side - any fuel, any do_rx / do_tx flags - with the frames in flight
    toward it as its inbox IS a list of joint steps of that side: same resulting layer state, same
    frames left in flight, same events, its frames appended in order to those in flight toward the peer. *)
Theorem C01_process_is_joint_steps : forall ca cb sd fuel do_rx do_tx s inb outb so evs st,
  let r := process_loop fuel (cfg_of ca cb sd) do_rx do_tx {| w_l := s; w_inbox := inb |} evs st in
  exists ops enew,
    Forall (proc_jop sd) ops /\
    snd (fst (fst r)) = evs ++ enew /\
    jrun ca cb (mk sd s inb outb so) ops =
      (mk sd (w_l (fst (fst (fst r)))) (w_inbox (fst (fst (fst r)))) (outb ++ out_frames enew) so, map (JE sd) enew).
Proof. exact process_joint. Qed.

(** Hence the same for EVERY schedule of user-level calls: process() on either side with any flags,
    send(), recv(), clock ticks, in any order and number. *)
Theorem C01_every_schedule : forall ca cb, params_ok (c_p ca) -> params_ok (c_p cb) ->
  linked ca cb -> linked cb ca ->
  forall ta tb cls, Forall (call_ok ca cb) cls ->
  let n := fst (crun ca cb (init_net ca cb ta tb) cls) in
  let tr := snd (crun ca cb (init_net ca cb ta tb) cls) in
  jerr tr = true \/
  ((exists later, sent_of SA tr = (recv_of SB tr ++ rx_queue (nB n)) ++ later) /\
   (exists later, sent_of SB tr = (recv_of SA tr ++ rx_queue (nA n)) ++ later) /\
   (at_rest n -> sent_of SA tr = recv_of SB tr ++ rx_queue (nB n) /\
                 sent_of SB tr = recv_of SA tr ++ rx_queue (nA n))).
Proof. exact calls_transfer. Qed.


(** The flow-control credit argument, every interleaving.  Two linked layers with accepted parameters and
    non-reserved STmin bytes.  For EVERY list of joint steps from the initial state: either a deadline error
    (N_Bs: FlowControlTimeoutError, N_Cr: ConsecutiveFrameTimeoutError) has been reported on one side, or NO
    error event at all has been reported - no unexpected / overflow / wait Flow Control, no wrong sequence
    number, no unexpected or interrupted frame, no invalid data, no generator error, no escaped exception -
    and what each side delivered is a prefix of what the other accepted, everything at rest.  Invariant
    (Proofs/ScanP.v, TokRxP.v, TokTxP.v, TokenP.v): the receiver has issued one ContinueToSend per
    flow-control point of the data frames it consumed; the sender waits exactly while the frames it emitted
    contain a point it holds no grant for; accepted + pending + in flight + in the mailbox <= issued. *)
Theorem C01_only_deadline_errors : forall ca cb, params_ok (c_p ca) -> params_ok (c_p cb) ->
  linked ca cb -> linked cb ca ->
  stmin_valid (p_stmin (c_p ca)) = true -> stmin_valid (p_stmin (c_p cb)) = true ->
  forall ta tb ops, Forall (jop_ok ca cb) ops ->
  let n := fst (jrun ca cb (init_net ca cb ta tb) ops) in
  let tr := snd (jrun ca cb (init_net ca cb ta tb) ops) in
  jto tr = true \/
  (jerr tr = false /\
   (exists later, sent_of SA tr = (recv_of SB tr ++ rx_queue (nB n)) ++ later) /\
   (exists later, sent_of SB tr = (recv_of SA tr ++ rx_queue (nA n)) ++ later) /\
   (at_rest n -> sent_of SA tr = recv_of SB tr ++ rx_queue (nB n) /\
                 sent_of SB tr = recv_of SA tr ++ rx_queue (nA n))).
Proof. exact joint_only_deadlines. Qed.

(** The same for every schedule of user-level calls (process() with any flags, send(), recv(), ticks). *)
Theorem C01_only_deadline_errors_schedule : forall ca cb, params_ok (c_p ca) -> params_ok (c_p cb) ->
  linked ca cb -> linked cb ca ->
  forall ta tb cls,
  stmin_valid (p_stmin (c_p ca)) = true -> stmin_valid (p_stmin (c_p cb)) = true -> Forall (call_ok ca cb) cls ->
  let n := fst (crun ca cb (init_net ca cb ta tb) cls) in
  let tr := snd (crun ca cb (init_net ca cb ta tb) cls) in
  jto tr = true \/
  (jerr tr = false /\
   (exists later, sent_of SA tr = (recv_of SB tr ++ rx_queue (nB n)) ++ later) /\
   (exists later, sent_of SB tr = (recv_of SA tr ++ rx_queue (nA n)) ++ later) /\
   (at_rest n -> sent_of SA tr = recv_of SB tr ++ rx_queue (nB n) /\
                 sent_of SB tr = recv_of SA tr ++ rx_queue (nA n))).
Proof. exact calls_only_deadlines. Qed.

Print Assumptions C01_segmentation_wellformed.
Print Assumptions C01_messages.
Print Assumptions C01_transfer.
Print Assumptions C01_recv_fifo.
Print Assumptions C01_end_to_end_cooperative.
Print Assumptions C01_lockstep.
Print Assumptions C01_every_interleaving.
Print Assumptions C01_process_is_joint_steps.
Print Assumptions C01_every_schedule.
Print Assumptions C01_only_deadline_errors.
Print Assumptions C01_only_deadline_errors_schedule.
