(** Types shared by the executable model of python-can-isotp.
    Each definition names the Python object it re-states. *)
From IsoTp Require Export Base.Prelude.
From RecordUpdate Require Export RecordSet.
Export RecordSetNotations.

(** isotp/address.py: AddressingMode, TargetAddressType *)
Inductive amode := Normal11 | Normal29 | NormalFixed29 | Extended11 | Extended29 | Mixed11 | Mixed29.
Inductive tat := Physical | Functional.

Definition amode_eqb (a b : amode) : bool :=
  match a, b with
  | Normal11, Normal11 | Normal29, Normal29 | NormalFixed29, NormalFixed29
  | Extended11, Extended11 | Extended29, Extended29 | Mixed11, Mixed11 | Mixed29, Mixed29 => true
  | _, _ => false
  end.

(** isotp/address.py: Address (constructor arguments as given by the user). *)
Record addr := {
  a_mode : amode;
  a_txid : option Z; a_rxid : option Z;
  a_ta : option Z; a_sa : option Z; a_ae : option Z;
  a_phys : option Z; a_func : option Z;
  a_rx_only : bool; a_tx_only : bool }.

(** isotp/can_message.py: CanMessage *)
Record frame := {
  f_id : Z; f_ext : bool; f_data : list Z; f_dlc : Z; f_fd : bool; f_brs : bool }.

(** isotp/errors.py: the classes handed to the error handler. *)
Inductive errclass :=
  | FlowControlTimeout | ConsecutiveFrameTimeout | InvalidCanData
  | UnexpectedFlowControl | UnexpectedConsecutiveFrame | InterruptedWithSF
  | InterruptedWithFF | WrongSequenceNumber | UnsupportedWaitFrame
  | MaximumWaitFrameReached | FrameTooLong | ChangingInvalidRXDL
  | MissingEscapeSequence | InvalidCanFdFirstFrameRXDL | OverflowErr | BadGenerator.

(** TransportLayerLogic.Params after load_params(): timeouts are the integer
    nanosecond values held by the Timer objects (FloatTables.v relates them to
    the millisecond parameters), the rate limiter budget is an exact rational. *)
Record params := {
  p_stmin : Z; p_blocksize : Z; p_override_stmin_ns : option Z;
  p_tbs_ns : Z; p_tcr_ns : Z;
  p_tx_padding : option Z; p_wftmax : Z; p_tx_dl : Z; p_tx_min_len : option Z;
  p_max_frame_size : Z; p_can_fd : bool; p_brs : bool; p_default_tat : tat;
  p_lim_enable : bool; p_lim_bn : Z; p_lim_bd : Z; p_lim_window_ns : Z;
  p_listen : bool }.

(** A layer configuration: parameters and the transmit / receive address
    (the same [addr] twice for a symmetric Address, the two halves of an
    AsymmetricAddress otherwise). *)
Record cfg := { c_p : params; c_txa : addr; c_rxa : addr }.

Inductive rxst := RxIdle | RxWaitCF.
Inductive txst := TxIdle | TxWaitFC | TxTransmitCF | TxSFStandby | TxFFStandby.

Definition rxst_eqb (a b : rxst) := match a, b with RxIdle, RxIdle | RxWaitCF, RxWaitCF => true | _, _ => false end.
Definition txst_eqb (a b : txst) :=
  match a, b with
  | TxIdle, TxIdle | TxWaitFC, TxWaitFC | TxTransmitCF, TxTransmitCF
  | TxSFStandby, TxSFStandby | TxFFStandby, TxFFStandby => true
  | _, _ => false
  end.

(** isotp/tools.py: Timer (start_time in ns, None when stopped; timeout in ns). *)
Record timer := { t_start : option Z; t_timeout : Z }.

(** A user generator: the values it would yield, then (optionally) an endless
    repetition of one byte - enough to express finite and lazily produced
    huge payloads. *)
Record gen := { g_items : list Z; g_fill : option Z }.

(** TransportLayerLogic.SendRequest + FiniteByteGenerator *)
Record request := {
  r_id : Z; r_gen : gen; r_size : Z; r_consumed : Z; r_depleted : bool; r_tat : tat }.

(** A decoded Flow Control PDU kept in last_flow_control_frame. *)
Record fcpdu := { fc_status : Z; fc_bs : Z; fc_stmin : Z }.

(** TransportLayerLogic instance state (+ RateLimiter state, + the virtual clock). *)
Record layer := {
  now : Z;
  rx_state : rxst; rx_buffer : list Z; rx_frame_length : Z; last_seqnum : Z;
  rx_block_counter : Z; actual_rxdl : option Z;
  pending_fc : bool; pending_fc_status : option Z;
  timer_rx_cf : timer; rx_queue : list (list Z);
  tx_state : txst; tx_queue : list request; active : option request;
  tx_standby : option frame; last_fc : option fcpdu; remote_bs : option Z;
  tx_block_counter : Z; tx_seqnum : Z; wft_counter : Z; tx_frame_length : Z;
  timer_rx_fc : timer; timer_tx_stmin : timer;
  lim_times : list Z; lim_bits : list Z; lim_total : Z;
  next_req_id : Z }.

Global Instance eta_timer : Settable _ := settable! Build_timer <t_start; t_timeout>.
Global Instance eta_request : Settable _ :=
  settable! Build_request <r_id; r_gen; r_size; r_consumed; r_depleted; r_tat>.
Global Instance eta_layer : Settable _ := settable! Build_layer
  <now; rx_state; rx_buffer; rx_frame_length; last_seqnum; rx_block_counter; actual_rxdl;
   pending_fc; pending_fc_status; timer_rx_cf; rx_queue;
   tx_state; tx_queue; active; tx_standby; last_fc; remote_bs;
   tx_block_counter; tx_seqnum; wft_counter; tx_frame_length;
   timer_rx_fc; timer_tx_stmin; lim_times; lim_bits; lim_total; next_req_id>.

(** Observable events of one operation, in order of occurrence. *)
Inductive event :=
  | ETx (f : frame)              (* handed to txfn *)
  | EErr (e : errclass)          (* handed to the error handler *)
  | EDone (rid : Z) (ok : bool)  (* SendRequest.complete(ok) *)
  | ECrash (site : Z).           (* a Python exception escapes (modelled sites only) *)

(** Flow status constants, PDU.FlowStatus *)
Definition FS_CTS := 0.
Definition FS_WAIT := 1.
Definition FS_OVFLW := 2.
