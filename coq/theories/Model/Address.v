(** Model of isotp/address.py: Address.validate, identifier construction,
    payload prefix, the five _is_for_me_* predicates, AsymmetricAddress. *)
From IsoTp Require Export Model.Types.

Definition is29 (m : amode) : bool :=
  match m with Normal29 | NormalFixed29 | Extended29 | Mixed29 => true | _ => false end.

Definition is_none (o : option Z) : bool := match o with None => true | Some _ => false end.
Definition oget (o : option Z) : Z := match o with Some x => x | None => 0 end.

Definition byte_ok (o : option Z) : bool :=
  match o with None => true | Some x => (0 <=? x) && (x <=? 255) end.

Definition id_ok (is29b : bool) (o : option Z) : bool :=
  match o with
  | None => true
  | Some x => (0 <=? x) && (is29b || (x <=? 0x7FF))
  end.

(** Address.validate (L229-310) on integer-or-None arguments.
    [true] = returns normally, [false] = raises ValueError. *)
Definition addr_validate (a : addr) : bool :=
  if a_rx_only a && a_tx_only a then false else
  let mode_ok :=
    match a_mode a with
    | Normal11 | Normal29 =>
        negb (is_none (a_rxid a) && negb (a_tx_only a)) &&
        negb (is_none (a_txid a) && negb (a_rx_only a)) &&
        negb (opt_eqb (a_rxid a) (a_txid a))
    | NormalFixed29 =>
        negb (is_none (a_ta a) || is_none (a_sa a))
    | Extended11 | Extended29 =>
        (a_rx_only a || negb (is_none (a_ta a) || is_none (a_txid a))) &&
        (a_tx_only a || negb (is_none (a_sa a) || is_none (a_rxid a))) &&
        negb (opt_eqb (a_rxid a) (a_txid a))
    | Mixed11 =>
        negb (is_none (a_ae a)) &&
        negb (is_none (a_rxid a) && negb (a_tx_only a)) &&
        negb (is_none (a_txid a) && negb (a_rx_only a)) &&
        negb (opt_eqb (a_rxid a) (a_txid a))
    | Mixed29 =>
        negb (is_none (a_ta a) || is_none (a_sa a) || is_none (a_ae a))
    end in
  mode_ok && byte_ok (a_ta a) && byte_ok (a_sa a) && byte_ok (a_ae a) &&
  id_ok (is29 (a_mode a)) (a_txid a) && id_ok (is29 (a_mode a)) (a_rxid a).

(** physical_id / functional_id attributes (Address.__init__ L164-170). *)
Definition phys_base (a : addr) : Z :=
  match a_mode a with
  | NormalFixed29 => match a_phys a with None => 0x18DA0000 | Some p => Z.land p 0x1FFF0000 end
  | Mixed29 => match a_phys a with None => 0x18CE0000 | Some p => Z.land p 0x1FFF0000 end
  | _ => 0
  end.

Definition func_base (a : addr) : Z :=
  match a_mode a with
  | NormalFixed29 => match a_func a with None => 0x18DB0000 | Some p => Z.land p 0x1FFF0000 end
  | Mixed29 => match a_func a with None => 0x18CD0000 | Some p => Z.land p 0x1FFF0000 end
  | _ => 0
  end.

Definition base_of (a : addr) (t : tat) : Z :=
  match t with Physical => phys_base a | Functional => func_base a end.

(** _get_tx_arbitration_id (L342-355) *)
Definition tx_arb_id (a : addr) (t : tat) : Z :=
  match a_mode a with
  | Mixed29 | NormalFixed29 =>
      Z.lor (Z.lor (base_of a t) (Z.shiftl (oget (a_ta a)) 8)) (oget (a_sa a))
  | _ => oget (a_txid a)
  end.

(** _get_rx_arbitration_id (L357-370) *)
Definition rx_arb_id (a : addr) (t : tat) : Z :=
  match a_mode a with
  | Mixed29 | NormalFixed29 =>
      Z.lor (Z.lor (base_of a t) (Z.shiftl (oget (a_sa a)) 8)) (oget (a_ta a))
  | _ => oget (a_rxid a)
  end.

(** _tx_payload_prefix (L189-194) *)
Definition tx_prefix (a : addr) : list Z :=
  match a_mode a with
  | Extended11 | Extended29 => [oget (a_ta a)]
  | Mixed11 | Mixed29 => [oget (a_ae a)]
  | _ => []
  end.

Definition requires_ext_byte (a : addr) : bool :=
  match a_mode a with
  | Extended11 | Extended29 | Mixed11 | Mixed29 => true
  | _ => false
  end.

(** _rx_prefix_size (L182-183) *)
Definition rx_prefix_size (a : addr) : Z := if requires_ext_byte a then 1 else 0.

(** get_tx_extension_byte / get_rx_extension_byte (L409-421) *)
Definition tx_ext_byte (a : addr) : option Z :=
  match a_mode a with
  | Extended11 | Extended29 => a_ta a
  | Mixed11 | Mixed29 => a_ae a
  | _ => None
  end.

Definition rx_ext_byte (a : addr) : option Z :=
  match a_mode a with
  | Extended11 | Extended29 => a_sa a
  | Mixed11 | Mixed29 => a_ae a
  | _ => None
  end.

Definition first_byte_is (d : list Z) (o : option Z) : bool :=
  match d with
  | [] => false
  | b :: _ => opt_eqb (Some b) o
  end.

(** the 29-bit identifier test shared by _is_for_me_normal_fixed / _mixed_29bits *)
Definition fixed_id_match (a : addr) (id : Z) : bool :=
  (let hi := Z.land id 0x1FFF0000 in (hi =? phys_base a) || (hi =? func_base a)) &&
  opt_eqb (Some (Z.shiftr (Z.land id 0xFF00) 8)) (a_sa a) &&
  opt_eqb (Some (Z.land id 0xFF)) (a_ta a).

(** is_for_me as bound in Address.__init__ (L196-208), L372-398 *)
Definition is_for_me (a : addr) (f : frame) : bool :=
  if Bool.eqb (is29 (a_mode a)) (f_ext f) then
    match a_mode a with
    | Normal11 | Normal29 => opt_eqb (Some (f_id f)) (a_rxid a)
    | Extended11 | Extended29 =>
        opt_eqb (Some (f_id f)) (a_rxid a) && first_byte_is (f_data f) (a_sa a)
    | NormalFixed29 => fixed_id_match a (f_id f)
    | Mixed11 => opt_eqb (Some (f_id f)) (a_rxid a) && first_byte_is (f_data f) (a_ae a)
    | Mixed29 => fixed_id_match a (f_id f) && first_byte_is (f_data f) (a_ae a)
    end
  else false.

(** Accessors of the layer configuration (Address or AsymmetricAddress). *)
Definition c_tx_prefix (c : cfg) : list Z := tx_prefix (c_txa c).
Definition c_rx_prefix_size (c : cfg) : Z := rx_prefix_size (c_rxa c).
Definition c_tx_id (c : cfg) (t : tat) : Z := tx_arb_id (c_txa c) t.
Definition c_rx_id (c : cfg) (t : tat) : Z := rx_arb_id (c_rxa c) t.
Definition c_tx_ext (c : cfg) : bool := is29 (a_mode (c_txa c)).
Definition c_is_for_me (c : cfg) (f : frame) : bool := is_for_me (c_rxa c) f.
