(** Model of isotp/tpsock/opts.py (GeneralOpts / FlowControlOpts / LinkLayerOpts .write) and of
    isotp/tpsock/__init__.py (socket wrapper: set_* guards, bind, send/recv guards).
    Python arguments are [pyv]: None, an int (bool included), or anything else. *)
From IsoTp Require Export Base.Prelude Model.Types Model.Address Spec.Kernel.

Inductive pyv := VNone | VInt (z : Z) | VOther.

(** `if x is not None: if not isinstance(x, int) or x < 0 or x > hi: raise ValueError`
    [None] = ValueError, [Some None] = argument absent. *)
Definition chk (v : pyv) (hi : Z) : option (option Z) :=
  match v with
  | VNone => Some None
  | VInt z => if (0 <=? z) && (z <=? hi) then Some (Some z) else None
  | VOther => None
  end.

Definition le32 (z : Z) : list Z := [z mod 256; (z / 256) mod 256; (z / 65536) mod 256; (z / 16777216) mod 256].

Definition pack_opts (flags txtime ext txpad rxpad rxext : Z) : list Z :=
  le32 flags ++ le32 txtime ++ [ext; txpad; rxpad; rxext].

(** GeneralOpts.write (opts.py L57-115): read, modify, write. [None] = ValueError raised
    (no setsockopt has been issued at that point). *)
Definition general_write (k : kstate) (optflag frame_txtime ext txpad rxpad rxext txstmin : pyv)
  : option (list sockcall) :=
  match chk optflag 0xFFFFFFFF with None => None | Some oflag =>
  let flags := match oflag with Some f => f | None => k_flags k end in
  match chk frame_txtime 0xFFFFFFFF with None => None | Some otx =>
  let txtime := match otx with Some t => t | None => k_txtime k end in
  match chk ext 0xFF with None => None | Some oext =>
  let '(ext', flags) := match oext with Some e => (e, Z.lor flags F_EXTEND_ADDR) | None => (k_ext k, flags) end in
  match chk txpad 0xFF with None => None | Some otp =>
  let '(txpad', flags) := match otp with Some e => (e, Z.lor flags F_TX_PADDING) | None => (k_txpad k, flags) end in
  match chk rxpad 0xFF with None => None | Some orp =>
  let '(rxpad', flags) := match orp with Some e => (e, Z.lor flags F_RX_PADDING) | None => (k_rxpad k, flags) end in
  match chk rxext 0xFF with None => None | Some ore =>
  let '(rxext', flags) := match ore with Some e => (e, Z.lor flags F_RX_EXT_ADDR) | None => (k_rxext k, flags) end in
  match chk txstmin 0xFFFFFFFF with None => None | Some ost =>
  let '(pre, flags) :=
    match ost with
    | Some v => ([SetOpt SOL_CAN_ISOTP CAN_ISOTP_TX_STMIN (le32 v)], Z.lor flags F_FORCE_TXSTMIN)
    | None => ([], flags)
    end in
  Some (pre ++ [SetOpt SOL_CAN_ISOTP CAN_ISOTP_OPTS (pack_opts flags txtime ext' txpad' rxpad' rxext')])
  end end end end end end end.

(** FlowControlOpts.write (L141-163) *)
Definition fc_write (k : kstate) (bs stmin wftmax : pyv) : option (list sockcall) :=
  match chk bs 0xFF with None => None | Some obs =>
  match chk stmin 0xFF with None => None | Some ost =>
  match chk wftmax 0xFF with None => None | Some ow =>
  Some [SetOpt SOL_CAN_ISOTP CAN_ISOTP_RECV_FC
          [match obs with Some x => x | None => k_bs k end;
           match ost with Some x => x | None => k_stmin k end;
           match ow with Some x => x | None => k_wft k end]]
  end end end.

(** LinkLayerOpts.write (L197-219) *)
Definition ll_write (k : kstate) (mtu txdl flags : pyv) : option (list sockcall) :=
  match chk mtu 0xFF with None => None | Some om =>
  match chk txdl 0xFF with None => None | Some od =>
  match chk flags 0xFF with None => None | Some ofl =>
  Some [SetOpt SOL_CAN_ISOTP CAN_ISOTP_LL_OPTS
          [match om with Some x => x | None => k_mtu k end;
           match od with Some x => x | None => k_txdl k end;
           match ofl with Some x => x | None => k_llflags k end]]
  end end end.

(** The wrapper object: bound / closed flags in front of the kernel socket. *)
Record wsock := { w_k : kstate; w_bound : bool; w_closed : bool }.
Definition wsock0 : wsock := {| w_k := kinit; w_bound := false; w_closed := false |}.

Inductive wres := ROk (calls : list sockcall) | RValueError | RRuntimeError.

Definition apply_res (w : wsock) (r : option (list sockcall)) : wsock * wres :=
  match r with
  | None => (w, RValueError)
  | Some calls => ({| w_k := kapply_all (w_k w) calls; w_bound := w_bound w; w_closed := w_closed w |}, ROk calls)
  end.

(** set_opts / set_fc_opts / set_ll_opts: refused once bound *)
Definition w_set_opts (w : wsock) (a1 a2 a3 a4 a5 a6 a7 : pyv) : wsock * wres :=
  if w_bound w then (w, RRuntimeError) else apply_res w (general_write (w_k w) a1 a2 a3 a4 a5 a6 a7).
Definition w_set_fc_opts (w : wsock) (a1 a2 a3 : pyv) : wsock * wres :=
  if w_bound w then (w, RRuntimeError) else apply_res w (fc_write (w_k w) a1 a2 a3).
Definition w_set_ll_opts (w : wsock) (a1 a2 a3 : pyv) : wsock * wres :=
  if w_bound w then (w, RRuntimeError) else apply_res w (ll_write (w_k w) a1 a2 a3).

Definition opt_pyv (o : option Z) : pyv := match o with Some z => VInt z | None => VNone end.

(** bind(interface, address) (L222-279) for a validated, non partial layer address
    ([txa]/[rxa] as in [cfg]) *)
Definition w_bind (w : wsock) (txa rxa : addr) (asymmetric : bool) : wsock * wres :=
  if asymmetric && negb (Bool.eqb (requires_ext_byte rxa) (requires_ext_byte txa)) then (w, RValueError) else
  let rxid := rx_arb_id rxa Physical in
  let txid := tx_arb_id txa Physical in
  let rxid' := if is29 (a_mode rxa) then Z.lor (Z.land rxid CAN_EFF_MASK) CAN_EFF_FLAG else Z.land rxid CAN_SFF_MASK in
  let txid' := if is29 (a_mode txa) then Z.lor (Z.land txid CAN_EFF_MASK) CAN_EFF_FLAG else Z.land txid CAN_SFF_MASK in
  let k := w_k w in
  let opts :=
    if requires_ext_byte txa || requires_ext_byte rxa then
      let f1 := if requires_ext_byte txa then Z.lor (k_flags k) F_EXTEND_ADDR else k_flags k in
      let f2 := if requires_ext_byte rxa then Z.lor f1 F_RX_EXT_ADDR else f1 in
      Some (w_set_opts w (VInt f2) VNone (opt_pyv (tx_ext_byte txa)) VNone VNone (opt_pyv (rx_ext_byte rxa)) VNone)
    else if has_flag (k_flags k) (Z.lor F_EXTEND_ADDR F_RX_EXT_ADDR) then
      Some (w_set_opts w (VInt (Z.land (k_flags k) (Z.lnot (Z.lor F_EXTEND_ADDR F_RX_EXT_ADDR)))) VNone VNone VNone VNone VNone VNone)
    else None in
  match opts with
  | Some (w1, RValueError) => (w1, RValueError)
  | Some (w1, RRuntimeError) => (w1, RRuntimeError)
  | Some (w1, ROk calls) =>
      ({| w_k := kapply (w_k w1) (Bind rxid' txid'); w_bound := true; w_closed := w_closed w1 |}, ROk (calls ++ [Bind rxid' txid']))
  | None =>
      ({| w_k := kapply k (Bind rxid' txid'); w_bound := true; w_closed := w_closed w |}, ROk [Bind rxid' txid'])
  end.

Definition w_send (w : wsock) : wres := if w_bound w then ROk [] else RRuntimeError.
Definition w_recv (w : wsock) : wres := if w_bound w then ROk [] else RRuntimeError.
Definition w_close (w : wsock) : wsock := {| w_k := w_k w; w_bound := false; w_closed := true |}.
