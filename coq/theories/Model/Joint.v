(** Two layers joined by a reliable in-order link: the frames one side hands to its txfn are, in that
    order, what the other side's rxfn returns.  A joint step is a micro-step of one side (frames emitted
    go to the end of the peer's inbox) or the reception loop of one side taking the oldest frame of its
    inbox (dropped unless is_for_me accepts it, as in process()).  Any interleaving of the two process()
    loops, user calls and clock ticks of either side is a list of joint steps (Proofs/JointP.v,
    [process_joint]). *)
From IsoTp Require Export Model.Micro.

Inductive side := SA | SB.

Record net := { nA : layer; nB : layer; inA : list frame; inB : list frame }.

Inductive jop :=
  | JStep (sd : side) (m : micro)
  | JPop (sd : side).

(** what an observer of the joint run sees *)
Inductive jev :=
  | JE (sd : side) (e : event)        (* an event of one side (error, completion, frame handed to txfn) *)
  | JSent (sd : side) (p : list Z)    (* send() accepted this payload *)
  | JRecv (sd : side) (p : list Z).   (* recv() returned this payload *)

Definition out_frames (evs : list event) : list frame :=
  flat_map (fun e => match e with ETx f => [f] | _ => [] end) evs.

Definition lay (sd : side) (n : net) : layer := match sd with SA => nA n | SB => nB n end.
Definition inbox (sd : side) (n : net) : list frame := match sd with SA => inA n | SB => inB n end.

Definition set_lay (sd : side) (s : layer) (n : net) : net :=
  match sd with
  | SA => {| nA := s; nB := nB n; inA := inA n; inB := inB n |}
  | SB => {| nA := nA n; nB := s; inA := inA n; inB := inB n |}
  end.

Definition set_inbox (sd : side) (l : list frame) (n : net) : net :=
  match sd with
  | SA => {| nA := nA n; nB := nB n; inA := l; inB := inB n |}
  | SB => {| nA := nA n; nB := nB n; inA := inA n; inB := l |}
  end.

Definition other (sd : side) : side := match sd with SA => SB | SB => SA end.

(** frames emitted by [sd] are appended to the inbox of the other side *)
Definition push_out (sd : side) (fs : list frame) (n : net) : net :=
  set_inbox (other sd) (inbox (other sd) n ++ fs) n.

Definition user_obs (sd : side) (c : cfg) (s : layer) (m : micro) : list jev :=
  match m with
  | MSend g size t =>
      match snd (send c s g size t) with SendOk => [JSent sd (ztake size (g_items g))] | SendValueError => [] end
  | MRecv => match snd (recv s) with Some x => [JRecv sd x] | None => [] end
  | _ => []
  end.

Section Joint.
Variables ca cb : cfg.

Definition cfg_of (sd : side) : cfg := match sd with SA => ca | SB => cb end.

Definition jstep (n : net) (o : jop) : net * list jev :=
  match o with
  | JStep sd m =>
      let c := cfg_of sd in
      let '(s', evs) := mstep c (lay sd n) m in
      (push_out sd (out_frames evs) (set_lay sd s' n), map (JE sd) evs ++ user_obs sd c (lay sd n) m)
  | JPop sd =>
      let c := cfg_of sd in
      match inbox sd n with
      | [] => (n, [])
      | f :: rest =>
          if c_is_for_me c f then
            let '(s', evs) := mstep c (lay sd n) (MRx f) in
            (set_lay sd s' (set_inbox sd rest n), map (JE sd) evs)
          else (set_inbox sd rest n, [])
      end
  end.

Fixpoint jrun (n : net) (ops : list jop) : net * list jev :=
  match ops with
  | [] => (n, [])
  | o :: rest =>
      let '(n1, e1) := jstep n o in
      let '(n2, e2) := jrun n1 rest in
      (n2, e1 ++ e2)
  end.

(** the calls a user of the two layers makes: process() on one side (its rxfn returns the frames in
    flight toward it, oldest first; what it hands to txfn goes in flight toward the peer), send(),
    recv(), and the passing of time *)
Inductive call :=
  | CProcess (sd : side) (fuel : nat) (do_rx do_tx : bool)
  | CSend (sd : side) (g : gen) (size : Z) (t : option tat)
  | CRecv (sd : side)
  | CTick (sd : side) (d : Z).

Definition cstep (n : net) (cl : call) : net * list jev :=
  match cl with
  | CProcess sd fuel do_rx do_tx =>
      let r := process fuel (cfg_of sd) do_rx do_tx {| w_l := lay sd n; w_inbox := inbox sd n |} in
      let w := fst (fst (fst r)) in
      let evs := snd (fst (fst r)) in
      (push_out sd (out_frames evs) (set_lay sd (w_l w) (set_inbox sd (w_inbox w) n)), map (JE sd) evs)
  | CSend sd g size t => jstep n (JStep sd (MSend g size t))
  | CRecv sd => jstep n (JStep sd MRecv)
  | CTick sd d => jstep n (JStep sd (MTick d))
  end.

Fixpoint crun (n : net) (cls : list call) : net * list jev :=
  match cls with
  | [] => (n, [])
  | cl :: rest =>
      let '(n1, e1) := cstep n cl in
      let '(n2, e2) := crun n1 rest in
      (n2, e1 ++ e2)
  end.

Definition init_net (ta tb : Z) : net :=
  {| nA := init_layer ca ta; nB := init_layer cb tb; inA := []; inB := [] |}.

End Joint.

(** observations *)
Definition side_eqb (a b : side) : bool := match a, b with SA, SA | SB, SB => true | _, _ => false end.

Definition sent_of (sd : side) (tr : list jev) : list (list Z) :=
  flat_map (fun e => match e with JSent x p => if side_eqb x sd then [p] else [] | _ => [] end) tr.
Definition recv_of (sd : side) (tr : list jev) : list (list Z) :=
  flat_map (fun e => match e with JRecv x p => if side_eqb x sd then [p] else [] | _ => [] end) tr.
Definition jev_err (e : jev) : bool :=
  match e with JE _ (EErr _) | JE _ (ECrash _) => true | _ => false end.
Definition jerr (tr : list jev) : bool := existsb jev_err tr.
