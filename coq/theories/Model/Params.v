(** Model of TransportLayerLogic.Params.validate (protocol.py L380-498) on Python values.
    [true] = returns normally, [false] = raises ValueError.  logger_name / wait_func are not
    modelled (always the valid defaults). Floats are exact rationals or non-finite. *)
From Coq Require Import QArith.
From IsoTp Require Export Base.Prelude Model.Types.

Inductive pv := PNone | PInt (z : Z) | PBool (b : bool) | PFloat (q : Q) | PNonFinite | PStr | POther.

Definition is_int (v : pv) : bool := match v with PInt _ | PBool _ => true | _ => false end.
Definition is_bool (v : pv) : bool := match v with PBool _ => true | _ => false end.
Definition int_val (v : pv) : Z := match v with PInt z => z | PBool b => if b then 1 else 0 | _ => 0 end.

Record pparams := {
  q_stmin : pv; q_blocksize : pv; q_override : pv; q_tbs : pv; q_tcr : pv; q_padding : pv; q_wftmax : pv;
  q_tx_dl : pv; q_min_len : pv; q_max_frame_size : pv; q_can_fd : pv; q_brs : pv; q_tat : pv;
  q_bitrate : pv; q_window : pv; q_lim_enable : pv; q_listen : pv; q_blocking : pv }.

Definition in_range (v : pv) (lo hi : Z) : bool := is_int v && (lo <=? int_val v) && (int_val v <=? hi).
Definition int_ge (v : pv) (lo : Z) : bool := is_int v && (lo <=? int_val v).

Definition LLS : list Z := [8; 12; 16; 20; 24; 32; 48; 64].
Definition MLS : list Z := [1; 2; 3; 4; 5; 6; 7; 8; 12; 16; 20; 24; 32; 48; 64].

(** numeric value of an int-or-float *)
Definition num_val (v : pv) : option Q :=
  match v with PInt z => Some (inject_Z z) | PBool b => Some (inject_Z (if b then 1 else 0)) | PFloat q => Some q | _ => None end.

Definition padding_ok (v : pv) : bool := match v with PNone => true | _ => in_range v 0 255 end.
Definition override_ok (v : pv) : bool :=
  match v with
  | PNone => true
  | PInt z => 0 <=? z
  | PFloat q => Qle_bool 0 q
  | _ => false          (* bool, non finite, other types *)
  end.
Definition minlen_ok (v : pv) (dl : Z) : bool :=
  match v with PNone => true | _ => is_int v && zmem (int_val v) MLS && (int_val v <=? dl) end.
Definition window_ok (v : pv) (dl br : Z) : bool :=
  match v with
  | PFloat q => negb (Qle_bool q 0) && Qle_bool (inject_Z (dl * 8)) (inject_Z br * q)
  | PInt _ | PBool _ => (0 <? int_val v) && (dl * 8 <=? br * int_val v)
  | _ => false
  end.

Definition validate (p : pparams) : bool :=
  int_ge (q_tbs p) 0 && int_ge (q_tcr p) 0 &&
  padding_ok (q_padding p) &&
  in_range (q_stmin p) 0 255 && in_range (q_blocksize p) 0 255 &&
  override_ok (q_override p) &&
  int_ge (q_wftmax p) 0 &&
  (is_int (q_tx_dl p) && zmem (int_val (q_tx_dl p)) LLS) &&
  minlen_ok (q_min_len p) (int_val (q_tx_dl p)) &&
  int_ge (q_max_frame_size p) 0 &&
  is_bool (q_can_fd p) && is_bool (q_brs p) &&
  (is_int (q_tat p) && ((int_val (q_tat p) =? 0) || (int_val (q_tat p) =? 1))) &&
  (is_int (q_bitrate p) && (0 <? int_val (q_bitrate p))) &&
  window_ok (q_window p) (int_val (q_tx_dl p)) (int_val (q_bitrate p)) &&
  is_bool (q_lim_enable p) && is_bool (q_listen p) && is_bool (q_blocking p).
