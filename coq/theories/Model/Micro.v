(** The atomic actions process() and the user calls are made of. Invariants proved for every
    sequence of micro-steps hold for every sequence of process() / process(do_rx=False) /
    process(do_tx=False) calls, user calls and clock ticks (Proofs/MicroP.v). *)
From IsoTp Require Export Model.Layer.

Inductive micro :=
  | MCheck                       (* _check_timeouts_rx *)
  | MRx (f : frame)              (* _process_rx on a frame that passed is_for_me *)
  | MLim                         (* rate_limiter.update() *)
  | MTx                          (* one _process_tx pass; its message (if any) goes to txfn *)
  | MSend (g : gen) (size : Z) (t : option tat)
  | MRecv
  | MStopSending | MStopReceiving | MReset
  | MTick (d : Z).

Definition tx_events (r : tx_report) : list event :=
  tr_evs r ++ (if tr_crash r then [] else match tr_msg r with Some m => [ETx m] | None => [] end).

Definition mstep (c : cfg) (s : layer) (m : micro) : layer * list event :=
  match m with
  | MCheck => check_timeouts_rx s
  | MRx f => let r := process_rx c s f in (rr_s r, rr_evs r)
  | MLim => (lim_update (c_p c) s, [])
  | MTx => let r := process_tx c s in (tr_s r, tx_events r)
  | MSend g size t => (fst (send c s g size t), [])
  | MRecv => (fst (recv s), [])
  | MStopSending => stop_sending false s
  | MStopReceiving => (stop_receiving s, [])
  | MReset => reset c s
  | MTick d => (tick d s, [])
  end.

Fixpoint mrun (c : cfg) (s : layer) (ms : list micro) : layer * list event :=
  match ms with
  | [] => (s, [])
  | m :: rest =>
      let '(s1, e1) := mstep c s m in
      let '(s2, e2) := mrun c s1 rest in
      (s2, e1 ++ e2)
  end.

(** Steps the reception loop may take on its inbox. *)
Definition rx_micro (c : cfg) (m : micro) : Prop :=
  m = MCheck \/ exists f, m = MRx f /\ c_is_for_me c f = true.

(** Steps one process() call may take. *)
Definition proc_micro (c : cfg) (m : micro) : Prop :=
  rx_micro c m \/ m = MLim \/ m = MTx.
