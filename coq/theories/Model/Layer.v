(** Model of isotp/protocol.py: TransportLayerLogic (state machines, process
    loop, user calls), RateLimiter, and of isotp/tools.py: Timer,
    FiniteByteGenerator.  Function by function, on the repaired code. *)
From IsoTp Require Export Model.Pdu Model.Frames.

(** ** tools.Timer on the virtual clock *)
Definition new_timer (timeout : Z) : timer := {| t_start := None; t_timeout := timeout |}.
Definition timer_stop (t : timer) : timer := t <| t_start := None |>.
Definition timer_start (nw : Z) (t : timer) : timer := t <| t_start := Some nw |>.
Definition timer_running (t : timer) : bool := match t_start t with None => false | Some _ => true end.
Definition timer_timed_out (nw : Z) (t : timer) : bool :=
  match t_start t with
  | None => false
  | Some s => (t_timeout t <? nw - s) || (t_timeout t =? 0)
  end.
Definition timer_remaining (nw : Z) (t : timer) : Z :=
  match t_start t with
  | None => 0
  | Some s => Z.max 0 (t_timeout t - (nw - s))
  end.

(** STmin byte -> nanoseconds held by timer_tx_stmin after set_timeout(stmin_sec)
    (FloatTables.v proves this equals int((b/1000)*1e9) resp. int(((b-0xF0)/10000)*1e9)). *)
Definition stmin_ns (b : Z) : Z :=
  if (0 <=? b) && (b <=? 0x7F) then b * 1000000
  else if (0xF1 <=? b) && (b <=? 0xF9) then (b - 0xF0) * 100000
  else 0.

(** ** tools.FiniteByteGenerator *)
Definition gen_take (n : Z) (g : gen) : list Z * gen :=
  let k := Z.to_nat n in
  let have := firstn k (g_items g) in
  let rest := skipn k (g_items g) in
  match g_fill g with
  | Some b => (have ++ repeat b (k - length have), {| g_items := rest; g_fill := Some b |})
  | None => (have, {| g_items := rest; g_fill := None |})
  end.

Definition r_remaining (r : request) : Z := r_size r - r_consumed r.
Definition r_is_depleted (r : request) : bool := (r_remaining r <=? 0) || r_depleted r.

(** consume(size, enforce_exact): [None] = BadGeneratorError raised (the request
    state is updated in both cases, as in Python). *)
Definition consume (size : Z) (exact : bool) (r : request) : option (list Z) * request :=
  let '(data, g') := gen_take size (r_gen r) in
  let r1 := r <| r_gen := g' |> <| r_consumed := r_consumed r + zlen data |> in
  if r_size r1 <? r_consumed r1 then (None, r1)
  else if zlen data <? size then
    let r2 := r1 <| r_depleted := true |> in
    if exact then (None, r2) else (Some data, r2)
  else (Some data, r1).

(** ** RateLimiter (budget as an exact rational bn/bd bits per window) *)
Definition NO_LIMIT := 0xFFFFFFFF.
Definition SLOT_NS := 5000000.

Definition lim_allowed_bytes (p : params) (s : layer) : Z :=
  if negb (p_lim_enable p) then NO_LIMIT
  else
    let num := p_lim_bn p - lim_total s * p_lim_bd p in
    if num <=? 0 then 0 else num / (8 * p_lim_bd p).

Fixpoint lim_pop (nw window : Z) (times bits : list Z) (total : Z) : list Z * list Z * Z :=
  match times, bits with
  | t2 :: ts, b :: bs =>
      if window <? nw - t2 then lim_pop nw window ts bs (total - b)
      else (times, bits, total)
  | _, _ => (times, bits, total)
  end.

Definition lim_reset (s : layer) : layer :=
  s <| lim_times := [] |> <| lim_bits := [] |> <| lim_total := 0 |>.

Definition lim_update (p : params) (s : layer) : layer :=
  if negb (p_lim_enable p) then lim_reset s
  else
    let '(ts, bs, tot) := lim_pop (now s) (p_lim_window_ns p) (lim_times s) (lim_bits s) (lim_total s) in
    s <| lim_times := ts |> <| lim_bits := bs |> <| lim_total := tot |>.

Fixpoint add_last (l : list Z) (x : Z) : list Z :=
  match l with
  | [] => []
  | [y] => [y + x]
  | y :: r => y :: add_last r x
  end.

Definition lim_inform (p : params) (datalen : Z) (s : layer) : layer :=
  if negb (p_lim_enable p) then s
  else
    let bits := datalen * 8 in
    let s1 := s <| lim_total := lim_total s + bits |> in
    match lim_times s with
    | [] => s1 <| lim_times := [now s] |> <| lim_bits := [bits] |>
    | _ =>
        if SLOT_NS <? now s - last (lim_times s) 0 then
          s1 <| lim_times := lim_times s ++ [now s] |> <| lim_bits := lim_bits s ++ [bits] |>
        else s1 <| lim_bits := add_last (lim_bits s) bits |>
    end.

(** ** Initial state (TransportLayerLogic.__init__ + load_params) *)
Definition init_layer (c : cfg) (t0 : Z) : layer :=
  {| now := t0;
     rx_state := RxIdle; rx_buffer := []; rx_frame_length := 0; last_seqnum := 0;
     rx_block_counter := 0; actual_rxdl := None;
     pending_fc := false; pending_fc_status := None;
     timer_rx_cf := new_timer (p_tcr_ns (c_p c)); rx_queue := [];
     tx_state := TxIdle; tx_queue := []; active := None; tx_standby := None;
     last_fc := None; remote_bs := None; tx_block_counter := 0; tx_seqnum := 0;
     wft_counter := 0; tx_frame_length := 0;
     timer_rx_fc := new_timer (p_tbs_ns (c_p c)); timer_tx_stmin := new_timer 0;
     lim_times := []; lim_bits := []; lim_total := 0;
     next_req_id := 0 |}.

(** ** Helpers shared by the two state machines *)
Definition start_rx_fc_timer (c : cfg) (s : layer) : layer :=
  s <| timer_rx_fc := timer_start (now s) (new_timer (p_tbs_ns (c_p c))) |>.

Definition start_rx_cf_timer (c : cfg) (s : layer) : layer :=
  s <| timer_rx_cf := timer_start (now s) (new_timer (p_tcr_ns (c_p c))) |>.

Definition request_tx_fc (status : Z) (s : layer) : layer :=
  s <| pending_fc := true |> <| pending_fc_status := Some status |>.

(** _stop_sending_flow_control *)
Definition stop_sending_fc (s : layer) : layer :=
  s <| pending_fc := false |> <| last_fc := None |>.

(** _stop_receiving (L1344-1350) *)
Definition stop_receiving (s : layer) : layer :=
  (stop_sending_fc (s <| actual_rxdl := None |> <| rx_state := RxIdle |> <| rx_buffer := [] |>))
    <| timer_rx_cf ::= timer_stop |>.

(** _stop_sending(success) (L1323-1335) *)
Definition stop_sending (success : bool) (s : layer) : layer * list event :=
  let evs := match active s with Some r => [EDone (r_id r) success] | None => [] end in
  (s <| active := None |> <| tx_state := TxIdle |> <| tx_frame_length := 0 |>
     <| timer_rx_fc ::= timer_stop |> <| timer_tx_stmin ::= timer_stop |>
     <| remote_bs := None |> <| tx_block_counter := 0 |> <| tx_seqnum := 0 |>
     <| wft_counter := 0 |> <| tx_standby := None |>, evs).

(** ** Reception *)

(** _check_timeouts_rx (L887-890) *)
Definition check_timeouts_rx (s : layer) : layer * list event :=
  if timer_timed_out (now s) (timer_rx_cf s)
  then (stop_receiving s, [EErr ConsecutiveFrameTimeout])
  else (s, []).

Definition valid_rxdl (x : Z) : bool := zmem x [8; 12; 16; 20; 24; 32; 48; 64].

(** _start_reception_after_first_frame_if_valid (L1361-1389) *)
Definition start_reception_after_ff (c : cfg) (s : layer) (len : Z) (data : list Z) (rx_dl : Z)
  : layer * list event * bool :=
  let s1 := s <| rx_buffer := [] |> in
  if negb (valid_rxdl rx_dl) then
    (stop_receiving s1, [EErr InvalidCanFdFirstFrameRXDL], false)
  else
    let s2 := s1 <| actual_rxdl := Some rx_dl |> in
    let '(s3, evs, started) :=
      if p_max_frame_size (c_p c) <? len then
        ((request_tx_fc FS_OVFLW s2) <| rx_state := RxIdle |> <| timer_rx_cf ::= timer_stop |>,
         [EErr FrameTooLong], false)
      else
        (start_rx_cf_timer c
           (request_tx_fc FS_CTS
              (s2 <| rx_state := RxWaitCF |> <| rx_frame_length := len |> <| rx_buffer := data |>)),
         [], true) in
    (s3 <| last_seqnum := 0 |> <| rx_block_counter := 0 |>, evs, started).

Record rx_report := { rr_s : layer; rr_evs : list event; rr_imm_tx : bool; rr_frame : bool }.

Definition mk_rr s evs imm fr := {| rr_s := s; rr_evs := evs; rr_imm_tx := imm; rr_frame := fr |}.

(** _process_rx (L892-981) *)
Definition process_rx (c : cfg) (s : layer) (f : frame) : rx_report :=
  match pdu_decode (f_data f) (c_rx_prefix_size c) with
  | None => mk_rr (stop_receiving s) [EErr InvalidCanData] false false
  | Some d =>
    match d_pdu d with
    | PFC fs bs st =>
        mk_rr (s <| last_fc := Some {| fc_status := fs; fc_bs := bs; fc_stmin := st |} |>) [] true false
    | p =>
      let missing_escape :=
        match p with PSF esc _ _ => (8 <? d_can_dl d) && negb esc | _ => false end in
      if missing_escape then mk_rr s [EErr MissingEscapeSequence] false false else
      let fin (s' : layer) evs imm fr := mk_rr s' evs (imm || pending_fc s') fr in
      match rx_state s with
      | RxIdle =>
          let s1 := s <| rx_frame_length := 0 |> <| timer_rx_cf ::= timer_stop |> in
          match p with
          | PSF _ _ data => fin (s1 <| rx_queue := rx_queue s1 ++ [data] |>) [] false true
          | PFF _ len data =>
              let '(s2, evs, started) := start_reception_after_ff c s1 len data (d_rx_dl d) in
              fin s2 evs started false
          | PCF _ _ => fin s1 [EErr UnexpectedConsecutiveFrame] false false
          | PFC _ _ _ => fin s1 [] false false
          end
      | RxWaitCF =>
          match p with
          | PSF _ _ data =>
              fin (stop_receiving (s <| rx_queue := rx_queue s ++ [data] |>)) [EErr InterruptedWithSF] false true
          | PFF _ len data =>
              let '(s2, evs, started) := start_reception_after_ff c s len data (d_rx_dl d) in
              fin s2 (evs ++ [EErr InterruptedWithFF]) started false
          | PCF sn data =>
              let expected := Z.land (last_seqnum s + 1) 0xF in
              if sn =? expected then
                let to_receive := rx_frame_length s - zlen (rx_buffer s) in
                if negb (opt_eqb (Some (d_rx_dl d)) (actual_rxdl s)) && (d_rx_dl d <? to_receive) then
                  mk_rr s [EErr ChangingInvalidRXDL] false false
                else
                  let s1 := (start_rx_cf_timer c s) <| last_seqnum := sn |>
                              <| rx_buffer := rx_buffer s ++ ztake to_receive data |> in
                  if rx_frame_length s1 <=? zlen (rx_buffer s1) then
                    fin (stop_receiving (s1 <| rx_queue := rx_queue s1 ++ [rx_buffer s1] |>)) [] false true
                  else
                    let s2 := s1 <| rx_block_counter := rx_block_counter s1 + 1 |> in
                    if (0 <? p_blocksize (c_p c)) && (rx_block_counter s2 mod p_blocksize (c_p c) =? 0) then
                      fin ((request_tx_fc FS_CTS s2) <| timer_rx_cf ::= timer_stop |>) [] true false
                    else fin s2 [] false false
              else
                fin (stop_receiving s) [EErr WrongSequenceNumber] false false
          | PFC _ _ _ => fin s [] false false
          end
      end
    end
  end.

(** ** Transmission *)

Record tx_report := {
  tr_s : layer; tr_evs : list event; tr_msg : option frame; tr_imm_rx : bool; tr_crash : bool }.

Definition mk_tr s evs msg imm := {| tr_s := s; tr_evs := evs; tr_msg := msg; tr_imm_rx := imm; tr_crash := false |}.
Definition mk_crash s evs site :=
  {| tr_s := s; tr_evs := evs ++ [ECrash site]; tr_msg := None; tr_imm_rx := false; tr_crash := true |}.

Definition sf_on_first_byte (c : cfg) (remaining : Z) : bool :=
  (remaining + zlen (c_tx_prefix c) <=? 7) &&
  negb (match p_tx_min_len (c_p c) with Some m => 8 <? m | None => false end).

(** Result of trying to start the transmission of request [r] (idle branch, L1067-1119). *)
Inductive start_result :=
  | SRCrash (site : Z)
  | SRDone (s : layer) (evs : list event) (out : option frame).

Definition start_request (c : cfg) (s : layer) (r : request) (allowed : Z) : start_result :=
  let pfx := c_tx_prefix c in
  let plen := zlen pfx in
  let on_first := sf_on_first_byte c (r_remaining r) in
  let size_offset := if on_first then 1 else 2 in
  let total := r_size r in
  let tx_dl := p_tx_dl (c_p c) in
  let bad (r' : request) (s' : layer) :=
    let '(s2, evs) := stop_sending false (s' <| active := Some r' |>) in
    SRDone s2 (EErr BadGenerator :: evs) None in
  if total <=? tx_dl - size_offset - plen then
    (* Single frame *)
    match consume total true r with
    | (None, r') => bad r' s
    | (Some payload, r') =>
        let s1 := s <| active := Some r' |> in
        let msg_data := pfx ++ (if on_first then [Z.lor 0 (zlen payload)] else [0; zlen payload]) ++ payload in
        match make_tx_msg c (c_tx_id c (r_tat r')) msg_data with
        | None => SRCrash 1
        | Some m =>
            if allowed <? zlen msg_data then
              SRDone (s1 <| tx_standby := Some m |> <| tx_state := TxSFStandby |>) [] None
            else
              let '(s2, evs) := stop_sending true s1 in SRDone s2 evs (Some m)
        end
    end
  else
    (* First frame *)
    let s0 := s <| tx_frame_length := total |> in
    let short := total <=? 0xFFF in
    let data_length := if short then tx_dl - 2 - plen else tx_dl - 6 - plen in
    match consume data_length true r with
    | (None, r') => bad r' s0
    | (Some payload, r') =>
        let hdr :=
          if short then [Z.lor 0x10 (Z.land (Z.shiftr total 8) 0xF); Z.land total 0xFF]
          else [0x10; 0x00; Z.land (Z.shiftr total 24) 0xFF; Z.land (Z.shiftr total 16) 0xFF;
                Z.land (Z.shiftr total 8) 0xFF; Z.land (Z.shiftr total 0) 0xFF] in
        let msg_data := pfx ++ hdr ++ payload in
        let s1 := s0 <| active := Some r' |> <| tx_seqnum := 1 |> in
        match make_tx_msg c (c_tx_id c Physical) msg_data with
        | None => SRCrash 2
        | Some m =>
            if zlen msg_data <=? allowed then
              SRDone (start_rx_fc_timer c (s1 <| tx_state := TxWaitFC |>)) [] (Some m)
            else
              SRDone (s1 <| tx_standby := Some m |> <| tx_state := TxFFStandby |>) [] None
        end
    end.

(** The `while read_tx_queue` loop of the idle branch (L1058-1119), by recursion
    on the transmit queue. *)
Fixpoint idle_dequeue (c : cfg) (q : list request) (s : layer) (evs : list event) (allowed : Z)
  : start_result :=
  match q with
  | [] => SRDone (s <| tx_queue := [] |>) evs None
  | r :: rest =>
      if r_is_depleted r then
        idle_dequeue c rest (s <| active := None |>) (evs ++ [EDone (r_id r) true]) allowed
      else
        match start_request c (s <| tx_queue := rest |> <| active := Some r |>) r allowed with
        | SRCrash site => SRCrash site
        | SRDone s' evs' out => SRDone s' (evs ++ evs') out
        end
  end.

(** Flow Control handling part of _process_tx (L1003-1042), for a transmitter that is
    waiting for a flow control or transmitting consecutive frames. *)
Definition handle_fc_active (c : cfg) (s : layer) (fc : fcpdu) : layer * list event :=
  let p := c_p c in
  if fc_status fc =? FS_WAIT then
    if p_wftmax p =? 0 then (s, [EErr UnsupportedWaitFrame])
    else if timer_timed_out (now s) (timer_rx_fc s) then (s, [])
    else if p_wftmax p <=? wft_counter s then
      let '(s1, evs) := stop_sending false s in (s1, EErr MaximumWaitFrameReached :: evs)
    else
      (start_rx_fc_timer c (s <| wft_counter := wft_counter s + 1 |> <| tx_state := TxWaitFC |>), [])
  else if (fc_status fc =? FS_CTS) && negb (timer_timed_out (now s) (timer_rx_fc s)) then
    let st := match p_override_stmin_ns p with Some o => o | None => stmin_ns (fc_stmin fc) end in
    let s1 := s <| wft_counter := 0 |> <| timer_rx_fc ::= timer_stop |>
                <| timer_tx_stmin ::= (fun t => t <| t_timeout := st |>) |>
                <| remote_bs := Some (fc_bs fc) |> in
    let s2 := match tx_state s1 with
              | TxWaitFC => s1 <| tx_block_counter := 0 |> <| timer_tx_stmin ::= timer_start (now s1) |>
              | _ => s1
              end in
    (s2 <| tx_state := TxTransmitCF |>, [])
  else (s, []).

(** [true] = the Overflow early return of _process_tx. *)
Definition handle_fc (c : cfg) (s : layer) (fc : fcpdu) : bool * (layer * list event) :=
  if fc_status fc =? FS_OVFLW then
    let '(s1, evs) := stop_sending false s in
    (true, (s1, evs ++ [EErr OverflowErr]))
  else
    (false,
     match tx_state s with
     | TxIdle | TxSFStandby | TxFFStandby => (s, [EErr UnexpectedFlowControl])
     | _ => handle_fc_active c s fc
     end).

(** Flow control reception, timeouts and completion check of _process_tx (L999-1054).
    [inl r]: _process_tx returns early with report [r]. *)
Definition tx_after_fc (c : cfg) (s : layer) : tx_report + (layer * list event) :=
  let fc := last_fc s in
  let s := s <| last_fc := None |> in
  let after_fc :=
    match fc with
    | None => (false, (s, []))
    | Some f => handle_fc c s f
    end in
  match after_fc with
  | (true, (s1, evs)) => inl (mk_tr s1 evs None false)
  | (false, (s1, evs1)) =>
    (* timeouts *)
    let '(s2, evs2) :=
      if timer_timed_out (now s1) (timer_rx_fc s1) then
        let '(s', e) := stop_sending false s1 in (s', EErr FlowControlTimeout :: e)
      else (s1, []) in
    (* completion check *)
    match tx_state s2 with
    | TxIdle => inr (s2, evs1 ++ evs2)
    | _ =>
      match active s2 with
      | None => inl (mk_crash s2 (evs1 ++ evs2) 5)
      | Some r =>
          if r_is_depleted r && (match tx_standby s2 with None => true | Some _ => false end)
          then let '(s3, evs3) := stop_sending true s2 in inr (s3, evs1 ++ evs2 ++ evs3)
          else inr (s2, evs1 ++ evs2)
      end
    end
  end.

Definition tx_finish (p : params) (s' : layer) (evs' : list event) (out : option frame) (imm : bool) : tx_report :=
  match out with
  | Some m => mk_tr (lim_inform p (zlen (f_data m)) s') evs' out imm
  | None => mk_tr s' evs' None imm
  end.

(** TRANSMIT_CF branch (L1140-1168) *)
Definition tx_cf (c : cfg) (allowed : Z) (s3 : layer) (evs : list event) : tx_report :=
  let p := c_p c in
  match remote_bs s3, active s3 with
  | Some rbs, Some r =>
      if timer_timed_out (now s3) (timer_tx_stmin s3) then
        let data_length := p_tx_dl p - 1 - zlen (c_tx_prefix c) in
        let payload_length := Z.min data_length (r_remaining r) in
        if payload_length <=? allowed then
          match consume payload_length false r with
          | (None, _) => mk_crash s3 evs 6
          | (Some payload, r') =>
              let s4 := s3 <| active := Some r' |> in
              let emit :=
                if 0 <? zlen payload then
                  match make_tx_msg c (c_tx_id c Physical)
                          (c_tx_prefix c ++ [Z.lor 0x20 (tx_seqnum s4)] ++ payload) with
                  | None => None
                  | Some m =>
                      Some (s4 <| tx_seqnum := Z.land (tx_seqnum s4 + 1) 0xF |>
                               <| timer_tx_stmin ::= timer_start (now s4) |>
                               <| tx_block_counter := tx_block_counter s4 + 1 |>, Some m)
                  end
                else Some (s4, None) in
              match emit with
              | None => mk_crash s4 evs 7
              | Some (s5, out) =>
                  if r_is_depleted r' then
                    if 0 <? r_remaining r' then
                      let '(s6, e6) := stop_sending false s5 in
                      tx_finish p s6 (evs ++ EErr BadGenerator :: e6) out false
                    else
                      let '(s6, e6) := stop_sending true s5 in
                      tx_finish p s6 (evs ++ e6) out false
                  else if negb (rbs =? 0) && (rbs <=? tx_block_counter s5) then
                    tx_finish p (start_rx_fc_timer c (s5 <| tx_state := TxWaitFC |>)) evs out true
                  else tx_finish p s5 evs out false
              end
          end
        else tx_finish p s3 evs None false
      else tx_finish p s3 evs None false
  | _, _ => mk_crash s3 evs 8
  end.

(** The state machine part of _process_tx (L1056-1173) *)
Definition tx_fsm (c : cfg) (allowed : Z) (s3 : layer) (evs : list event) : tx_report :=
  let p := c_p c in
  match tx_state s3 with
  | TxIdle =>
      match idle_dequeue c (tx_queue s3) s3 [] allowed with
      | SRCrash site => mk_crash s3 evs site
      | SRDone s4 evs4 out => tx_finish p s4 (evs ++ evs4) out false
      end
  | TxSFStandby | TxFFStandby =>
      match tx_standby s3 with
      | Some m =>
          if zlen (f_data m) <=? allowed then
            let s4 := s3 <| tx_standby := None |> in
            match tx_state s3 with
            | TxFFStandby => tx_finish p (start_rx_fc_timer c s4 <| tx_state := TxWaitFC |>) evs (Some m) false
            | _ => let '(s5, evs5) := stop_sending true s4 in tx_finish p s5 (evs ++ evs5) (Some m) false
            end
          else tx_finish p s3 evs None false
      | None => tx_finish p s3 evs None false
      end
  | TxWaitFC => tx_finish p s3 evs None false
  | TxTransmitCF => tx_cf c allowed s3 evs
  end.

(** _process_tx after the pending Flow Control part (L999-1173). [allowed] is
    rate_limiter.allowed_bytes() read at the top of _process_tx. *)
Definition process_tx_main (c : cfg) (allowed : Z) (s : layer) : tx_report :=
  match tx_after_fc c s with
  | inl r => r
  | inr (s3, evs) => tx_fsm c allowed s3 evs
  end.

(** _process_tx (L983-1173) *)
Definition process_tx (c : cfg) (s0 : layer) : tx_report :=
  let p := c_p c in
  let allowed := lim_allowed_bytes p s0 in
  (* pending flow control *)
  let pend :=
    if pending_fc s0 then
      let s1 := s0 <| pending_fc := false |> in
      let s2 := if opt_eqb (pending_fc_status s1) (Some FS_CTS) then start_rx_cf_timer c s1 else s1 in
      if negb (p_listen p) then
        match pending_fc_status s2 with
        | None => inl (mk_crash s2 [] 3)
        | Some st =>
            match make_flow_control c st with
            | None => inl (mk_crash s2 [] 4)
            | Some m => inl (mk_tr s2 [] (Some m) true)
            end
        end
      else inr s2
    else inr s0 in
  match pend with
  | inl r => r
  | inr s => process_tx_main c allowed s
  end.

(** ** process() (L783-877) *)

Record stats := { st_received : Z; st_processed : Z; st_sent : Z; st_frames : Z }.
Definition stats0 := {| st_received := 0; st_processed := 0; st_sent := 0; st_frames := 0 |}.

(** The layer together with the frames its rxfn will return, oldest first. *)
Record world := { w_l : layer; w_inbox : list frame }.

(** inner reception loop: consumes the inbox until it is empty (rxfn returns
    None) or _process_rx asks for an immediate transmit pass. *)
Fixpoint rx_loop (c : cfg) (inbox : list frame) (s : layer) (evs : list event) (st : stats)
  : list frame * layer * list event * stats :=
  match inbox with
  | [] =>
      let '(s1, e1) := check_timeouts_rx s in ([], s1, evs ++ e1, st)
  | m :: rest =>
      let '(s1, e1) := check_timeouts_rx s in
      let st1 := {| st_received := st_received st + 1; st_processed := st_processed st;
                    st_sent := st_sent st; st_frames := st_frames st |} in
      if c_is_for_me c m then
        let r := process_rx c s1 m in
        let st2 := {| st_received := st_received st1; st_processed := st_processed st1 + 1;
                      st_sent := st_sent st1;
                      st_frames := st_frames st1 + (if rr_frame r then 1 else 0) |} in
        if rr_imm_tx r then (rest, rr_s r, evs ++ e1 ++ rr_evs r, st2)
        else rx_loop c rest (rr_s r) (evs ++ e1 ++ rr_evs r) st2
      else rx_loop c rest s1 (evs ++ e1) st1
  end.

Inductive loop_end := LEnd | LRunAgain | LCrash | LOutOfFuel.

(** inner transmission loop *)
Fixpoint tx_loop (fuel : nat) (c : cfg) (s : layer) (evs : list event) (st : stats)
  : layer * list event * stats * loop_end :=
  match fuel with
  | O => (s, evs, st, LOutOfFuel)
  | S fuel' =>
      let r := process_tx c s in
      if tr_crash r then (tr_s r, evs ++ tr_evs r, st, LCrash) else
      let '(evs1, st1) :=
        match tr_msg r with
        | Some m => (evs ++ tr_evs r ++ [ETx m],
                     {| st_received := st_received st; st_processed := st_processed st;
                        st_sent := st_sent st + 1; st_frames := st_frames st |})
        | None => (evs ++ tr_evs r, st)
        end in
      if tr_imm_rx r then (tr_s r, evs1, st1, LRunAgain)
      else match tr_msg r with
           | Some _ => tx_loop fuel' c (tr_s r) evs1 st1
           | None => (tr_s r, evs1, st1, LEnd)
           end
  end.

Definition is_nil {A} (l : list A) : bool := match l with [] => true | _ => false end.

Fixpoint process_loop (fuel : nat) (c : cfg) (do_rx do_tx : bool) (w : world)
  (evs : list event) (st : stats) : world * list event * stats * loop_end :=
  match fuel with
  | O => (w, evs, st, LOutOfFuel)
  | S fuel' =>
      let s := w_l w in
      let start_with_tx :=
        do_tx && negb (is_nil (tx_queue s)) && rxst_eqb (rx_state s) RxIdle && txst_eqb (tx_state s) TxIdle in
      let '(inbox1, s1, evs1, st1) :=
        if do_rx && negb start_with_tx then rx_loop c (w_inbox w) s evs st
        else (w_inbox w, s, evs, st) in
      let s2 := lim_update (c_p c) s1 in
      let '(s3, evs3, st3, e) :=
        if do_tx then tx_loop fuel' c s2 evs1 st1 else (s2, evs1, st1, LEnd) in
      let w3 := {| w_l := s3; w_inbox := inbox1 |} in
      match e with
      | LCrash => (w3, evs3, st3, LCrash)
      | LOutOfFuel => (w3, evs3, st3, LOutOfFuel)
      | LRunAgain => process_loop fuel' c do_rx do_tx w3 evs3 st3
      | LEnd => if start_with_tx then process_loop fuel' c do_rx do_tx w3 evs3 st3
                else (w3, evs3, st3, LEnd)
      end
  end.

Definition process (fuel : nat) (c : cfg) (do_rx do_tx : bool) (w : world)
  : world * list event * stats * loop_end :=
  process_loop fuel c do_rx do_tx w [] stats0.

(** ** User calls *)

Inductive send_result := SendOk | SendValueError.

(** send(data, target_address_type) (L690-749, non-blocking part).
    [g]/[size]: the generator and its declared size (len(data) for bytes). *)
Definition send (c : cfg) (s : layer) (g : gen) (size : Z) (t : option tat) : layer * send_result :=
  let p := c_p c in
  let tt := match t with Some x => x | None => p_default_tat p end in
  if size <? 0 then (s, SendValueError)
  else if 0xFFFFFFFF <? size then (s, SendValueError)
  else
    let too_long :=
      match tt with
      | Functional =>
          let length_bytes := if p_tx_dl p =? 8 then 1 else 2 in
          p_tx_dl p - length_bytes - zlen (c_tx_prefix c) <? size
      | Physical => false
      end in
    if too_long then (s, SendValueError)
    else
      let r := {| r_id := next_req_id s; r_gen := g; r_size := size; r_consumed := 0;
                  r_depleted := false; r_tat := tt |} in
      (s <| tx_queue := tx_queue s ++ [r] |> <| next_req_id := next_req_id s + 1 |>, SendOk).

Definition recv (s : layer) : layer * option (list Z) :=
  match rx_queue s with
  | [] => (s, None)
  | x :: rest => (s <| rx_queue := rest |>, Some x)
  end.

Definition available (s : layer) : bool := negb (is_nil (rx_queue s)).
Definition transmitting (s : layer) : bool := negb (is_nil (tx_queue s)) || negb (txst_eqb (tx_state s) TxIdle).
Definition is_rx_active (s : layer) : bool := negb (rxst_eqb (rx_state s) RxIdle).
Definition is_tx_throttled (s : layer) : bool :=
  match tx_state s with TxSFStandby | TxFFStandby => true | _ => false end.

(** reset() (L1401-1410) *)
Definition reset (c : cfg) (s : layer) : layer * list event :=
  let evq := map (fun r => EDone (r_id r) false) (tx_queue s) in
  let '(s1, evs) := stop_sending false (s <| rx_queue := [] |> <| tx_queue := [] |>) in
  (lim_reset (stop_receiving s1), evq ++ evs).

Definition tick (d : Z) (s : layer) : layer := s <| now := now s + d |>.
