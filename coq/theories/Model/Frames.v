(** Model of the frame builders of isotp/protocol.py:
    _get_nearest_can_fd_size (L1295-1305), _get_dlc (L1276-1293),
    _pad_message_data (L1213-1241), _make_tx_msg (L1265-1274),
    craft_flow_control_data (L172-173), _make_flow_control (L1307-1315).
    [None] = the Python code raises ValueError. *)
From IsoTp Require Export Model.Address.

Definition nearest_fd_size (size : Z) : option Z :=
  if size <=? 8 then Some size
  else if size <=? 12 then Some 12
  else if size <=? 16 then Some 16
  else if size <=? 20 then Some 20
  else if size <=? 24 then Some 24
  else if size <=? 32 then Some 32
  else if size <=? 48 then Some 48
  else if size <=? 64 then Some 64
  else None.

Definition dlc_of_fdlen (fdlen : Z) : option Z :=
  if (2 <=? fdlen) && (fdlen <=? 8) then Some fdlen
  else if fdlen =? 12 then Some 9
  else if fdlen =? 16 then Some 10
  else if fdlen =? 20 then Some 11
  else if fdlen =? 24 then Some 12
  else if fdlen =? 32 then Some 13
  else if fdlen =? 48 then Some 14
  else if fdlen =? 64 then Some 15
  else None.

(** _get_dlc(data, validate_tx=True) *)
Definition get_dlc_tx (p : params) (data : list Z) : option Z :=
  match nearest_fd_size (zlen data) with
  | None => None
  | Some fdlen =>
      if (p_tx_dl p =? 8) && ((fdlen <? 2) || (8 <? fdlen)) then None
      else dlc_of_fdlen fdlen
  end.

Definition padding_byte (p : params) : Z :=
  Z.land (match p_tx_padding p with None => 0xCC | Some b => b end) 0xFF.

(** _pad_message_data *)
Definition pad_message_data (p : params) (d : list Z) : option (list Z) :=
  let len := zlen d in
  let pad_to (target : Z) := if len <? target then d ++ zrepeat (padding_byte p) (target - len) else d in
  if p_tx_dl p =? 8 then
    match p_tx_min_len p with
    | None => match p_tx_padding p with
              | Some _ => Some (pad_to 8)
              | None => Some d
              end
    | Some m => Some (pad_to m)
    end
  else if 8 <? p_tx_dl p then
    match nearest_fd_size len with
    | None => None
    | Some n =>
        match p_tx_min_len p with
        | None => Some (pad_to n)
        | Some m => Some (pad_to (Z.max m n))
        end
    end
  else Some d.

(** _make_tx_msg *)
Definition make_tx_msg (c : cfg) (arb_id : Z) (d : list Z) : option frame :=
  match pad_message_data (c_p c) d with
  | None => None
  | Some d' =>
      match get_dlc_tx (c_p c) d' with
      | None => None
      | Some dlc =>
          Some {| f_id := arb_id; f_ext := c_tx_ext c; f_data := d'; f_dlc := dlc;
                  f_fd := p_can_fd (c_p c); f_brs := p_brs (c_p c) |}
      end
  end.

Definition craft_fc_data (fs bs st : Z) : list Z :=
  [Z.lor 0x30 (Z.land fs 0xF); Z.land bs 0xFF; Z.land st 0xFF].

(** _make_flow_control(flow_status) with the configured blocksize / stmin *)
Definition make_flow_control (c : cfg) (fs : Z) : option frame :=
  make_tx_msg c (c_tx_id c Physical)
    (c_tx_prefix c ++ craft_fc_data fs (p_blocksize (c_p c)) (p_stmin (c_p c))).
