(** The float computations of the timers, exactly as Python performs them (binary64,
    round-to-nearest-even), on Coq's primitive floats:
      Timer(timeout = float(ms)/1000)  ->  int(timeout * 1e9)           (tools.py L18-19)
      PDU: stmin_sec = b/1000 or (b-0xF0)/10000 ; int(stmin_sec * 1e9)   (protocol.py L158-161)
    The finite-range facts below are proved by vm_compute over the whole range (the bound is part
    of each statement); Print Assumptions lists only the kernel's primitive float / int63 types. *)
From Coq Require Import ZArith List Bool Lia.
From Coq Require Import Floats.PrimFloat Floats.FloatOps Numbers.Cyclic.Int63.Uint63.
Import ListNotations.
Open Scope Z_scope.

(** int(f) for a finite non-negative float: truncation toward zero. *)
Definition float_trunc (f : float) : Z :=
  let '(m, e) := frshiftexp f in
  let mant := Uint63.to_Z (normfr_mantissa m) in
  let ex := Uint63.to_Z e - FloatOps.shift - 53 in
  if 0 <=? ex then mant * 2 ^ ex else mant / 2 ^ (- ex).

Definition float_of_Z (z : Z) : float := of_uint63 (Uint63.of_Z z).

Definition f1000 : float := float_of_Z 1000.
Definition f10000 : float := float_of_Z 10000.
Definition f1e9 : float := float_of_Z 1000000000.

(** milliseconds parameter -> nanoseconds held by the Timer *)
Definition to_ns (ms : Z) : Z := float_trunc (PrimFloat.mul (PrimFloat.div (float_of_Z ms) f1000) f1e9).

(** STmin byte -> nanoseconds held by timer_tx_stmin *)
Definition stmin_float_ns (b : Z) : Z :=
  if (0 <=? b) && (b <=? 0x7F) then float_trunc (PrimFloat.mul (PrimFloat.div (float_of_Z b) f1000) f1e9)
  else if (0xF1 <=? b) && (b <=? 0xF9) then float_trunc (PrimFloat.mul (PrimFloat.div (float_of_Z (b - 0xF0)) f10000) f1e9)
  else 0.

Fixpoint zrange_acc (n : nat) (hi : Z) (acc : list Z) : list Z :=
  match n with
  | O => acc
  | S n' => zrange_acc n' (hi - 1) (hi :: acc)
  end.
(** [zrange lo count] = lo, lo+1, ..., lo+count-1 *)
Definition zrange (lo : Z) (count : nat) : list Z := zrange_acc count (lo + Z.of_nat count - 1) [].

Lemma zrange_acc_In n : forall hi acc x,
  In x acc \/ (hi - Z.of_nat n < x <= hi) -> In x (zrange_acc n hi acc).
Proof.
  induction n as [|n IH]; intros hi acc x H; simpl.
  - destruct H as [H|H]; [exact H|lia].
  - apply IH. destruct H as [H|H]; [left; right; exact H|].
    destruct (Z.eq_dec x hi) as [->|Hne]; [left; left; reflexivity|right; lia].
Qed.

Lemma zrange_In lo count x : lo <= x < lo + Z.of_nat count -> In x (zrange lo count).
Proof. intros H. unfold zrange. apply zrange_acc_In. right. lia. Qed.

(** The conversion is never more than 1 ns below the exact value and never above it. *)
Lemma to_ns_bounds_table :
  forallb (fun ms => (ms * 1000000 - 1 <=? to_ns ms) && (to_ns ms <=? ms * 1000000)) (zrange 0 (Z.to_nat 20001)) = true.
Proof. vm_compute. reflexivity. Qed.

(** STmin decoding is exact for every valid byte. *)
Lemma stmin_table :
  forallb (fun b => stmin_float_ns b =?
                    (if (0 <=? b) && (b <=? 0x7F) then b * 1000000
                     else if (0xF1 <=? b) && (b <=? 0xF9) then (b - 0xF0) * 100000 else 0)) (zrange 0 (Z.to_nat 256)) = true.
Proof. vm_compute. reflexivity. Qed.
