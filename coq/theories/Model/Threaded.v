(** The threaded wrapper TransportLayer (protocol.py L1462-1680): lifecycle bookkeeping around
    the logic layer (C14) and the hand-over of send requests from user threads to the worker (C13).

    What is modelled: the [started] flag, the two thread handles, the guards of the public
    methods, what stop() / the worker's exit do to the logic layer, the cross-thread
    stop_sending / stop_receiving requests (the caller waits for the worker, so they are one
    atomic step here), the relay queue as the worker's inbox.
    What is NOT modelled (runtime facts measured by the harness): that join() returns within
    its time limit, OS scheduling, the Event objects' wake-ups. *)
From IsoTp Require Import Base.Prelude Model.Types Model.Layer.

Record tl := { t_started : bool; t_threads : nat; t_w : world }.

Global Instance eta_tl : Settable _ := settable! Build_tl <t_started; t_threads; t_w>.
Global Instance eta_world : Settable _ := settable! Build_world <w_l; w_inbox>.

Definition tl_init (c : cfg) (t0 : Z) : tl :=
  {| t_started := false; t_threads := 0%nat; t_w := {| w_l := init_layer c t0; w_inbox := [] |} |}.

Inductive lop :=
  | LStart | LStop
  | LSend (g : gen) (size : Z) (t : option tat)
  | LRecv | LStopSending | LStopReceiving
  | LProcess | LReset
  | LWorker (do_rx : bool)       (* one iteration of the worker thread's loop *)
  | LDeliver (f : frame)         (* the relay thread (or the user's rxfn source) gets a frame *)
  | LTick (d : Z).

Inductive lout := LOk | LRuntimeError | LValueError | LGot (o : option (list Z)).

Definition with_layer (s : tl) (l : layer) : tl := s <| t_w := (t_w s) <| w_l := l |> |>.

(** One public call (or internal step). Returns the new state, the outcome of the call, and the
    events (frames, errors, completions) it produced. *)
Definition lstep (fuel : nat) (c : cfg) (s : tl) (o : lop) : tl * lout * list event :=
  let l := w_l (t_w s) in
  match o with
  | LStart =>
      if t_started s then (s, LRuntimeError, [])
      else (s <| t_started := true |> <| t_threads := 2%nat |>, LOk, [])
  | LStop =>
      (* both threads joined; the worker's exit and stop() itself reset the logic layer; the relay queue is drained *)
      let '(l1, evs) := reset c l in
      ({| t_started := false; t_threads := 0%nat; t_w := {| w_l := l1; w_inbox := [] |} |}, LOk, evs)
  | LSend g size t =>
      let '(l1, r) := send c l g size t in
      (with_layer s l1, match r with SendOk => LOk | SendValueError => LValueError end, [])
  | LRecv => let '(l1, r) := recv l in (with_layer s l1, LGot r, [])
  | LStopSending => let '(l1, evs) := stop_sending false l in (with_layer s l1, LOk, evs)
  | LStopReceiving => (with_layer s (stop_receiving l), LOk, [])
  | LProcess =>
      if t_started s then (s, LRuntimeError, [])
      else let '(w1, evs, _, _) := process fuel c true true (t_w s) in (s <| t_w := w1 |>, LOk, evs)
  | LReset =>
      if t_started s then (s, LRuntimeError, [])
      else let '(l1, evs) := reset c l in (with_layer s l1, LOk, evs)
  | LWorker do_rx =>
      if t_started s then
        let '(w1, evs, _, _) := process fuel c do_rx true (t_w s) in (s <| t_w := w1 |>, LOk, evs)
      else (s, LOk, [])
  | LDeliver f => (s <| t_w := (t_w s) <| w_inbox := w_inbox (t_w s) ++ [f] |> |>, LOk, [])
  | LTick d => (with_layer s (tick d l), LOk, [])
  end.

Fixpoint lrun (fuel : nat) (c : cfg) (s : tl) (ops : list lop) : tl * list lout :=
  match ops with
  | [] => (s, [])
  | o :: r =>
      let '(s1, out, _) := lstep fuel c s o in
      let '(s2, outs) := lrun fuel c s1 r in (s2, out :: outs)
  end.

(** ** Hand-over of payloads from several user threads (C13)

    Each user thread [i] owns the list [nth i pend] of payloads it will send, in that order.
    A schedule is the sequence in which the threads' send() calls take effect on the transmit
    queue (queue.Queue.put is atomic). *)
Fixpoint set_nth {A} (i : nat) (x : A) (l : list A) : list A :=
  match i, l with
  | O, _ :: r => x :: r
  | S i', y :: r => y :: set_nth i' x r
  | _, [] => []
  end.

Fixpoint run_sched {A} (sched : list nat) (pend : list (list A)) (q : list (nat * A)) : list (nat * A) * list (list A) :=
  match sched with
  | [] => (q, pend)
  | i :: rest =>
      match nth i pend [] with
      | [] => run_sched rest pend q
      | x :: more => run_sched rest (set_nth i more pend) (q ++ [(i, x)])
      end
  end.

Definition of_thread {A} (i : nat) (q : list (nat * A)) : list A :=
  map snd (filter (fun e => Nat.eqb (fst e) i) q).
