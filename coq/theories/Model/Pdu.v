(** Model of isotp/protocol.py: PDU.__init__ (L78-169). Every `raise ValueError`
    is the result [None]. *)
From IsoTp Require Export Model.Types.

Inductive pdu :=
  | PSF (esc : bool) (len : Z) (data : list Z)
  | PFF (esc : bool) (len : Z) (data : list Z)
  | PCF (sn : Z) (data : list Z)
  | PFC (fs bs st : Z).

Record decoded := { d_pdu : pdu; d_can_dl : Z; d_rx_dl : Z }.

Definition byte_at (l : list Z) (i : nat) : Z := nth i l 0.

(** STmin byte -> valid?  (L158-166) *)
Definition stmin_valid (b : Z) : bool :=
  ((0 <=? b) && (b <=? 0x7F)) || ((0xF1 <=? b) && (b <=? 0xF9)).

Definition pdu_decode (data : list Z) (start_of_data : Z) : option decoded :=
  if zlen data <? start_of_data then None else
  let can_dl := zlen data in
  let rx_dl := Z.max 8 can_dl in
  let d := zdrop start_of_data data in
  let datalen := zlen d in
  let mk p := Some {| d_pdu := p; d_can_dl := can_dl; d_rx_dl := rx_dl |} in
  match d with
  | [] => None                                            (* Empty CAN frame *)
  | b0 :: _ =>
    let hnb := Z.land (Z.shiftr b0 4) 0xF in
    if 3 <? hnb then None else
    if hnb =? 0 then                                      (* SINGLE_FRAME *)
      let lp := Z.land b0 0xF in
      if negb (lp =? 0) then
        if datalen - 1 <? lp then None
        else mk (PSF false lp (ztake lp (zdrop 1 d)))
      else
        if datalen <? 2 then None else
        let l := byte_at d 1 in
        if l =? 0 then None else
        if datalen - 2 <? l then None
        else mk (PSF true l (ztake l (zdrop 2 d)))
    else if hnb =? 1 then                                 (* FIRST_FRAME *)
      if datalen <? 2 then None else
      let lp := Z.lor (Z.shiftl (Z.land b0 0xF) 8) (byte_at d 1) in
      if negb (lp =? 0) then
        mk (PFF false lp (ztake (Z.min lp (datalen - 2)) (zdrop 2 d)))
      else
        if datalen <? 6 then None else
        let l := Z.lor (Z.lor (Z.lor (Z.shiftl (byte_at d 2) 24) (Z.shiftl (byte_at d 3) 16))
                              (Z.shiftl (byte_at d 4) 8)) (byte_at d 5) in
        mk (PFF true l (ztake (Z.min l (datalen - 6)) (zdrop 6 d)))
    else if hnb =? 2 then                                 (* CONSECUTIVE_FRAME *)
      mk (PCF (Z.land b0 0xF) (zdrop 1 d))
    else                                                  (* FLOW_CONTROL *)
      if datalen <? 3 then None else
      let fs := Z.land b0 0xF in
      if 3 <=? fs then None else
      let st := byte_at d 2 in
      if stmin_valid st then mk (PFC fs (byte_at d 1) st) else None
  end.
