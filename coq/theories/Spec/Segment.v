(** Reference ISO-15765-2 segmentation of a payload under a transmit configuration
    (ISO-15765-2:2016 9.6 / 10.4 and the documented tx_data_length, tx_data_min_length,
    tx_padding, can_fd, bitrate_switch parameters). Independent of the sender's code:
    frames are given by closed formulas on the payload. *)
From IsoTp Require Import Base.Prelude Model.Types Model.Address Spec.AddrSpec Spec.FrameSpec.

Section Seg.
Variable c : cfg.

Let p := c_p c.
Let pfx := tx_prefix (c_txa c).
Let plen := zlen pfx.
Let tx_dl := p_tx_dl p.

(** A CAN frame for unpadded data [d]: reference padding, DLC and flags. *)
Definition spec_frame (id : Z) (d : list Z) : frame :=
  let n := pad_target p (zlen d) in
  {| f_id := id; f_ext := mode29 (a_mode (c_txa c));
     f_data := d ++ zrepeat (pad_byte p) (n - zlen d);
     f_dlc := dlc_table n; f_fd := p_can_fd p; f_brs := p_brs p |}.

(** Single Frame, length in the first byte: allowed only if the whole (padded) frame is at
    most 8 bytes long. *)
Definition sf_short_ok (n : Z) : bool :=
  (plen + 1 + n <=? 8) && (pad_target p (plen + 1 + n) <=? 8).

(** Single Frame with escape sequence (CAN FD only). *)
Definition sf_escape_ok (n : Z) : bool := (8 <? tx_dl) && (plen + 2 + n <=? tx_dl).

Definition is_single (n : Z) : bool := sf_short_ok n || sf_escape_ok n.

Definition ff_cap (n : Z) : Z := if n <=? 4095 then tx_dl - 2 - plen else tx_dl - 6 - plen.
Definition cf_cap : Z := tx_dl - 1 - plen.

Definition ff_header (n : Z) : list Z :=
  if n <=? 4095 then [0x10 + n / 256; n mod 256]
  else [0x10; 0; (n / 16777216) mod 256; (n / 65536) mod 256; (n / 256) mod 256; n mod 256].

(** j-th Consecutive Frame (j = 1, 2, ...): sequence number j mod 16, the j-th chunk. *)
Definition cf_data (payload : list Z) (j : Z) : list Z :=
  let n := zlen payload in
  pfx ++ [0x20 + j mod 16] ++ ztake cf_cap (zdrop (ff_cap n + (j - 1) * cf_cap) payload).

Definition n_cf (n : Z) : Z := (n - ff_cap n + cf_cap - 1) / cf_cap.

Definition zseq (from count : Z) : list Z := map Z.of_nat (seq (Z.to_nat from) (Z.to_nat count)).

(** The reference segmentation. [t]: target address type (only Single Frames may be functional). *)
Definition seg (t : tat) (payload : list Z) : list frame :=
  let n := zlen payload in
  let idp := tx_arb_id (c_txa c) Physical in
  if sf_short_ok n then [spec_frame (tx_arb_id (c_txa c) t) (pfx ++ [n] ++ payload)]
  else if sf_escape_ok n then [spec_frame (tx_arb_id (c_txa c) t) (pfx ++ [0; n] ++ payload)]
  else
    spec_frame idp (pfx ++ ff_header n ++ ztake (ff_cap n) payload)
    :: map (fun j => spec_frame idp (cf_data payload j)) (zseq 1 (n_cf n)).

End Seg.
