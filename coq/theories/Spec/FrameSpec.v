(** Reference frame-level rules: legal CAN / CAN FD data lengths, the DLC table
    (ISO 11898-1), the padding target of ISO-15765-2:2016 10.4.2 with the documented
    tx_data_min_length / tx_padding parameters. *)
From IsoTp Require Import Base.Prelude Model.Types.

Definition legal_len (n : Z) : Prop := (2 <= n <= 8) \/ In n [12; 16; 20; 24; 32; 48; 64].

(** Reference data-length-code table (ISO 11898-1 / ISO-15765-2 table 3). *)
Definition dlc_table (n : Z) : Z :=
  if n <=? 8 then n else if n =? 12 then 9 else if n =? 16 then 10 else if n =? 20 then 11
  else if n =? 24 then 12 else if n =? 32 then 13 else if n =? 48 then 14 else 15.

(** Reference padding target of ISO-15765-2:2016 10.4.2 + the documented tx_data_min_length. *)
Definition next_fd (n : Z) : Z :=
  if n <=? 8 then n else if n <=? 12 then 12 else if n <=? 16 then 16 else if n <=? 20 then 20
  else if n <=? 24 then 24 else if n <=? 32 then 32 else if n <=? 48 then 48 else 64.

Definition pad_target (p : params) (n : Z) : Z :=
  if p_tx_dl p =? 8 then
    match p_tx_min_len p with
    | Some m => Z.max n m
    | None => match p_tx_padding p with Some _ => 8 | None => n end
    end
  else
    match p_tx_min_len p with
    | Some m => Z.max m (next_fd n)
    | None => next_fd n
    end.

Definition pad_byte (p : params) : Z := match p_tx_padding p with Some b => b | None => 0xCC end.

