(** What a conforming ISO-15765-2 sender may put on the bus for a payload [p], toward a
    receiver that strips [k] prefix bytes (k = 0 or 1): any link-layer size T, Single Frame with
    length in the first byte only if CAN_DL <= 8 (escape form otherwise), First Frame with 12-bit
    or 32-bit length and a full frame, full Consecutive Frames numbered 1,2,..15,0,.., the last
    one with any padding. Independent of this library's sender. *)
From IsoTp Require Import Base.Prelude Model.Types Spec.ConfigSpec.

Section Stream.
Variable k : Z.

Definition ff_hdr (n : Z) : list Z :=
  if n <=? 4095 then [0x10 + n / 256; n mod 256]
  else [0x10; 0; (n / 16777216) mod 256; (n / 65536) mod 256; (n / 256) mod 256; n mod 256].

(** Consecutive Frames carrying [rest] (non empty), starting with index [j]. *)
Inductive wf_cfs (T : Z) : Z -> list Z -> list (list Z) -> Prop :=
  | cfs_last j rest pre pad :
      zlen pre = k -> rest <> [] -> zlen rest <= T - 1 - k ->
      zlen (pre ++ (0x20 + j mod 16) :: rest ++ pad) <= 64 ->
      wf_cfs T j rest [pre ++ (0x20 + j mod 16) :: rest ++ pad]
  | cfs_more j chunk rest pre tl :
      zlen pre = k -> zlen chunk = T - 1 - k -> rest <> [] ->
      wf_cfs T (j + 1) rest tl ->
      wf_cfs T j (chunk ++ rest) ((pre ++ (0x20 + j mod 16) :: chunk) :: tl).

Inductive wf_stream (p : list Z) : list (list Z) -> Prop :=
  | st_sf_short pre pad :
      zlen pre = k -> 1 <= zlen p <= 15 -> zlen (pre ++ zlen p :: p ++ pad) <= 8 ->
      wf_stream p [pre ++ zlen p :: p ++ pad]
  | st_sf_escape pre pad :
      zlen pre = k -> 1 <= zlen p -> 8 < zlen (pre ++ 0 :: zlen p :: p ++ pad) <= 64 ->
      wf_stream p [pre ++ 0 :: zlen p :: p ++ pad]
  | st_multi T pre first rest cfs :
      In T LL_SIZES -> zlen pre = k -> p = first ++ rest -> rest <> [] ->
      0 < zlen p < 2 ^ 32 ->
      zlen (pre ++ ff_hdr (zlen p) ++ first) = T ->
      wf_cfs T 1 rest cfs ->
      wf_stream p ((pre ++ ff_hdr (zlen p) ++ first) :: cfs).
End Stream.
