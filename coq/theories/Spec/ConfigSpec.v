(** Documented validity of the layer parameters (doc/source/isotp/implementation.rst,
    "Parameters"), on the model-level parameter record. *)
From IsoTp Require Import Model.Types.

Definition LL_SIZES : list Z := [8; 12; 16; 20; 24; 32; 48; 64].
Definition MIN_LENS : list Z := [1; 2; 3; 4; 5; 6; 7; 8; 12; 16; 20; 24; 32; 48; 64].

Definition params_ok (p : params) : Prop :=
  In (p_tx_dl p) LL_SIZES /\
  (forall m, p_tx_min_len p = Some m -> In m MIN_LENS /\ m <= p_tx_dl p) /\
  (forall b, p_tx_padding p = Some b -> 0 <= b <= 255) /\
  0 <= p_stmin p <= 255 /\ 0 <= p_blocksize p <= 255 /\
  0 <= p_wftmax p /\ 0 <= p_max_frame_size p /\
  0 <= p_tbs_ns p /\ 0 <= p_tcr_ns p /\
  (forall o, p_override_stmin_ns p = Some o -> 0 <= o) /\
  0 < p_lim_bd p /\ 8 * p_tx_dl p * p_lim_bd p <= p_lim_bn p /\ 0 <= p_lim_window_ns p.
