(** The Linux CAN ISO-TP socket as seen through setsockopt / bind, written from
    include/uapi/linux/can/isotp.h and net/can/isotp.c (option storage, EXTEND_ADDR /
    RX_EXT_ADDR, identifier matching). Little-endian struct layouts (the byte order of this
    platform; struct.pack("=...") of the wrapper). *)
From IsoTp Require Import Base.Prelude.

Definition SOL_CAN_ISOTP := 106.
Definition CAN_ISOTP_OPTS := 1.
Definition CAN_ISOTP_RECV_FC := 2.
Definition CAN_ISOTP_TX_STMIN := 3.
Definition CAN_ISOTP_LL_OPTS := 5.

Definition F_EXTEND_ADDR := 0x002.
Definition F_TX_PADDING := 0x004.
Definition F_RX_PADDING := 0x008.
Definition F_FORCE_TXSTMIN := 0x080.
Definition F_RX_EXT_ADDR := 0x200.

Definition CAN_EFF_FLAG := 0x80000000.
Definition CAN_EFF_MASK := 0x1FFFFFFF.
Definition CAN_SFF_MASK := 0x7FF.

(** struct can_isotp_options { u32 flags; u32 frame_txtime; u8 ext_address, txpad_content,
    rxpad_content, rx_ext_address; }; can_isotp_fc_options { u8 bs, stmin, wftmax; };
    can_isotp_ll_options { u8 mtu, tx_dl, tx_flags; }; tx_stmin: u32 *)
Record kstate := {
  k_flags : Z; k_txtime : Z; k_ext : Z; k_txpad : Z; k_rxpad : Z; k_rxext : Z;
  k_bs : Z; k_stmin : Z; k_wft : Z;
  k_mtu : Z; k_txdl : Z; k_llflags : Z;
  k_txstmin : Z;
  k_bound : option (Z * Z)    (* (rx can_id, tx can_id) given to bind *) }.

(** kernel defaults: isotp_init() *)
Definition kinit : kstate :=
  {| k_flags := 0; k_txtime := 50000; k_ext := 0; k_txpad := 0xCC; k_rxpad := 0xCC; k_rxext := 0;
     k_bs := 0; k_stmin := 0; k_wft := 0; k_mtu := 16; k_txdl := 8; k_llflags := 0; k_txstmin := 0;
     k_bound := None |}.

Definition u32_of (l : list Z) : Z :=
  match l with [b0; b1; b2; b3] => b0 + 256 * b1 + 65536 * b2 + 16777216 * b3 | _ => 0 end.

Inductive sockcall := SetOpt (level opt : Z) (bytes : list Z) | Bind (rxid txid : Z).

(** what a setsockopt / bind does to the socket (malformed calls are rejected: state unchanged) *)
Definition kapply (k : kstate) (call : sockcall) : kstate :=
  match call with
  | SetOpt level opt bytes =>
      if negb (level =? SOL_CAN_ISOTP) then k else
      if opt =? CAN_ISOTP_OPTS then
        match bytes with
        | [f0; f1; f2; f3; t0; t1; t2; t3; ext; txpad; rxpad; rxext] =>
            {| k_flags := u32_of [f0; f1; f2; f3]; k_txtime := u32_of [t0; t1; t2; t3];
               k_ext := ext; k_txpad := txpad; k_rxpad := rxpad; k_rxext := rxext;
               k_bs := k_bs k; k_stmin := k_stmin k; k_wft := k_wft k;
               k_mtu := k_mtu k; k_txdl := k_txdl k; k_llflags := k_llflags k; k_txstmin := k_txstmin k;
               k_bound := k_bound k |}
        | _ => k
        end
      else if opt =? CAN_ISOTP_RECV_FC then
        match bytes with
        | [bs; st; wft] =>
            {| k_flags := k_flags k; k_txtime := k_txtime k; k_ext := k_ext k; k_txpad := k_txpad k;
               k_rxpad := k_rxpad k; k_rxext := k_rxext k; k_bs := bs; k_stmin := st; k_wft := wft;
               k_mtu := k_mtu k; k_txdl := k_txdl k; k_llflags := k_llflags k; k_txstmin := k_txstmin k;
               k_bound := k_bound k |}
        | _ => k
        end
      else if opt =? CAN_ISOTP_TX_STMIN then
        match bytes with
        | [b0; b1; b2; b3] =>
            {| k_flags := k_flags k; k_txtime := k_txtime k; k_ext := k_ext k; k_txpad := k_txpad k;
               k_rxpad := k_rxpad k; k_rxext := k_rxext k; k_bs := k_bs k; k_stmin := k_stmin k; k_wft := k_wft k;
               k_mtu := k_mtu k; k_txdl := k_txdl k; k_llflags := k_llflags k; k_txstmin := u32_of [b0; b1; b2; b3];
               k_bound := k_bound k |}
        | _ => k
        end
      else if opt =? CAN_ISOTP_LL_OPTS then
        match bytes with
        | [mtu; txdl; fl] =>
            {| k_flags := k_flags k; k_txtime := k_txtime k; k_ext := k_ext k; k_txpad := k_txpad k;
               k_rxpad := k_rxpad k; k_rxext := k_rxext k; k_bs := k_bs k; k_stmin := k_stmin k; k_wft := k_wft k;
               k_mtu := mtu; k_txdl := txdl; k_llflags := fl; k_txstmin := k_txstmin k;
               k_bound := k_bound k |}
        | _ => k
        end
      else k
  | Bind rxid txid =>
      {| k_flags := k_flags k; k_txtime := k_txtime k; k_ext := k_ext k; k_txpad := k_txpad k;
         k_rxpad := k_rxpad k; k_rxext := k_rxext k; k_bs := k_bs k; k_stmin := k_stmin k; k_wft := k_wft k;
         k_mtu := k_mtu k; k_txdl := k_txdl k; k_llflags := k_llflags k; k_txstmin := k_txstmin k;
         k_bound := Some (rxid, txid) |}
  end.

Definition kapply_all (k : kstate) (calls : list sockcall) : kstate := fold_left kapply calls k.

Definition has_flag (flags f : Z) : bool := negb (Z.land flags f =? 0).

(** addressing of a bound socket (isotp_sendmsg / isotp_rcv):
    emitted frames carry the tx can_id and, with EXTEND_ADDR, ext_address as first byte;
    received frames must carry the rx can_id and, with EXTEND_ADDR, the byte rx_ext_address
    (RX_EXT_ADDR set) or ext_address as first byte. *)
Definition kernel_tx_id (k : kstate) : option (Z * bool) :=
  match k_bound k with
  | Some (_, tx) => Some (if has_flag tx CAN_EFF_FLAG then Z.land tx CAN_EFF_MASK else Z.land tx CAN_SFF_MASK,
                          has_flag tx CAN_EFF_FLAG)
  | None => None
  end.
Definition kernel_tx_prefix (k : kstate) : list Z :=
  if has_flag (k_flags k) F_EXTEND_ADDR then [k_ext k] else [].
Definition kernel_rx_byte (k : kstate) : option Z :=
  if has_flag (k_flags k) F_EXTEND_ADDR
  then Some (if has_flag (k_flags k) F_RX_EXT_ADDR then k_rxext k else k_ext k) else None.
Definition kernel_accepts (k : kstate) (id : Z) (ext : bool) (data : list Z) : bool :=
  match k_bound k with
  | Some (rx, _) =>
      Bool.eqb ext (has_flag rx CAN_EFF_FLAG) &&
      (id =? (if has_flag rx CAN_EFF_FLAG then Z.land rx CAN_EFF_MASK else Z.land rx CAN_SFF_MASK)) &&
      match kernel_rx_byte k with
      | None => true
      | Some b => match data with x :: _ => x =? b | [] => false end
      end
  | None => false
  end.
