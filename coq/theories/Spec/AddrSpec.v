(** Specification of addressing, written from doc/source/isotp/addressing.rst
    ("Condition to receive a message", identifier encodings, required
    parameters). It does not mention the implementation's functions. *)
From IsoTp Require Import Model.Types.

Definition mode29 (m : amode) : bool :=
  match m with Normal29 | NormalFixed29 | Extended29 | Mixed29 => true | _ => false end.

(** "Only bits 28-16 are used" of a custom physical_id / functional_id *)
Definition spec_base (default : Z) (o : option Z) : Z :=
  match o with None => default | Some p => ((p / 65536) mod 8192) * 65536 end.

Definition spec_phys (a : addr) : Z :=
  match a_mode a with
  | NormalFixed29 => spec_base 0x18DA0000 (a_phys a)
  | Mixed29 => spec_base 0x18CE0000 (a_phys a)
  | _ => 0
  end.

Definition spec_func (a : addr) : Z :=
  match a_mode a with
  | NormalFixed29 => spec_base 0x18DB0000 (a_func a)
  | Mixed29 => spec_base 0x18CD0000 (a_func a)
  | _ => 0
  end.

(** 0x18DA<TA><SA>: the message Target Address must match my source_address,
    the message Source Address my target_address, bits 28-16 the physical or
    the functional base. *)
Definition id_fields_ok (a : addr) (id : Z) : Prop :=
  ((id / 65536) * 65536 = spec_phys a \/ (id / 65536) * 65536 = spec_func a) /\
  Some ((id / 256) mod 256) = a_sa a /\
  Some (id mod 256) = a_ta a.

Definition first_byte (f : frame) (o : option Z) : Prop :=
  exists b rest, f_data f = b :: rest /\ Some b = o.

(** The documented reception condition of address [a]. *)
Definition accepts (a : addr) (f : frame) : Prop :=
  f_ext f = mode29 (a_mode a) /\
  match a_mode a with
  | Normal11 | Normal29 => Some (f_id f) = a_rxid a
  | NormalFixed29 => id_fields_ok a (f_id f)
  | Extended11 | Extended29 => Some (f_id f) = a_rxid a /\ first_byte f (a_sa a)
  | Mixed11 => Some (f_id f) = a_rxid a /\ first_byte f (a_ae a)
  | Mixed29 => id_fields_ok a (f_id f) /\ first_byte f (a_ae a)
  end.

(** The documented identifier of emitted frames. *)
Definition emit_id (a : addr) (t : tat) (id : Z) : Prop :=
  match a_mode a with
  | NormalFixed29 | Mixed29 =>
      exists ta sa, a_ta a = Some ta /\ a_sa a = Some sa /\
        id = (match t with Physical => spec_phys a | Functional => spec_func a end) + ta * 256 + sa
  | _ => a_txid a = Some id
  end.

(** The documented prefix byte of emitted frames. *)
Definition emit_prefix (a : addr) (pfx : list Z) : Prop :=
  match a_mode a with
  | Extended11 | Extended29 => exists ta, a_ta a = Some ta /\ pfx = [ta]
  | Mixed11 | Mixed29 => exists ae, a_ae a = Some ae /\ pfx = [ae]
  | _ => pfx = []
  end.

(** The address of the peer. *)
Definition mirror (a : addr) : addr :=
  {| a_mode := a_mode a; a_txid := a_rxid a; a_rxid := a_txid a;
     a_ta := a_sa a; a_sa := a_ta a; a_ae := a_ae a;
     a_phys := a_phys a; a_func := a_func a;
     a_rx_only := a_tx_only a; a_tx_only := a_rx_only a |}.

(** Required parameters table + value ranges (integer-or-None arguments). *)
Definition byte_range (o : option Z) : Prop := forall x, o = Some x -> 0 <= x <= 255.
Definition id_range (m : amode) (o : option Z) : Prop :=
  forall x, o = Some x -> 0 <= x /\ (mode29 m = false -> x <= 0x7FF).
Definition given (o : option Z) : Prop := o <> None.

Definition address_ok (a : addr) : Prop :=
  ~ (a_rx_only a = true /\ a_tx_only a = true) /\
  byte_range (a_ta a) /\ byte_range (a_sa a) /\ byte_range (a_ae a) /\
  id_range (a_mode a) (a_txid a) /\ id_range (a_mode a) (a_rxid a) /\
  let tx_needed := a_rx_only a = false in
  let rx_needed := a_tx_only a = false in
  match a_mode a with
  | Normal11 | Normal29 =>
      (tx_needed -> given (a_txid a)) /\ (rx_needed -> given (a_rxid a)) /\ a_txid a <> a_rxid a
  | NormalFixed29 => given (a_ta a) /\ given (a_sa a)
  | Extended11 | Extended29 =>
      (tx_needed -> given (a_txid a) /\ given (a_ta a)) /\
      (rx_needed -> given (a_rxid a) /\ given (a_sa a)) /\ a_txid a <> a_rxid a
  | Mixed11 =>
      given (a_ae a) /\ (tx_needed -> given (a_txid a)) /\ (rx_needed -> given (a_rxid a)) /\
      a_txid a <> a_rxid a
  | Mixed29 => given (a_ta a) /\ given (a_sa a) /\ given (a_ae a)
  end.
