(** Common imports and small list/Z helpers shared by Model, Spec and Proofs. *)
From Coq Require Export ZArith List Bool Lia.
Export ListNotations.
Open Scope Z_scope.

Definition zlen {A} (l : list A) : Z := Z.of_nat (length l).

(** Python slicing l[:n] and l[n:] for n >= 0 (n < 0 never occurs in the code). *)
Definition ztake {A} (n : Z) (l : list A) : list A := firstn (Z.to_nat n) l.
Definition zdrop {A} (n : Z) (l : list A) : list A := skipn (Z.to_nat n) l.

Definition zrepeat {A} (x : A) (n : Z) : list A := repeat x (Z.to_nat n).

Definition opt_eqb (a b : option Z) : bool :=
  match a, b with
  | Some x, Some y => x =? y
  | None, None => true
  | _, _ => false
  end.

Definition zmem (x : Z) (l : list Z) : bool := existsb (Z.eqb x) l.

Lemma zlen_nonneg {A} (l : list A) : 0 <= zlen l.
Proof. unfold zlen; lia. Qed.

Lemma zlen_app {A} (a b : list A) : zlen (a ++ b) = zlen a + zlen b.
Proof. unfold zlen; rewrite app_length; lia. Qed.

Lemma zlen_cons {A} (x : A) l : zlen (x :: l) = 1 + zlen l.
Proof. unfold zlen; simpl length; lia. Qed.

Lemma zlen_nil {A} : zlen (@nil A) = 0.
Proof. reflexivity. Qed.

Lemma zlen_ztake {A} n (l : list A) : 0 <= n -> zlen (ztake n l) = Z.min n (zlen l).
Proof. intros; unfold zlen, ztake; rewrite firstn_length; lia. Qed.

Lemma zlen_zdrop {A} n (l : list A) : 0 <= n -> zlen (zdrop n l) = Z.max 0 (zlen l - n).
Proof. intros; unfold zlen, zdrop; rewrite skipn_length; lia. Qed.

Lemma zlen_zrepeat {A} (x : A) n : zlen (zrepeat x n) = Z.max 0 n.
Proof. unfold zlen, zrepeat; rewrite repeat_length; lia. Qed.

Lemma ztake_zdrop {A} n (l : list A) : ztake n l ++ zdrop n l = l.
Proof. apply firstn_skipn. Qed.

Lemma zmem_true_iff x l : zmem x l = true <-> In x l.
Proof.
  unfold zmem; rewrite existsb_exists; split.
  - intros [y [Hy E]]; apply Z.eqb_eq in E; subst; exact Hy.
  - intros H; exists x; split; [exact H|apply Z.eqb_refl].
Qed.
