(** Bit-level facts used to relate the masks and shifts of the code to
    div / mod arithmetic. *)
From IsoTp Require Import Base.Prelude.

Lemma land_ones_mod a n : 0 <= n -> Z.land a (Z.ones n) = a mod 2 ^ n.
Proof. intros; apply Z.land_ones; assumption. Qed.

Lemma land_FF a : Z.land a 0xFF = a mod 256.
Proof. change 0xFF with (Z.ones 8). rewrite Z.land_ones by lia. reflexivity. Qed.

Lemma land_F a : Z.land a 0xF = a mod 16.
Proof. change 0xF with (Z.ones 4). rewrite Z.land_ones by lia. reflexivity. Qed.

Lemma shiftr_div a n : 0 <= n -> Z.shiftr a n = a / 2 ^ n.
Proof. intros; apply Z.shiftr_div_pow2; assumption. Qed.

Lemma shiftl_mul a n : 0 <= n -> Z.shiftl a n = a * 2 ^ n.
Proof. intros; apply Z.shiftl_mul_pow2; assumption. Qed.

(** (a & (ones k << n)) >> n = (a >> n) mod 2^k *)
Lemma land_shifted_ones_shiftr a k n : 0 <= k -> 0 <= n ->
  Z.shiftr (Z.land a (Z.shiftl (Z.ones k) n)) n = (a / 2 ^ n) mod 2 ^ k.
Proof.
  intros Hk Hn.
  rewrite Z.shiftr_land, Z.shiftr_shiftl_l by lia.
  replace (n - n) with 0 by lia. rewrite Z.shiftl_0_r.
  rewrite Z.land_ones by lia. rewrite Z.shiftr_div_pow2 by lia. reflexivity.
Qed.

(** a & (ones k << n) = ((a >> n) mod 2^k) << n *)
Lemma land_shifted_ones a k n : 0 <= k -> 0 <= n ->
  Z.land a (Z.shiftl (Z.ones k) n) = ((a / 2 ^ n) mod 2 ^ k) * 2 ^ n.
Proof.
  intros Hk Hn.
  rewrite <- (land_shifted_ones_shiftr a k n) by lia.
  rewrite <- Z.shiftl_mul_pow2 by lia.
  apply Z.bits_inj'; intros i Hi.
  rewrite Z.land_spec.
  destruct (Z.ltb_spec i n) as [Hlt|Hge].
  - rewrite (Z.shiftl_spec_low _ _ _ Hlt).
    rewrite (Z.shiftl_spec_low _ _ _ Hlt). apply andb_false_r.
  - rewrite !Z.shiftl_spec by lia.
    rewrite Z.shiftr_spec by lia.
    replace (i - n + n) with i by lia.
    rewrite Z.land_spec, Z.shiftl_spec by lia. reflexivity.
Qed.

Lemma land_FF00_shiftr8 a : Z.shiftr (Z.land a 0xFF00) 8 = (a / 256) mod 256.
Proof. change 0xFF00 with (Z.shiftl (Z.ones 8) 8). rewrite land_shifted_ones_shiftr by lia. reflexivity. Qed.

Lemma land_1FFF0000 a : Z.land a 0x1FFF0000 = ((a / 65536) mod 8192) * 65536.
Proof. change 0x1FFF0000 with (Z.shiftl (Z.ones 13) 16). rewrite land_shifted_ones by lia. reflexivity. Qed.

(** disjoint or is addition *)
Lemma lor_add_disjoint a b : Z.land a b = 0 -> Z.lor a b = a + b.
Proof.
  intros H. rewrite <- Z.lxor_lor by exact H. symmetry. apply Z.add_nocarry_lxor. exact H.
Qed.

Lemma land_mul_pow2_small a b n : 0 <= n -> 0 <= b < 2 ^ n -> Z.land (a * 2 ^ n) b = 0.
Proof.
  intros Hn Hb. apply Z.bits_inj'; intros i Hi. rewrite Z.land_spec, Z.bits_0.
  destruct (Z.ltb_spec i n) as [Hlt|Hge].
  - rewrite Z.mul_pow2_bits_low by lia. reflexivity.
  - destruct (Z.eq_dec b 0) as [->|Hnz]; [rewrite Z.bits_0; apply andb_false_r|].
    rewrite (Z.bits_above_log2 b i); [apply andb_false_r|lia|].
    apply Z.log2_lt_pow2; [lia|]. apply Z.lt_le_trans with (2 ^ n); [lia|].
    apply Z.pow_le_mono_r; lia.
Qed.

Lemma lor_mul_pow2_add a b n : 0 <= n -> 0 <= b < 2 ^ n -> Z.lor (a * 2 ^ n) b = a * 2 ^ n + b.
Proof. intros; apply lor_add_disjoint, land_mul_pow2_small; assumption. Qed.
