(** C12 at the level of whole runs: every send request is completed at most once, whatever
    the schedule; completions only concern requests that were accepted and not completed yet. *)
From Coq Require Import Sorting.Permutation.
From IsoTp Require Import Base.Prelude Model.Micro.

Definition dones (evs : list event) : list Z :=
  flat_map (fun e => match e with EDone r _ => [r] | _ => [] end) evs.

Definition act_ids (s : layer) : list Z := match active s with Some r => [r_id r] | None => [] end.

(** identifiers of the requests the layer still owes a completion to *)
Definition live (s : layer) : list Z := map r_id (tx_queue s) ++ act_ids s.

Lemma dones_app a b : dones (a ++ b) = dones a ++ dones b.
Proof. unfold dones. apply flat_map_app. Qed.

(** [Step s s' evs]: each completion reported in [evs] removes exactly one live request. *)
Definition Step (s s' : layer) (evs : list event) : Prop :=
  Permutation (live s) (live s' ++ dones evs) /\ next_req_id s' = next_req_id s.

Lemma Step_same s s' : tx_queue s' = tx_queue s -> active s' = active s -> next_req_id s' = next_req_id s -> Step s s' [].
Proof.
  intros Hq Ha Hn. split; [|exact Hn]. unfold live, act_ids. rewrite Hq, Ha. cbn. rewrite app_nil_r. apply Permutation_refl.
Qed.

Lemma Step_live s s' evs : live s' = live s -> next_req_id s' = next_req_id s -> dones evs = [] -> Step s s' evs.
Proof. intros Hl Hn Hd. split; [|exact Hn]. rewrite Hl, Hd, app_nil_r. apply Permutation_refl. Qed.

Lemma Step_trans s1 s2 s3 e1 e2 : Step s1 s2 e1 -> Step s2 s3 e2 -> Step s1 s3 (e1 ++ e2).
Proof.
  intros [P1 N1] [P2 N2]. split; [|congruence].
  rewrite dones_app. eapply Permutation_trans; [exact P1|].
  eapply Permutation_trans; [apply Permutation_app_tail; exact P2|].
  rewrite <- !app_assoc. apply Permutation_app_head. apply Permutation_app_comm.
Qed.

Lemma Step_evs s s' e e' : dones e' = dones e -> Step s s' e -> Step s s' e'.
Proof. intros H [P N]. split; [rewrite H; exact P|exact N]. Qed.

Lemma consume_id size exact r : r_id (snd (consume size exact r)) = r_id r.
Proof.
  unfold consume. destruct (gen_take size (r_gen r)) as [data g']. cbn.
  destruct (Z.ltb _ _); [reflexivity|]. destruct (zlen data <? size); [destruct exact|]; reflexivity.
Qed.

Lemma Step_stop_sending b s : Step s (fst (stop_sending b s)) (snd (stop_sending b s)).
Proof.
  unfold stop_sending, Step, live, act_ids. cbn. split; [|reflexivity].
  destruct (active s) as [r|]; cbn; rewrite ?app_nil_r; apply Permutation_refl.
Qed.

Lemma Step_stop_sending' b s s' evs : stop_sending b s = (s', evs) -> Step s s' evs.
Proof. intros E. pose proof (Step_stop_sending b s) as H. rewrite E in H. exact H. Qed.

(** replacing the active request by one with the same identifier does not change [live] *)
Lemma live_set_active s r r' : active s = Some r -> r_id r' = r_id r -> live (s <| active := Some r' |>) = live s.
Proof. intros Ha Hi. unfold live, act_ids. cbn. rewrite Ha, Hi. reflexivity. Qed.

Lemma Step_lim_inform p n s : Step s (lim_inform p n s) [].
Proof.
  unfold lim_inform. destruct (negb (p_lim_enable p)); [apply Step_same; reflexivity|].
  destruct (lim_times s); [apply Step_same; reflexivity|]. destruct (SLOT_NS <? _); apply Step_same; reflexivity.
Qed.

Lemma Step_tx_finish p s evs out imm : Step s (tr_s (tx_finish p s evs out imm)) [].
Proof. unfold tx_finish. destruct out; cbn [tr_s mk_tr]; [apply Step_lim_inform|apply Step_same; reflexivity]. Qed.

Lemma tx_finish_evs' p s evs out imm : tr_evs (tx_finish p s evs out imm) = evs.
Proof. unfold tx_finish. destruct out; reflexivity. Qed.

Lemma Step_nil_r s s' e : Step s s' (e ++ []) -> Step s s' e.
Proof. rewrite app_nil_r. auto. Qed.

(** start of a request that has just been made the active one *)
Lemma Step_start_request c s r allowed s' evs out :
  active s = Some r ->
  start_request c s r allowed = SRDone s' evs out -> Step s s' evs.
Proof.
  intros Hact. unfold start_request.
  destruct (r_size r <=? _).
  - pose proof (consume_id (r_size r) true r) as Hid.
    destruct (consume (r_size r) true r) as [[payload|] r']; cbn [snd] in Hid.
    + destruct (make_tx_msg _ _ _); [|discriminate].
      destruct (allowed <? _).
      * intros E; injection E as <- <- _. apply Step_live; [|reflexivity|reflexivity].
        unfold live, act_ids. cbn. rewrite Hact, Hid. reflexivity.
      * destruct (stop_sending true _) as [s2 e2] eqn:Es. intros E; injection E as <- <- _.
        apply Step_stop_sending' in Es. destruct Es as [P N]. split; [|exact N].
        rewrite <- P. unfold live, act_ids. cbn. rewrite Hact, Hid. apply Permutation_refl.
    + destruct (stop_sending false _) as [s2 e2] eqn:Es. intros E; injection E as <- <- _.
      apply Step_stop_sending' in Es. destruct Es as [P N]. split; [|exact N].
      cbn [dones flat_map app]. rewrite <- P. unfold live, act_ids. cbn. rewrite Hact, Hid. apply Permutation_refl.
  - match goal with |- context [consume ?n true r] => pose proof (consume_id n true r) as Hid;
      destruct (consume n true r) as [[payload|] r'] end; cbn [snd] in Hid.
    + destruct (make_tx_msg _ _ _); [|discriminate].
      destruct (_ <=? allowed); intros E; injection E as <- <- _; (apply Step_live; [|reflexivity|reflexivity]);
        unfold live, act_ids; cbn; rewrite Hact, Hid; reflexivity.
    + destruct (stop_sending false _) as [s2 e2] eqn:Es. intros E; injection E as <- <- _.
      apply Step_stop_sending' in Es. destruct Es as [P N]. split; [|exact N].
      cbn [dones flat_map app]. rewrite <- P. unfold live, act_ids. cbn. rewrite Hact, Hid. apply Permutation_refl.
Qed.

(** the dequeue loop of the idle branch: [q] is what is still to be looked at, the state's own
    queue field is only rewritten at the end *)
Lemma Step_idle_dequeue c q : forall s evs allowed s' evs' out,
  active s = None ->
  idle_dequeue c q s evs allowed = SRDone s' evs' out ->
  exists e2, evs' = evs ++ e2 /\
    Permutation (map r_id q) (live s' ++ dones e2) /\ next_req_id s' = next_req_id s.
Proof.
  induction q as [|r rest IH]; intros s evs allowed s' evs' out Hact; cbn [idle_dequeue].
  - intros E; injection E as <- <- _. exists []. rewrite app_nil_r. split; [reflexivity|].
    unfold live, act_ids. cbn. rewrite Hact. cbn. split; [apply Permutation_refl|reflexivity].
  - destruct (r_is_depleted r).
    + intros E. apply IH in E; [|reflexivity]. destruct E as (e2 & -> & P & N).
      exists (EDone (r_id r) true :: e2). rewrite <- app_assoc. split; [reflexivity|].
      cbn [map dones flat_map app]. split; [|exact N].
      eapply Permutation_trans; [apply perm_skip; exact P|]. apply Permutation_middle.
    + destruct (start_request _ _ _ _) as [site|s1 e1 o1] eqn:Es; [discriminate|].
      intros E; injection E as <- <- _. exists e1. split; [reflexivity|].
      apply Step_start_request in Es; [|reflexivity]. destruct Es as [P N].
      split; [|exact N]. rewrite <- P. unfold live, act_ids. cbn.
      eapply Permutation_trans; [|apply Permutation_app_comm]. apply Permutation_refl.
Qed.

Lemma Step_handle_fc_active c s fc : Step s (fst (handle_fc_active c s fc)) (snd (handle_fc_active c s fc)).
Proof.
  unfold handle_fc_active.
  destruct (fc_status fc =? FS_WAIT).
  - destruct (p_wftmax _ =? 0); [apply Step_live; reflexivity|]. destruct (timer_timed_out _ _); [apply Step_same; reflexivity|].
    destruct (p_wftmax _ <=? _).
    + pose proof (Step_stop_sending false s) as H. destruct (stop_sending false s) as [s1 e1]. cbn [fst snd] in *.
      eapply Step_evs; [|exact H]. reflexivity.
    + apply Step_same; reflexivity.
  - destruct ((fc_status fc =? FS_CTS) && _); [|apply Step_same; reflexivity].
    cbn [fst snd]. cbn [tx_state set RecordSet.set]. destruct (tx_state s); apply Step_same; reflexivity.
Qed.

Lemma Step_handle_fc c s fc : Step s (fst (snd (handle_fc c s fc))) (snd (snd (handle_fc c s fc))).
Proof.
  unfold handle_fc. destruct (fc_status fc =? FS_OVFLW).
  - pose proof (Step_stop_sending false s) as H. destruct (stop_sending false s) as [s1 e1]. cbn [fst snd] in *.
    eapply Step_evs; [|exact H]. rewrite dones_app. cbn. rewrite app_nil_r. reflexivity.
  - cbn [snd]. destruct (tx_state s); try (apply Step_live; reflexivity); apply Step_handle_fc_active.
Qed.

Lemma Step_tx_after_fc c s :
  match tx_after_fc c s with
  | inl r => Step s (tr_s r) (tr_evs r)
  | inr (s', evs) => Step s s' evs
  end.
Proof.
  unfold tx_after_fc.
  set (s0 := s <| last_fc := None |>).
  assert (H0 : Step s s0 []) by (apply Step_same; reflexivity).
  assert (Ha : forall b s1 e, (match last_fc s with None => (false, (s0, [])) | Some f => handle_fc c s0 f end) = (b, (s1, e)) -> Step s s1 e).
  { intros b s1 e. destruct (last_fc s) as [f|].
    - intros E. pose proof (Step_handle_fc c s0 f) as H. rewrite E in H. cbn [fst snd] in H. exact (Step_trans _ _ _ _ _ H0 H).
    - intros E; injection E as _ <- <-. exact H0. }
  destruct (match last_fc s with None => _ | Some f => _ end) as [b [s1 evs1]] eqn:E.
  specialize (Ha b s1 evs1 eq_refl).
  destruct b; [cbn; exact Ha|].
  assert (Hto : Step s (fst (if timer_timed_out (now s1) (timer_rx_fc s1)
                             then let '(s', e) := stop_sending false s1 in (s', EErr FlowControlTimeout :: e)
                             else (s1, [])))
                       (evs1 ++ snd (if timer_timed_out (now s1) (timer_rx_fc s1)
                             then let '(s', e) := stop_sending false s1 in (s', EErr FlowControlTimeout :: e)
                             else (s1, [])))).
  { destruct (timer_timed_out _ _); [|cbn [fst snd]; rewrite app_nil_r; exact Ha].
    pose proof (Step_stop_sending false s1) as Hss. destruct (stop_sending false s1) as [s' e']. cbn [fst snd] in *.
    apply (Step_trans _ _ _ _ _ Ha). eapply Step_evs; [|exact Hss]. reflexivity. }
  destruct (if timer_timed_out (now s1) (timer_rx_fc s1) then _ else _) as [s2 evs2]. cbn [fst snd] in Hto.
  destruct (tx_state s2) eqn:Est; [exact Hto|..];
    (destruct (active s2) as [r|]; [|cbn; eapply Step_evs; [|exact Hto]; rewrite !dones_app; cbn; rewrite app_nil_r; reflexivity];
     destruct (r_is_depleted r && _); [|exact Hto];
     pose proof (Step_stop_sending true s2) as Hss; destruct (stop_sending true s2) as [s3 e3]; cbn [fst snd] in Hss;
     rewrite app_assoc; exact (Step_trans _ _ _ _ _ Hto Hss)).
Qed.

Lemma Step_tx_cf c a s evs :
  exists e2, tr_evs (tx_cf c a s evs) = evs ++ e2 /\ Step s (tr_s (tx_cf c a s evs)) e2.
Proof.
  assert (Hnil : forall s', Step s s' [] -> exists e2, evs = evs ++ e2 /\ Step s s' e2).
  { intros s' H. exists []. rewrite app_nil_r. auto. }
  unfold tx_cf.
  destruct (remote_bs s) as [rbs|]; [|exists [ECrash 8]; split; [reflexivity|apply Step_live; reflexivity]].
  destruct (active s) as [r|] eqn:Hact; [|exists [ECrash 8]; split; [reflexivity|apply Step_live; reflexivity]].
  destruct (timer_timed_out _ _); [|rewrite tx_finish_evs'; apply Hnil, Step_tx_finish].
  destruct (_ <=? a); [|rewrite tx_finish_evs'; apply Hnil, Step_tx_finish].
  match goal with |- context [consume ?n false r] => pose proof (consume_id n false r) as Hid;
    destruct (consume n false r) as [[payload|] r'] end; cbn [snd] in Hid;
    [|exists [ECrash 6]; split; [reflexivity|apply Step_live; reflexivity]].
  assert (Hl4 : forall s4, tx_queue s4 = tx_queue s -> active s4 = Some r' -> next_req_id s4 = next_req_id s -> Step s s4 []).
  { intros s4 Hq Ha Hn. apply Step_live; [|exact Hn|reflexivity]. unfold live, act_ids. rewrite Hq, Ha, Hact, Hid. reflexivity. }
  (* what follows the construction of the frame, for any state [s5] that still holds the request *)
  assert (Htail : forall s5 out, Step s s5 [] ->
    exists e2,
      tr_evs (if r_is_depleted r' then
                if 0 <? r_remaining r' then let '(s6, e6) := stop_sending false s5 in tx_finish (c_p c) s6 (evs ++ EErr BadGenerator :: e6) out false
                else let '(s6, e6) := stop_sending true s5 in tx_finish (c_p c) s6 (evs ++ e6) out false
              else if negb (rbs =? 0) && (rbs <=? tx_block_counter s5) then tx_finish (c_p c) (start_rx_fc_timer c (s5 <| tx_state := TxWaitFC |>)) evs out true
              else tx_finish (c_p c) s5 evs out false) = evs ++ e2 /\
      Step s (tr_s (if r_is_depleted r' then
                if 0 <? r_remaining r' then let '(s6, e6) := stop_sending false s5 in tx_finish (c_p c) s6 (evs ++ EErr BadGenerator :: e6) out false
                else let '(s6, e6) := stop_sending true s5 in tx_finish (c_p c) s6 (evs ++ e6) out false
              else if negb (rbs =? 0) && (rbs <=? tx_block_counter s5) then tx_finish (c_p c) (start_rx_fc_timer c (s5 <| tx_state := TxWaitFC |>)) evs out true
              else tx_finish (c_p c) s5 evs out false)) e2).
  { intros s5 out H5.
    destruct (r_is_depleted r').
    - destruct (0 <? r_remaining r').
      + pose proof (Step_stop_sending false s5) as Hss. destruct (stop_sending false s5) as [s6 e6]. cbn [fst snd] in Hss.
        rewrite tx_finish_evs'. exists (EErr BadGenerator :: e6). split; [reflexivity|].
        apply (Step_evs _ _ (([] ++ e6) ++ [])); [rewrite app_nil_r; reflexivity|].
        exact (Step_trans _ _ _ _ _ (Step_trans _ _ _ _ _ H5 Hss) (Step_tx_finish _ _ _ _ _)).
      + pose proof (Step_stop_sending true s5) as Hss. destruct (stop_sending true s5) as [s6 e6]. cbn [fst snd] in Hss.
        rewrite tx_finish_evs'. exists e6. split; [reflexivity|].
        apply (Step_evs _ _ (([] ++ e6) ++ [])); [rewrite app_nil_r; reflexivity|].
        exact (Step_trans _ _ _ _ _ (Step_trans _ _ _ _ _ H5 Hss) (Step_tx_finish _ _ _ _ _)).
    - destruct (negb (rbs =? 0) && _); rewrite tx_finish_evs'; apply Hnil.
      + refine (Step_trans _ _ _ [] [] (Step_trans _ _ _ [] [] H5 _) (Step_tx_finish _ _ _ _ _)). apply Step_same; reflexivity.
      + exact (Step_trans _ _ _ [] [] H5 (Step_tx_finish _ _ _ _ _)). }
  destruct (0 <? zlen payload).
  - destruct (make_tx_msg _ _ _) as [mm|]; [|exists [ECrash 7]; split; [reflexivity|apply Hl4; reflexivity]].
    apply Htail. apply Hl4; reflexivity.
  - apply Htail. apply Hl4; reflexivity.
Qed.

Lemma Step_tx_fsm c a s evs : (tx_state s = TxIdle -> active s = None) ->
  exists e2, tr_evs (tx_fsm c a s evs) = evs ++ e2 /\ Step s (tr_s (tx_fsm c a s evs)) e2.
Proof.
  intros Hidle.
  assert (Hnil : forall s', Step s s' [] -> exists e2, evs = evs ++ e2 /\ Step s s' e2).
  { intros s' H. exists []. rewrite app_nil_r. auto. }
  unfold tx_fsm. destruct (tx_state s) eqn:Est.
  - specialize (Hidle eq_refl).
    destruct (idle_dequeue _ _ _ _ _) as [site|s4 e4 out] eqn:Ed.
    + exists [ECrash site]. split; [reflexivity|apply Step_live; reflexivity].
    + apply Step_idle_dequeue in Ed; [|exact Hidle]. destruct Ed as (e2 & -> & P & N). cbn [app] in *.
      rewrite tx_finish_evs'. exists e2. split; [reflexivity|].
      apply (Step_evs _ _ (e2 ++ [])); [rewrite app_nil_r; reflexivity|].
      refine (Step_trans _ _ _ _ _ _ (Step_tx_finish _ _ _ _ _)).
      split; [|exact N]. unfold live at 1, act_ids. rewrite Hidle, app_nil_r. exact P.
  - rewrite tx_finish_evs'. apply Hnil, Step_tx_finish.
  - apply Step_tx_cf.
  - destruct (tx_standby s); [|rewrite tx_finish_evs'; apply Hnil, Step_tx_finish].
    destruct (_ <=? a); [|rewrite tx_finish_evs'; apply Hnil, Step_tx_finish].
    match goal with |- context [stop_sending true ?x] => pose proof (Step_stop_sending true x) as Hss; destruct (stop_sending true x) as [s5 e5] end.
    cbn [fst snd] in Hss. rewrite tx_finish_evs'. exists e5. split; [reflexivity|].
    apply (Step_evs _ _ (([] ++ e5) ++ [])); [rewrite app_nil_r; reflexivity|].
    refine (Step_trans _ _ _ _ _ (Step_trans _ _ _ [] _ _ Hss) (Step_tx_finish _ _ _ _ _)). apply Step_same; reflexivity.
  - destruct (tx_standby s); [|rewrite tx_finish_evs'; apply Hnil, Step_tx_finish].
    destruct (_ <=? a); [|rewrite tx_finish_evs'; apply Hnil, Step_tx_finish].
    rewrite tx_finish_evs'. apply Hnil.
    refine (Step_trans _ _ _ [] [] _ (Step_tx_finish _ _ _ _ _)). apply Step_same; reflexivity.
Qed.

From IsoTp Require Import Proofs.Inv Proofs.Events Proofs.DuplexP.

Theorem Step_process_tx c s : WF c s -> Step s (tr_s (process_tx c s)) (tr_evs (process_tx c s)).
Proof.
  intros Hwf.
  assert (Hmain : forall a s1, WF c s1 -> Step s1 (tr_s (process_tx_main c a s1)) (tr_evs (process_tx_main c a s1))).
  { intros a s1 H1. unfold process_tx_main.
    pose proof (Step_tx_after_fc c s1) as Hf. pose proof (WF_tx_after_fc c s1 H1) as Hw.
    destruct (tx_after_fc c s1) as [r|[s3 evs]]; [exact Hf|].
    destruct Hw as [Hw3 _].
    destruct (Step_tx_fsm c a s3 evs) as (e2 & He & Hs).
    { intros Hi. apply (wf_active c s3 Hw3). exact Hi. }
    rewrite He. exact (Step_trans _ _ _ _ _ Hf Hs). }
  unfold process_tx. destruct (pending_fc s) eqn:Ep; [|apply Hmain; exact Hwf].
  pose proof (WF_tx_pending c s Hwf Ep) as Hw2.
  set (s2 := if opt_eqb _ _ then _ else _) in *.
  assert (H2 : Step s s2 []).
  { subst s2. destruct (opt_eqb _ _); apply Step_same; reflexivity. }
  destruct (negb (p_listen (c_p c))).
  - destruct (pending_fc_status s2) as [st|]; [destruct (make_flow_control c st)|]; cbn [tr_s tr_evs mk_tr mk_crash];
      try exact H2; (eapply Step_evs; [|exact H2]); reflexivity.
  - exact (Step_trans _ _ _ [] _ H2 (Hmain _ s2 Hw2)).
Qed.

Lemma dones_rx_ok evs : forallb rx_ev_ok evs = true -> dones evs = [].
Proof.
  induction evs as [|e r IH]; [reflexivity|]. cbn [forallb]. intros H. apply andb_true_iff in H. destruct H as [H1 H2].
  destruct e; cbn in *; try discriminate; auto.
Qed.

Lemma txv_live s s' : txv s' = txv s -> live s' = live s /\ next_req_id s' = next_req_id s.
Proof.
  unfold txv. intros E.
  pose proof (f_equal (fun '(_, _, q, a, _, _, _, _, _, _, _, _, _, _, _, n) => (q, a, n)) E) as E'.
  cbv beta iota in E'. injection E' as E1 E2 E3. unfold live, act_ids. rewrite E1, E2. auto.
Qed.

(** every micro-step except send(): completions remove live requests one for one *)
Theorem Step_mstep c s m : WF c s -> (forall g size t, m <> MSend g size t) ->
  Step s (fst (mstep c s m)) (snd (mstep c s m)).
Proof.
  intros Hwf Hns. destruct m; cbn [mstep fst snd].
  - destruct (txv_live _ _ (check_timeouts_preserves_tx s)) as [Hl Hn]. apply Step_live; [exact Hl|exact Hn|].
    destruct (check_timeouts_evs s) as [-> | ->]; reflexivity.
  - assert (Hd : dones (rr_evs (process_rx c s f)) = []) by (apply dones_rx_ok, process_rx_evs).
    destruct (pdu_decode (f_data f) (c_rx_prefix_size c)) as [d|] eqn:Ed.
    + destruct (d_pdu d) as [esc l data|l len data|sn data|fs bs st] eqn:Ep.
      4: { rewrite (rx_fc_only_mailbox c s f d fs bs st Ed Ep). cbn [rr_s rr_evs mk_rr]. apply Step_same; reflexivity. }
      all: destruct (txv_live _ _ (proj1 (rx_data_preserves_tx c s f
             ltac:(intros d' fs' bs' st' Hd'; rewrite Ed in Hd'; injection Hd' as <-; rewrite Ep; discriminate)))) as [Hl Hn];
           apply Step_live; assumption.
    + destruct (txv_live _ _ (proj1 (rx_data_preserves_tx c s f
             ltac:(intros d' fs' bs' st' Hd'; rewrite Ed in Hd'; discriminate)))) as [Hl Hn].
      apply Step_live; assumption.
  - unfold lim_update. destruct (negb _); [apply Step_same; reflexivity|].
    destruct (lim_pop _ _ _ _ _) as [[ts bs] tot]. apply Step_same; reflexivity.
  - pose proof (Step_process_tx c s Hwf) as H. eapply Step_evs; [|exact H].
    unfold tx_events. rewrite dones_app. destruct (tr_crash _); [cbn; apply app_nil_r|].
    destruct (tr_msg _); cbn; apply app_nil_r.
  - exfalso. eapply Hns. reflexivity.
  - unfold recv. destruct (rx_queue s); apply Step_same; reflexivity.
  - apply Step_stop_sending.
  - apply Step_same; reflexivity.
  - (* reset *)
    unfold reset. cbn [fst snd stop_sending]. split; [|reflexivity].
    unfold live, act_ids. cbn. rewrite dones_app.
    assert (Hq : dones (map (fun r => EDone (r_id r) false) (tx_queue s)) = map r_id (tx_queue s)).
    { induction (tx_queue s) as [|r q IH]; [reflexivity|]. cbn. f_equal. exact IH. }
    rewrite Hq. destruct (active s); cbn; apply Permutation_refl.
  - apply Step_same; reflexivity.
Qed.

(** *** Whole runs *)
Definition Inv2 (s : layer) (done : list Z) : Prop :=
  NoDup (live s ++ done) /\ (forall x, In x (live s ++ done) -> x < next_req_id s).

Lemma Inv2_step c s done m : WF c s -> Inv2 s done ->
  Inv2 (fst (mstep c s m)) (done ++ dones (snd (mstep c s m))).
Proof.
  intros Hwf [Hnd Hlt].
  assert (Hother : (forall g size t, m <> MSend g size t) -> Inv2 (fst (mstep c s m)) (done ++ dones (snd (mstep c s m)))).
  { intros Hns. destruct (Step_mstep c s m Hwf Hns) as [P N].
    assert (P2 : Permutation (live s ++ done) (live (fst (mstep c s m)) ++ done ++ dones (snd (mstep c s m)))).
    { eapply Permutation_trans; [apply Permutation_app_tail; exact P|].
      rewrite <- app_assoc. apply Permutation_app_head. apply Permutation_app_comm. }
    split.
    - eapply Permutation_NoDup; [exact P2|exact Hnd].
    - intros x Hx. rewrite N. apply Hlt. eapply Permutation_in; [apply Permutation_sym; exact P2|exact Hx]. }
  destruct m; try (apply Hother; intros; discriminate).
  (* send(): the new request gets a fresh identifier *)
  cbn [mstep fst snd dones flat_map]. rewrite app_nil_r. unfold send.
  destruct (size <? 0); [split; assumption|]. destruct (_ <? size); [split; assumption|].
  destruct (match match t with Some x => x | None => _ end with Functional => _ | Physical => _ end); [split; assumption|].
  cbn [fst]. unfold Inv2, live, act_ids in *. cbn [tx_queue active next_req_id set RecordSet.set]. rewrite map_app. cbn [map r_id].
  assert (P : Permutation (next_req_id s :: (map r_id (tx_queue s) ++ match active s with Some r => [r_id r] | None => [] end) ++ done)
                          (((map r_id (tx_queue s) ++ [next_req_id s]) ++ match active s with Some r => [r_id r] | None => [] end) ++ done)).
  { rewrite <- !app_assoc. apply Permutation_middle. }
  split.
  - eapply Permutation_NoDup; [exact P|]. constructor; [|exact Hnd].
    intros Hin. specialize (Hlt _ Hin). lia.
  - intros x Hx. apply (Permutation_in _ (Permutation_sym P)) in Hx. destruct Hx as [<-|Hx]; [lia|]. specialize (Hlt _ Hx). lia.
Qed.

Theorem once_run c : forall ms s done, WF c s -> Inv2 s done ->
  Inv2 (fst (mrun c s ms)) (done ++ dones (snd (mrun c s ms))).
Proof.
  induction ms as [|m rest IH]; intros s done Hwf Hi; cbn [mrun].
  - cbn. rewrite app_nil_r. exact Hi.
  - pose proof (Inv2_step c s done m Hwf Hi) as H1. pose proof (WF_mstep c s m Hwf) as Hw1.
    destruct (mstep c s m) as [s1 e1]. cbn [fst snd] in *.
    specialize (IH s1 (done ++ dones e1) Hw1 H1).
    destruct (mrun c s1 rest) as [s2 e2]. cbn [fst snd] in *.
    rewrite dones_app, app_assoc. exact IH.
Qed.

(** Along any run from the initial state - any schedule of process() passes, user calls,
    received frames and ticks - no request is completed twice, and every completion concerns a
    request that send() accepted earlier. *)
Lemma NoDup_app_r {A} (a b : list A) : NoDup (a ++ b) -> NoDup b.
Proof. induction a as [|x a IH]; [auto|]. cbn. intros H. inversion H; subst. auto. Qed.

Theorem exactly_once c t0 ms :
  let '(s, evs) := mrun c (init_layer c t0) ms in
  NoDup (dones evs) /\ (forall x, In x (dones evs) -> x < next_req_id s) /\
  (forall x, In x (live s) -> ~ In x (dones evs)).
Proof.
  pose proof (once_run c ms (init_layer c t0) [] (WF_init c t0)) as H.
  destruct (mrun c (init_layer c t0) ms) as [s evs]. cbn [fst snd app] in H.
  assert (H0 : Inv2 (init_layer c t0) []).
  { split; [constructor|]. intros x Hx. cbn in Hx. contradiction. }
  destruct (H H0) as [Hnd Hlt].
  split; [exact (NoDup_app_r _ _ Hnd)|]. split.
  - intros x Hx. apply Hlt. apply in_or_app. right. exact Hx.
  - intros x Hl Hd.
    clear -Hnd Hl Hd. induction (live s) as [|y l IH]; [contradiction|].
    cbn in Hnd. inversion Hnd as [|? ? Hni Hnd']; subst. destruct Hl as [->|Hl].
    + apply Hni. apply in_or_app. right. exact Hd.
    + apply IH; assumption.
Qed.
