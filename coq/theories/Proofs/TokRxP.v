(** Flow-control credit, receiver side.  A receiver that has consumed the data frames [C] (all on script:
    in-order frames of well-formed streams) has issued exactly one ContinueToSend request per flow-control
    point of [C] ([scan]), its block counter and missing-byte count are those of the scan, and a pending
    Flow Control is always a ContinueToSend. *)
From IsoTp Require Import Base.Prelude Base.Bits Model.Micro Spec.ConfigSpec Spec.Stream
  Proofs.Codec Proofs.FramesP Proofs.RxP Proofs.DuplexP Proofs.SendTraceP Proofs.RecvTraceP Proofs.WireP Proofs.ScanP.

Definition b2z (b : bool) : Z := if b then 1 else 0.

Section TokRx.
Variable c : cfg.
Let k := c_rx_prefix_size c.
Let bs := p_blocksize (c_p c).

Definition RXI (s : layer) (C : list frame) (gi : Z) : Prop :=
  gi = sc_pts (scan k bs C) /\
  (pending_fc s = true -> pending_fc_status s = Some FS_CTS) /\
  match rx_state s with
  | RxIdle => sc_rem (scan k bs C) = 0
  | RxWaitCF => rx_block_counter s = sc_k (scan k bs C) /\
                rx_frame_length s - zlen (rx_buffer s) = sc_rem (scan k bs C) /\ 0 < sc_rem (scan k bs C)
  end.

(** the fields of the reception the credit argument looks at *)
Definition rtok (s : layer) := (rx_state s, rx_block_counter s, rx_frame_length s, rx_buffer s, pending_fc s, pending_fc_status s).

Lemma RXI_rtok s s' C gi : rtok s' = rtok s -> RXI s C gi -> RXI s' C gi.
Proof. unfold rtok. intros E. injection E as E1 E2 E3 E4 E5 E6. unfold RXI. rewrite E1, E2, E3, E4, E5, E6. auto. Qed.

Lemma rxv_rtok s s' : rxv s' = rxv s -> rtok s' = rtok s.
Proof.
  unfold rxv, rtok. intros E.
  pose proof (f_equal (fun '(_, st, b, fl, _, bc, _, _, _, pf, ps) => (st, bc, fl, b, pf, ps)) E) as E'. exact E'.
Qed.

Lemma nonempty_pos {A} (l : list A) : l <> [] -> 0 < zlen l.
Proof. destruct l; [congruence|]. intros _. rewrite zlen_cons. pose proof (zlen_nonneg l). lia. Qed.

(** the receiver processes the data frame its script expects: state and scan move together; the request
    for a Flow Control is raised exactly at the points *)
Lemma RXI_data s cur S D f C gi :
  script_ok c S -> RT c s cur D -> expected cur S = Some (f_data f) -> RXI s C gi ->
  let s' := rr_s (process_rx c s f) in
  let gi' := sc_pts (scan k bs (C ++ [f])) in
  RXI s' (C ++ [f]) gi' /\ gi <= gi' /\
  b2z (pending_fc s') <= b2z (pending_fc s) + (gi' - gi) /\
  (last_fc s' = last_fc s \/ last_fc s' = None).
Proof.
  intros HS [HQ HR] Hexp (Hgi & Hpend & Hst). cbv zeta. unfold RXI. rewrite !scan_snoc.
  pose proof (k_bounds c) as Hk. fold k in Hk.
  destruct cur as [[p todo]|].
  - (* in the middle of a stream *)
    destruct HR as (T & j & rest & HT & Hcfs & Hj & Hrs & Hdl & Hfl & Hsq & Hp).
    pose proof (in_ll_sizes T HT) as HTs.
    rewrite Hrs in Hst. destruct Hst as (Hbc & Hrem & Hpos).
    destruct todo as [|d todo']; [discriminate|]. cbn [expected] in Hexp. injection Hexp as Hd.
    assert (Hrest : zlen rest = sc_rem (scan k bs C)) by lia.
    revert Hd. inversion Hcfs as [j0 rest0 pre pad Hpre Hne Hlen Hmax Ej Er Ef | j0 chunk rest' pre tl Hpre Hchunk Hne Hcfs' Ej Er Ef]; subst; intros Hd.
    + (* last frame: reception completed *)
      assert (Hfd : f_data f = pre ++ (0x20 + j mod 16) :: rest ++ pad) by (symmetry; exact Hd).
      unfold scan_frame, process_rx. rewrite Hfd. fold k.
      rewrite (decode_cf pre (j mod 16) (rest ++ pad) k Hpre) by (apply Z.mod_pos_bound; lia).
      cbn [d_pdu d_can_dl d_rx_dl]. rewrite Hrs. cbv iota.
      rewrite Hsq, seq_next by lia. rewrite Z.eqb_refl.
      set (rxdl := Z.max 8 _).
      replace (rx_frame_length s - zlen (rx_buffer s)) with (zlen rest) by lia.
      assert (Hchk : negb (opt_eqb (Some rxdl) (actual_rxdl s)) && (rxdl <? zlen rest) = false).
      { apply andb_false_iff. right. apply Z.ltb_ge. subst rxdl.
        rewrite zlen_app, zlen_cons, zlen_app. pose proof (zlen_nonneg pad). pose proof (zlen_nonneg pre). lia. }
      rewrite Hchk. rewrite (ztake_app_exact rest pad) by reflexivity.
      cbn [rx_frame_length rx_buffer start_rx_cf_timer].
      assert (Hdone : (rx_frame_length s <=? zlen (rx_buffer s ++ rest)) = true) by (apply Z.leb_le; rewrite zlen_app; lia).
      cbn. rewrite Hdone. cbn.
      rewrite zlen_app. pose proof (zlen_nonneg pad) as Hpd.
      rewrite <- Hrest. rewrite Z.max_l by lia. cbn [Z.ltb]. rewrite andb_false_r.
      cbn [sc_pts sc_rem sc_k]. rewrite Z.add_0_r.
      split; [split; [reflexivity|split; [discriminate|reflexivity]]|]. split; [lia|]. split; [unfold b2z; destruct (pending_fc s); lia|right; reflexivity].
    + (* a full frame, more to come *)
      assert (Hfd : f_data f = pre ++ (0x20 + j mod 16) :: chunk) by (symmetry; exact Hd).
      unfold scan_frame, process_rx. rewrite Hfd. fold k.
      rewrite (decode_cf pre (j mod 16) chunk k Hpre) by (apply Z.mod_pos_bound; lia).
      cbn [d_pdu d_can_dl d_rx_dl]. rewrite Hrs. cbv iota.
      rewrite Hsq, seq_next by lia. rewrite Z.eqb_refl.
      assert (Hrxdl : Z.max 8 (zlen (pre ++ (32 + j mod 16) :: chunk)) = T) by (rewrite zlen_app, zlen_cons; lia).
      rewrite Hrxdl, Hdl. cbn [opt_eqb]. rewrite Z.eqb_refl. cbn [negb andb].
      pose proof (nonempty_pos rest' Hne) as Hr'. rewrite zlen_app in Hrest, Hfl.
      rewrite (ztake_all chunk) by lia.
      cbn [rx_frame_length rx_buffer start_rx_cf_timer].
      assert (Hnot : (rx_frame_length s <=? zlen (rx_buffer s ++ chunk)) = false) by (apply Z.leb_gt; rewrite zlen_app; lia).
      cbn. rewrite Hnot. cbn.
      rewrite Hbc. fold bs.
      rewrite <- Hrest. replace (zlen chunk + zlen rest' - zlen chunk) with (zlen rest') by lia.
      rewrite Z.max_r by lia. destruct (Z.ltb_spec 0 (zlen rest')) as [_|]; [|lia]. rewrite andb_true_r.
      destruct ((0 <? bs) && ((sc_k (scan k bs C) + 1) mod bs =? 0)) eqn:Ept; cbn.
      * cbn. rewrite zlen_app, ?Hrs.
        split; [split; [reflexivity|split; [reflexivity|repeat split; lia]]|]. split; [lia|]. split; [unfold b2z; destruct (pending_fc s); lia|left; reflexivity].
      * cbn. rewrite zlen_app, ?Hrs.
        split; [split; [reflexivity|split; [exact Hpend|repeat split; lia]]|]. split; [lia|]. split; [unfold b2z; destruct (pending_fc s); lia|left; reflexivity].
  - (* at a stream boundary: the receiver is idle *)
    rewrite HR in Hst.
    destruct S as [|[p fs] S']; [discriminate|]. cbn [expected] in Hexp.
    destruct fs as [|d fs']; [discriminate|]. injection Hexp as Hd. revert Hd.
    inversion HS as [|? ? [Hwf Hmax] HS']; subst. cbn [fst snd] in Hwf, Hmax.
    inversion Hwf as [pre pad Hpre Hn Hlen Ef | pre pad Hpre Hn Hlen Ef | T pre first rest cfs HT Hpre Hp Hne Hn Hlen Hcfs Ef]; subst; intros Hd.
    + assert (Hfd : f_data f = pre ++ zlen p :: p ++ pad) by (symmetry; exact Hd).
      unfold scan_frame, process_rx. rewrite Hfd. fold k.
      rewrite (decode_sf_short pre (zlen p) p pad k Hpre eq_refl Hn). cbn [d_pdu d_can_dl].
      destruct (Z.ltb_spec 8 (zlen (pre ++ zlen p :: p ++ pad))) as [Hx|_]; [lia|]. cbn [andb]. rewrite HR. cbn.
      cbn. rewrite ?HR.
      split; [split; [reflexivity|split; [exact Hpend|reflexivity]]|]. split; [lia|]. split; [unfold b2z; destruct (pending_fc s); lia|left; reflexivity].
    + assert (Hfd : f_data f = pre ++ 0 :: zlen p :: p ++ pad) by (symmetry; exact Hd).
      unfold scan_frame, process_rx. rewrite Hfd. fold k.
      rewrite (decode_sf_escape pre (zlen p) p pad k Hpre eq_refl Hn). cbn [d_pdu d_can_dl negb]. rewrite andb_false_r. rewrite HR. cbn.
      cbn. rewrite ?HR.
      split; [split; [reflexivity|split; [exact Hpend|reflexivity]]|]. split; [lia|]. split; [unfold b2z; destruct (pending_fc s); lia|left; reflexivity].
    + set (T := zlen (pre ++ ff_hdr (zlen (first ++ rest)) ++ first)) in *.
      assert (Hlen : zlen (pre ++ ff_hdr (zlen (first ++ rest)) ++ first) = T) by reflexivity.
      pose proof (in_ll_sizes T HT) as HTs. pose proof (nonempty_pos rest Hne) as Hr'.
      assert (Hpl : zlen (first ++ rest) = zlen first + zlen rest) by apply zlen_app.
      pose proof (zlen_nonneg first) as Hf0.
      assert (Hdec : exists esc, pdu_decode (pre ++ ff_hdr (zlen (first ++ rest)) ++ first) k =
                Some {| d_pdu := PFF esc (zlen (first ++ rest)) first; d_can_dl := T; d_rx_dl := T |}).
      { unfold ff_hdr in *. destruct (Z.leb_spec (zlen (first ++ rest)) 4095) as [Hs|Hl].
        - exists false. cbn [app] in *. rewrite (decode_ff_short pre (zlen (first ++ rest)) first k Hpre) by lia.
          rewrite Hlen. f_equal. f_equal; [|lia]. f_equal. apply ztake_all. lia.
        - exists true. cbn [app] in *. rewrite (decode_ff_long pre (zlen (first ++ rest)) first k Hpre) by lia.
          rewrite Hlen. f_equal. f_equal; [|lia]. f_equal. apply ztake_all. lia. }
      destruct Hdec as [esc Hdec].
      assert (Hfd : f_data f = pre ++ ff_hdr (zlen (first ++ rest)) ++ first) by (symmetry; exact Hd).
      unfold scan_frame, process_rx. rewrite Hfd. fold k. rewrite Hdec.
      cbn [d_pdu d_can_dl d_rx_dl negb andb]. cbv iota. rewrite HR.
      unfold start_reception_after_ff. rewrite (valid_rxdl_sizes T HT). cbn [negb].
      destruct (Z.ltb_spec (p_max_frame_size (c_p c)) (zlen (first ++ rest))); [lia|]. cbn.
      cbn.
      split; [split; [reflexivity|split; [reflexivity|repeat split; lia]]|]. split; [lia|]. split; [unfold b2z; destruct (pending_fc s); lia|left; reflexivity].
Qed.

End TokRx.
