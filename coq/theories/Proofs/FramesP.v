(** Frame builders: _make_tx_msg never raises for legal inputs and produces legal frames. *)
From IsoTp Require Import Base.Prelude Base.Bits Model.Frames Spec.ConfigSpec.
From IsoTp Require Export Spec.FrameSpec.

Lemma in_ll_sizes x : In x LL_SIZES -> x = 8 \/ x = 12 \/ x = 16 \/ x = 20 \/ x = 24 \/ x = 32 \/ x = 48 \/ x = 64.
Proof. unfold LL_SIZES; simpl; intuition. Qed.

Lemma in_min_lens x : In x MIN_LENS ->
  (1 <= x <= 8) \/ x = 12 \/ x = 16 \/ x = 20 \/ x = 24 \/ x = 32 \/ x = 48 \/ x = 64.
Proof. unfold MIN_LENS; simpl; intuition lia. Qed.

Lemma padding_byte_spec p : params_ok p -> padding_byte p = pad_byte p.
Proof.
  intros (_ & _ & Hp & _). unfold padding_byte, pad_byte.
  destruct (p_tx_padding p) as [b|]; [|reflexivity].
  specialize (Hp b eq_refl). rewrite land_FF. apply Z.mod_small; lia.
Qed.

Lemma nearest_fd_size_spec n : n <= 64 -> nearest_fd_size n = Some (next_fd n).
Proof.
  intros H. unfold nearest_fd_size, next_fd.
  repeat match goal with |- context [?a <=? ?b] => destruct (Z.leb_spec a b) end; try reflexivity; lia.
Qed.

(** _pad_message_data: data followed by the padding byte up to the reference target. *)
Theorem pad_message_data_spec p d :
  params_ok p -> 2 <= zlen d <= p_tx_dl p ->
  (p_tx_dl p = 8 -> zlen d <= 8) ->
  pad_message_data p d = Some (d ++ zrepeat (pad_byte p) (pad_target p (zlen d) - zlen d)) /\
  zlen d <= pad_target p (zlen d) <= p_tx_dl p /\ legal_len (pad_target p (zlen d)).
Proof.
  intros Hok Hlen H8. pose proof (padding_byte_spec p Hok) as Hpb.
  destruct Hok as (Hdl & Hml & _).
  apply in_ll_sizes in Hdl.
  unfold pad_message_data, pad_target. rewrite Hpb.
  assert (Hnf : nearest_fd_size (zlen d) = Some (next_fd (zlen d))) by (apply nearest_fd_size_spec; lia).
  assert (Hnfd : zlen d <= next_fd (zlen d) <= p_tx_dl p /\ legal_len (next_fd (zlen d))).
  { unfold next_fd, legal_len.
    repeat match goal with |- context [?a <=? ?b] => destruct (Z.leb_spec a b) end; simpl; lia. }
  assert (Hrep0 : forall x, x <= 0 -> d ++ zrepeat (pad_byte p) x = d).
  { intros x Hx. unfold zrepeat. replace (Z.to_nat x) with 0%nat by lia. apply app_nil_r. }
  destruct (Z.eqb_spec (p_tx_dl p) 8) as [E8|N8].
  - specialize (H8 E8).
    destruct (p_tx_min_len p) as [m|] eqn:Em.
    + destruct (Hml m eq_refl) as [Hm1 Hm2]. apply in_min_lens in Hm1.
      destruct (Z.ltb_spec (zlen d) m).
      * replace (Z.max (zlen d) m) with m by lia. split; [reflexivity|]. unfold legal_len; simpl; lia.
      * replace (Z.max (zlen d) m) with (zlen d) by lia. rewrite Hrep0 by lia.
        split; [reflexivity|]. unfold legal_len; simpl; lia.
    + destruct (p_tx_padding p) as [b|].
      * destruct (Z.ltb_spec (zlen d) 8).
        -- split; [reflexivity|]. unfold legal_len; simpl; lia.
        -- rewrite Hrep0 by lia. split; [reflexivity|]. unfold legal_len; simpl; lia.
      * rewrite Hrep0 by lia. split; [reflexivity|]. unfold legal_len; simpl; lia.
  - assert (8 < p_tx_dl p) by lia.
    destruct (Z.ltb_spec 8 (p_tx_dl p)); [|lia].
    rewrite Hnf.
    destruct (p_tx_min_len p) as [m|] eqn:Em.
    + destruct (Hml m eq_refl) as [Hm1 Hm2]. apply in_min_lens in Hm1.
      destruct (Z.ltb_spec (zlen d) (Z.max m (next_fd (zlen d)))).
      * split; [reflexivity|]. split; [lia|].
        destruct Hnfd as [Hn1 Hn2].
        destruct (Z.max_spec m (next_fd (zlen d))) as [[_ ->]|[Hmx ->]]; [exact Hn2|].
        unfold legal_len; simpl; lia.
      * rewrite Hrep0 by lia. split; [reflexivity|]. split; [lia|].
        destruct Hnfd as [Hn1 Hn2].
        destruct (Z.max_spec m (next_fd (zlen d))) as [[_ ->]|[Hmx ->]]; [exact Hn2|].
        unfold legal_len; simpl; lia.
    + destruct (Z.ltb_spec (zlen d) (next_fd (zlen d))).
      * split; [reflexivity|]. tauto.
      * rewrite Hrep0 by lia. split; [reflexivity|]. tauto.
Qed.

Lemma dlc_of_legal n : legal_len n -> dlc_of_fdlen n = Some (dlc_table n).
Proof.
  unfold legal_len, dlc_of_fdlen, dlc_table. simpl.
  intros [H|H].
  - destruct (Z.leb_spec 2 n), (Z.leb_spec n 8); simpl; try lia. reflexivity.
  - destruct H as [<-|[<-|[<-|[<-|[<-|[<-|[<-|[]]]]]]]]; reflexivity.
Qed.

(** _make_tx_msg: for a legal unpadded length it returns the frame with the reference
    padding, the matching DLC and the flags / identifier of the configuration. *)
Theorem make_tx_msg_spec c id d :
  params_ok (c_p c) -> 2 <= zlen d <= p_tx_dl (c_p c) ->
  (p_tx_dl (c_p c) = 8 -> zlen d <= 8) ->
  let n := pad_target (c_p c) (zlen d) in
  make_tx_msg c id d =
    Some {| f_id := id; f_ext := c_tx_ext c;
            f_data := d ++ zrepeat (pad_byte (c_p c)) (n - zlen d);
            f_dlc := dlc_table n; f_fd := p_can_fd (c_p c); f_brs := p_brs (c_p c) |} /\
  zlen d <= n <= p_tx_dl (c_p c) /\ legal_len n.
Proof.
  intros Hok Hlen H8 n.
  destruct (pad_message_data_spec (c_p c) d Hok Hlen H8) as (Hpad & Hn & Hleg).
  fold n in Hpad, Hn, Hleg.
  unfold make_tx_msg. rewrite Hpad.
  assert (Hl : zlen (d ++ zrepeat (pad_byte (c_p c)) (n - zlen d)) = n).
  { rewrite zlen_app, zlen_zrepeat. lia. }
  unfold get_dlc_tx. rewrite Hl.
  assert (Hnf : nearest_fd_size n = Some n).
  { unfold legal_len in Hleg. simpl in Hleg. unfold nearest_fd_size.
    destruct Hleg as [H|H].
    - destruct (Z.leb_spec n 8); [reflexivity|lia].
    - destruct H as [<-|[<-|[<-|[<-|[<-|[<-|[<-|[]]]]]]]]; reflexivity. }
  rewrite Hnf.
  assert (Hg : (p_tx_dl (c_p c) =? 8) && ((n <? 2) || (8 <? n)) = false).
  { destruct (Z.eqb_spec (p_tx_dl (c_p c)) 8) as [E|E]; [|reflexivity]. simpl.
    destruct (Z.ltb_spec n 2), (Z.ltb_spec 8 n); simpl; try reflexivity; lia. }
  rewrite Hg. rewrite dlc_of_legal by exact Hleg.
  repeat split; try tauto.
Qed.
