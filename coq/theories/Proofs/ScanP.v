(** Flow-control points of a sequence of data frames.  [scan] reads frames the way a receiver with block
    size [bs] does - a First Frame opens a message and is a point, every [bs]-th Consecutive Frame that does
    not complete the message is a point - and counts the points.  Both sides of a link are related to it:
    the receiver issues one ContinueToSend per point it has consumed, the sender waits after every point it
    has emitted until it has accepted as many grants as it has emitted points. *)
From IsoTp Require Import Base.Prelude Base.Bits Model.Micro Spec.ConfigSpec Spec.FrameSpec Spec.Segment Spec.Stream
  Proofs.FramesP Proofs.Codec Proofs.TxP Proofs.SegP Proofs.SendTraceP Proofs.WireP.

Record sc := { sc_k : Z; sc_rem : Z; sc_pts : Z }.
Definition sc0 : sc := {| sc_k := 0; sc_rem := 0; sc_pts := 0 |}.

Definition scan_frame (k bs : Z) (st : sc) (d : list Z) : sc :=
  match pdu_decode d k with
  | Some x =>
      match d_pdu x with
      | PFF _ len data => {| sc_k := 0; sc_rem := len - zlen data; sc_pts := sc_pts st + 1 |}
      | PCF _ data =>
          let rem' := Z.max 0 (sc_rem st - zlen data) in
          {| sc_k := sc_k st + 1; sc_rem := rem';
             sc_pts := sc_pts st + (if (0 <? bs) && ((sc_k st + 1) mod bs =? 0) && (0 <? rem') then 1 else 0) |}
      | PSF _ _ _ => {| sc_k := 0; sc_rem := 0; sc_pts := sc_pts st |}
      | PFC _ _ _ => st
      end
  | None => st
  end.

Definition scan_from (k bs : Z) (st : sc) (fs : list frame) : sc := fold_left (fun a f => scan_frame k bs a (f_data f)) fs st.
Definition scan (k bs : Z) (fs : list frame) : sc := scan_from k bs sc0 fs.

Lemma scan_from_app k bs st a b : scan_from k bs st (a ++ b) = scan_from k bs (scan_from k bs st a) b.
Proof. unfold scan_from. apply fold_left_app. Qed.

Lemma scan_snoc k bs a f : scan k bs (a ++ [f]) = scan_frame k bs (scan k bs a) (f_data f).
Proof. unfold scan. rewrite scan_from_app. reflexivity. Qed.

Lemma scan_frame_pts k bs st d : sc_pts st <= sc_pts (scan_frame k bs st d).
Proof.
  unfold scan_frame. destruct (pdu_decode d k) as [x|]; [|lia].
  destruct (d_pdu x); cbn [sc_pts]; try lia. destruct (_ && _); lia.
Qed.

Lemma scan_from_pts k bs fs : forall st, sc_pts st <= sc_pts (scan_from k bs st fs).
Proof.
  induction fs as [|f r IH]; intros st; [cbn; lia|]. cbn [scan_from fold_left].
  pose proof (scan_frame_pts k bs st (f_data f)). specialize (IH (scan_frame k bs st (f_data f))). unfold scan_from in IH. lia.
Qed.

(** points only grow along the wire *)
Lemma scan_prefix_pts k bs a b : sc_pts (scan k bs a) <= sc_pts (scan k bs (a ++ b)).
Proof. unfold scan. rewrite scan_from_app. apply scan_from_pts. Qed.

(** *** scanning the frames of a reference segmentation *)
Section ScanSeg.
Variable c : cfg.
Hypothesis Hok : params_ok (c_p c).
Variable bs : Z.

Let pfx := c_tx_prefix c.
Let k := zlen pfx.
Local Notation tx_dl := (p_tx_dl (c_p c)).

Lemma scan_ff m st : m_ok m -> is_single c (m_n m) = false ->
  scan_frame k bs st (f_data (ff_frame c m)) =
  {| sc_k := 0; sc_rem := m_n m - ff_cap c (m_n m); sc_pts := sc_pts st + 1 |}.
Proof.
  intros Hm Hs. pose proof (ff_cap_bounds c Hok m Hm Hs) as Hcap. pose proof (plen_bounds c : 0 <= k <= 1) as Hk.
  pose proof (tx_dl_in c Hok) as Hdl. 
  unfold ff_frame. fold pfx.
  set (body := ztake (ff_cap c (m_n m)) (m_p m)).
  assert (Hbl : zlen body = ff_cap c (m_n m)) by (subst body; rewrite zlen_ztake by lia; unfold m_n in *; lia).
  assert (Hfull : zlen (pfx ++ ff_header (m_n m) ++ body) = tx_dl).
  { rewrite !zlen_app, Hbl. fold k. unfold ff_header, ff_cap. fold pfx k.
    change (zlen (Address.tx_prefix (c_txa c))) with k.
    destruct (m_n m <=? 4095); rewrite ?zlen_cons, zlen_nil; lia. }
  rewrite (spec_frame_full c Hok _ _ Hfull).
  unfold scan_frame, ff_header. unfold m_ok in Hm.
  destruct (Z.leb_spec (m_n m) 4095) as [Hsm|Hlg]; cbn [app].
  - rewrite (decode_ff_short pfx (m_n m) body k eq_refl) by lia. cbn [d_pdu].
    rewrite Z.min_r by lia. rewrite ztake_all by lia. rewrite Hbl. reflexivity.
  - rewrite (decode_ff_long pfx (m_n m) body k eq_refl) by lia. cbn [d_pdu].
    rewrite Z.min_r by lia. rewrite ztake_all by lia. rewrite Hbl. reflexivity.
Qed.

Lemma cf_chunk_len m j : m_ok m -> 1 <= j -> kpos c m j < m_n m -> 0 < ff_cap c (m_n m) ->
  zlen (ztake (cf_cap c) (zdrop (kpos c m j) (m_p m))) = Z.min (cf_cap c) (m_n m - kpos c m j).
Proof.
  intros Hm Hj Hk Hcap. pose proof (cf_cap_pos c Hok) as Hc.
  assert (0 <= kpos c m j) by (unfold kpos; nia).
  rewrite zlen_ztake by lia. rewrite zlen_zdrop by lia. unfold m_n in *. lia.
Qed.

Lemma cf_data_shape m j : cf_data c (m_p m) j = pfx ++ (0x20 + j mod 16) :: ztake (cf_cap c) (zdrop (kpos c m j) (m_p m)).
Proof. unfold cf_data, kpos, m_n. reflexivity. Qed.

(** a Consecutive Frame that does not complete the message *)
Lemma scan_cf_more m j st : m_ok m -> is_single c (m_n m) = false -> 1 <= j -> kpos c m j + cf_cap c < m_n m ->
  sc_rem st = m_n m - kpos c m j ->
  scan_frame k bs st (f_data (cf_frame c m j)) =
  {| sc_k := sc_k st + 1; sc_rem := m_n m - kpos c m (j + 1);
     sc_pts := sc_pts st + (if (0 <? bs) && ((sc_k st + 1) mod bs =? 0) then 1 else 0) |}.
Proof.
  intros Hm Hs Hj Hk Hrem. pose proof (ff_cap_bounds c Hok m Hm Hs) as Hcap. pose proof (cf_cap_pos c Hok) as Hc.
  pose proof (plen_bounds c : 0 <= k <= 1) as Hkb.
  assert (Hkj : kpos c m j < m_n m) by lia.
  pose proof (cf_chunk_len m j Hm Hj Hkj (proj1 Hcap)) as Hl. rewrite Z.min_l in Hl by lia.
  unfold cf_frame. rewrite cf_data_shape.
  set (chunk := ztake (cf_cap c) (zdrop (kpos c m j) (m_p m))) in *.
  assert (Hfull : zlen (pfx ++ (0x20 + j mod 16) :: chunk) = tx_dl).
  { rewrite zlen_app, zlen_cons, Hl. unfold cf_cap. fold k. change (zlen (Address.tx_prefix (c_txa c))) with k. lia. }
  rewrite (spec_frame_full c Hok _ _ Hfull).
  unfold scan_frame. rewrite (decode_cf pfx (j mod 16) chunk k eq_refl) by (apply Z.mod_pos_bound; lia).
  cbn [d_pdu]. rewrite Hl, Hrem.
  assert (Hk1 : kpos c m (j + 1) = kpos c m j + cf_cap c) by (unfold kpos; lia).
  rewrite Hk1. rewrite Z.max_r by lia.
  replace (m_n m - kpos c m j - cf_cap c) with (m_n m - (kpos c m j + cf_cap c)) by lia.
  destruct (Z.ltb_spec 0 (m_n m - (kpos c m j + cf_cap c))); [|lia]. rewrite andb_true_r. reflexivity.
Qed.

(** the Consecutive Frame that completes the message: never a point *)
Lemma scan_cf_last m j st : m_ok m -> is_single c (m_n m) = false -> 1 <= j -> kpos c m j < m_n m -> m_n m <= kpos c m j + cf_cap c ->
  sc_rem st = m_n m - kpos c m j ->
  scan_frame k bs st (f_data (cf_frame c m j)) = {| sc_k := sc_k st + 1; sc_rem := 0; sc_pts := sc_pts st |}.
Proof.
  intros Hm Hs Hj Hkj Hlast Hrem. pose proof (ff_cap_bounds c Hok m Hm Hs) as Hcap. pose proof (cf_cap_pos c Hok) as Hc.
  pose proof (plen_bounds c : 0 <= k <= 1) as Hkb. pose proof (tx_dl_in c Hok) as Hdl. 
  pose proof (cf_chunk_len m j Hm Hj Hkj (proj1 Hcap)) as Hl. rewrite Z.min_r in Hl by lia.
  unfold cf_frame. rewrite cf_data_shape.
  set (chunk := ztake (cf_cap c) (zdrop (kpos c m j) (m_p m))) in *.
  assert (Hlen : 2 <= zlen (pfx ++ (0x20 + j mod 16) :: chunk) <= tx_dl).
  { rewrite zlen_app, zlen_cons, Hl. unfold cf_cap in Hlast, Hc |- *. change (zlen (Address.tx_prefix (c_txa c))) with k in *.  lia. }
  destruct (spec_frame_data c Hok (Address.tx_arb_id (c_txa c) Physical) _ Hlen) as [Hd _]; [intros Heq; lia|].
  rewrite Hd. rewrite <- app_assoc. cbn [app].
  unfold scan_frame. rewrite (decode_cf pfx (j mod 16) (chunk ++ _) k eq_refl) by (apply Z.mod_pos_bound; lia).
  cbn [d_pdu]. rewrite zlen_app, Hl, Hrem.
  match goal with |- context [zlen (zrepeat ?a ?b)] => pose proof (zlen_nonneg (zrepeat a b)) as Hp end.
  rewrite Z.max_l by lia. cbn [Z.ltb]. rewrite andb_false_r. f_equal. lia.
Qed.

(** a message that fits a Single Frame: no point *)
Lemma scan_sf m f st : m_ok m -> m_seg c m = [f] ->
  scan_frame k bs st (f_data f) = {| sc_k := 0; sc_rem := 0; sc_pts := sc_pts st |}.
Proof.
  intros Hm Hf. pose proof (seg_wf c Hok (m_t m) (m_p m) Hm) as Hwf. fold (m_seg c m) in Hwf. rewrite Hf in Hwf. cbn [map] in Hwf.
  change (zlen (Address.tx_prefix (c_txa c))) with k in Hwf.
  unfold scan_frame.
  inversion Hwf as [pre pad Hpre Hn Hlen Ef | pre pad Hpre Hn Hlen Ef | T pre first rest cfs HT Hpre Hp Hne Hn Hlen Hcfs Ef].
  - rewrite (decode_sf_short pre (zlen (m_p m)) (m_p m) pad k Hpre eq_refl Hn). reflexivity.
  - rewrite (decode_sf_escape pre (zlen (m_p m)) (m_p m) pad k Hpre eq_refl Hn). reflexivity.
  - exfalso. destruct cfs as [|d0 tl0]; [inversion Hcfs|discriminate].
Qed.

End ScanSeg.
