(** C18 "hears the same": reception does not depend on listen mode (nor on any transmit
    parameter): _process_rx and the timeout check are the same functions for a listener and for
    a normal receiver with the same reception parameters; what differs is only that the listener's
    transmit pass keeps the Flow Control to itself. *)
From IsoTp Require Import Base.Prelude Model.Layer Proofs.DuplexP.

Definition same_rx_cfg (c c' : cfg) : Prop :=
  c_rx_prefix_size c' = c_rx_prefix_size c /\ p_max_frame_size (c_p c') = p_max_frame_size (c_p c) /\
  p_blocksize (c_p c') = p_blocksize (c_p c) /\ p_tcr_ns (c_p c') = p_tcr_ns (c_p c).

Theorem process_rx_cfg c c' s f : same_rx_cfg c c' -> process_rx c' s f = process_rx c s f.
Proof.
  intros (H1 & H2 & H3 & H4). unfold process_rx, start_reception_after_ff, start_rx_cf_timer.
  rewrite H1, H2, H3, H4. reflexivity.
Qed.

Lemma process_tx_rxv c0 s : rxv (tr_s (process_tx c0 s)) =
  rxv (if pending_fc s then
         (if opt_eqb (pending_fc_status (s <| pending_fc := false |>)) (Some FS_CTS)
          then start_rx_cf_timer c0 (s <| pending_fc := false |>) else s <| pending_fc := false |>)
       else s).
Proof.
  unfold process_tx. destruct (pending_fc s); [|apply tx_preserves_rx].
  destruct (negb (p_listen (c_p c0))).
  - destruct (opt_eqb _ _); (destruct (pending_fc_status _) as [st|]; [destruct (make_flow_control c0 st)|]); reflexivity.
  - apply tx_preserves_rx.
Qed.

(** the transmit pass of a listener and of a normal receiver leave the same reception state *)
Theorem listen_pass_same_rx c c' s : p_tcr_ns (c_p c') = p_tcr_ns (c_p c) ->
  rxv (tr_s (process_tx c' s)) = rxv (tr_s (process_tx c s)).
Proof.
  intros Ht.
  rewrite (process_tx_rxv c'), (process_tx_rxv c). unfold start_rx_cf_timer. rewrite Ht. reflexivity.
Qed.

(** Reception is a function of the reception view: two states that agree on it (whatever their
    transmit sides look like) treat a frame identically. *)
Lemma rxv_fields s1 s2 : rxv s1 = rxv s2 ->
  now s1 = now s2 /\ rx_state s1 = rx_state s2 /\ rx_buffer s1 = rx_buffer s2 /\ rx_frame_length s1 = rx_frame_length s2 /\
  last_seqnum s1 = last_seqnum s2 /\ rx_block_counter s1 = rx_block_counter s2 /\ actual_rxdl s1 = actual_rxdl s2 /\
  timer_rx_cf s1 = timer_rx_cf s2 /\ rx_queue s1 = rx_queue s2 /\ pending_fc s1 = pending_fc s2 /\
  pending_fc_status s1 = pending_fc_status s2.
Proof. unfold rxv. intros E. injection E as E1 E2 E3 E4 E5 E6 E7 E8 E9 E10 E11. auto 12. Qed.

Ltac rx_leaf :=
  unfold rxv, stop_receiving, stop_sending_fc, request_tx_fc, start_rx_cf_timer; cbn;
  repeat match goal with H : _ = _ |- _ => rewrite H end; try reflexivity.

Theorem rx_fun c s1 s2 f : rxv s1 = rxv s2 ->
  rxv (rr_s (process_rx c s1 f)) = rxv (rr_s (process_rx c s2 f)) /\
  rr_evs (process_rx c s1 f) = rr_evs (process_rx c s2 f) /\
  rr_frame (process_rx c s1 f) = rr_frame (process_rx c s2 f).
Proof.
  intros E. destruct (rxv_fields _ _ E) as (N & H1 & H2 & H3 & H4 & H5 & H6 & H7 & H8 & H9 & H10).
  unfold process_rx.
  destruct (pdu_decode _ _) as [d|]; [|cbn [rr_s rr_evs rr_frame mk_rr]; split; [rx_leaf|auto]].
  destruct (d_pdu d) as [esc l data|esc len data|sn data|fs bs st].
  - destruct ((8 <? d_can_dl d) && negb esc); [cbn [rr_s rr_evs rr_frame mk_rr]; auto|].
    rewrite H1. destruct (rx_state s2) eqn:E2; cbn [rr_s rr_evs rr_frame mk_rr]; (split; [rx_leaf|auto]).
  - cbn match. rewrite H1. unfold start_reception_after_ff.
    destruct (rx_state s2) eqn:E2; destruct (negb (valid_rxdl _)); try (destruct (p_max_frame_size _ <? len));
      cbn [rr_s rr_evs rr_frame mk_rr]; (split; [rx_leaf|auto]).
  - cbn match. rewrite H1. destruct (rx_state s2) eqn:E2; [cbn [rr_s rr_evs rr_frame mk_rr]; (split; [rx_leaf|auto])|].
    rewrite H4. destruct (sn =? _); [|cbn [rr_s rr_evs rr_frame mk_rr]; (split; [rx_leaf|auto])].
    rewrite H6, H3, H2.
    destruct (negb _ && _); [cbn [rr_s rr_evs rr_frame mk_rr]; auto|].
    unfold start_rx_cf_timer, request_tx_fc. cbn. rewrite ?N, ?H2, ?H3, ?H4, ?H5, ?H6, ?H7, ?H8, ?H9, ?H10.
    repeat match goal with |- context [if ?b then _ else _] => destruct b end;
      cbn [rr_s rr_evs rr_frame mk_rr]; (split; [rx_leaf|auto]).
  - cbn [rr_s rr_evs rr_frame mk_rr]. split; [rx_leaf|auto].
Qed.

From IsoTp Require Import Model.Micro.

Lemma pass_fun c c' s1 s2 : p_tcr_ns (c_p c') = p_tcr_ns (c_p c) -> rxv s1 = rxv s2 ->
  rxv (tr_s (process_tx c' s1)) = rxv (tr_s (process_tx c s2)).
Proof.
  intros Ht E. destruct (rxv_fields _ _ E) as (N & H1 & H2 & H3 & H4 & H5 & H6 & H7 & H8 & H9 & H10).
  rewrite (process_tx_rxv c' s1), (process_tx_rxv c s2). rewrite H9. destruct (pending_fc s2); [|exact E].
  cbn [pending_fc_status set RecordSet.set]. rewrite H10. destruct (opt_eqb _ _); rx_leaf.
Qed.

(** reception-relevant micro-steps: frames, timeout checks, transmit passes, limiter updates, recv(), ticks *)
Definition rx_relevant (m : micro) : Prop :=
  match m with MCheck | MRx _ | MTx | MLim | MRecv | MTick _ => True | _ => False end.

(** A listener (configuration [c'], listen mode or not - only the reception parameters matter) and
    a receiver [c] taken through the same frames, passes, checks and ticks from states with the same
    reception view end with the same reception view - in particular the same reception queue - and
    their reception events are the same. *)
Theorem hears_the_same c c' : same_rx_cfg c c' -> forall ms s1 s2,
  Forall rx_relevant ms -> rxv s1 = rxv s2 ->
  rxv (fst (mrun c' s1 ms)) = rxv (fst (mrun c s2 ms)).
Proof.
  intros Hc. pose proof Hc as (_ & _ & _ & Ht).
  induction ms as [|m rest IH]; intros s1 s2 Hall E; cbn [mrun]; [exact E|].
  inversion Hall as [|? ? Hm Hrest]; subst.
  assert (Hstep : rxv (fst (mstep c' s1 m)) = rxv (fst (mstep c s2 m))).
  { destruct m; cbn [rx_relevant] in Hm; try contradiction; cbn [mstep fst].
    - destruct (rxv_fields _ _ E) as (N & H1 & H2 & H3 & H4 & H5 & H6 & H7 & H8 & H9 & H10).
      unfold check_timeouts_rx. rewrite N, H7. destruct (timer_timed_out _ _); cbn [fst]; [rx_leaf|exact E].
    - rewrite (process_rx_cfg c c' s1 f Hc). exact (proj1 (rx_fun c s1 s2 f E)).
    - unfold lim_update. destruct (rxv_fields _ _ E) as (N & H1 & H2 & H3 & H4 & H5 & H6 & H7 & H8 & H9 & H10).
      destruct (negb (p_lim_enable (c_p c'))); destruct (negb (p_lim_enable (c_p c)));
        repeat match goal with |- context [lim_pop ?a ?b ?x ?y ?z] => destruct (lim_pop a b x y z) as [[? ?] ?] end; rx_leaf.
    - apply pass_fun; assumption.
    - destruct (rxv_fields _ _ E) as (N & H1 & H2 & H3 & H4 & H5 & H6 & H7 & H8 & H9 & H10).
      unfold recv. rewrite H8. destruct (rx_queue s2); cbn [fst]; [exact E|rx_leaf].
    - destruct (rxv_fields _ _ E) as (N & H1 & H2 & H3 & H4 & H5 & H6 & H7 & H8 & H9 & H10). unfold tick. rx_leaf. }
  destruct (mstep c' s1 m) as [t1 e1]. destruct (mstep c s2 m) as [t2 e2]. cbn [fst] in Hstep.
  specialize (IH t1 t2 Hrest Hstep).
  destruct (mrun c' t1 rest) as [u1 f1]. destruct (mrun c t2 rest) as [u2 f2]. exact IH.
Qed.
